import Mathlib
open Matrix
variable {m n k : Type*} [Fintype m] [Fintype n] [Fintype k] [DecidableEq m] [DecidableEq n]

theorem LA1 (J : Matrix m n ℝ) (r : m → ℝ) (c : n → ℝ) (y : m → ℝ) (j : n) :
    ((diagonal r * J * diagonal c)ᵀ *ᵥ y) j = c j * ((Jᵀ *ᵥ (fun i => r i * y i)) j) := by
  simp only [mulVec, dotProduct, transpose_apply, mul_diagonal, diagonal_mul]
  rw [Finset.mul_sum]; apply Finset.sum_congr rfl; intro i _; ring

theorem LA2 (A : Matrix m n ℝ) (B : Matrix m k ℝ) (y : m → ℝ) :
    (fromCols A B)ᵀ *ᵥ y = Sum.elim (Aᵀ *ᵥ y) (Bᵀ *ᵥ y) := by
  funext j; cases j <;> simp [mulVec, dotProduct, fromCols]

theorem LA3 (pos : k → m) (y : m → ℝ) (c : k) :
    ((Matrix.of fun (i : m) (c : k) => if i = pos c then (-1 : ℝ) else 0)ᵀ *ᵥ y) c = - y (pos c) := by
  simp [mulVec, dotProduct]

/-- LA3 with an arbitrary stored value per column (the rule used by the verifier's structural `mtv`). -/
theorem LA3d (pos : k → m) (d : k → ℝ) (y : m → ℝ) (c : k) :
    ((Matrix.of fun (i : m) (c : k) => if i = pos c then d c else 0)ᵀ *ᵥ y) c = d c * y (pos c) := by
  simp [mulVec, dotProduct]

/-- LA1b: entries scaled by row and column factors, multipliers scaled by the row factors up to a constant. -/
theorem LA1b (Js J : Matrix m n ℝ) (r : m → ℝ) (c : n → ℝ) (ys y : m → ℝ) (a : ℝ)
    (h1 : ∀ i j, Js i j = r i * J i j * c j) (h2 : ∀ i, r i * ys i = a * y i) (j : n) :
    (Jsᵀ *ᵥ ys) j = c j * a * ((Jᵀ *ᵥ y) j) := by
  simp only [mulVec, dotProduct, transpose_apply, h1]
  rw [Finset.mul_sum]; apply Finset.sum_congr rfl; intro i _
  calc r i * J i j * c j * ys i = J i j * c j * (r i * ys i) := by ring
    _ = J i j * c j * (a * y i) := by rw [h2 i]
    _ = c j * a * (J i j * y i) := by ring

theorem LA4 (H0 : Matrix n n ℝ) (J : Matrix m n ℝ) (lam rho : ℝ) (hl : 0 < lam) (hr : 0 < rho)
    (dx : n → ℝ) (sy b2 : m → ℝ) (b1 : n → ℝ)
    (h1 : (H0 + lam • (1 : Matrix n n ℝ)) *ᵥ dx + Jᵀ *ᵥ sy = b1)
    (h2 : J *ᵥ dx - (lam / (1 + lam * rho)) • sy = (1 / (1 + lam * rho)) • b2) :
    let dy := (1 / (1 + lam * rho)) • (sy - rho • b2)
    (H0 + rho • (Jᵀ * J) + lam • (1 : Matrix n n ℝ)) *ᵥ dx + Jᵀ *ᵥ dy = b1
      ∧ J *ᵥ dx - lam • dy = b2 := by
  intro dy
  have hpos : (1 + lam * rho) ≠ 0 := by positivity
  have e2 : J *ᵥ dx - lam • dy = b2 := by
    have : J *ᵥ dx = (1 / (1 + lam * rho)) • b2 + (lam / (1 + lam * rho)) • sy := by
      rw [← h2]; abel
    funext i
    simp only [dy, this, Pi.sub_apply, Pi.add_apply, Pi.smul_apply, smul_eq_mul]
    field_simp; ring
  refine ⟨?_, e2⟩
  have hJ : J *ᵥ dx = b2 + lam • dy := by rw [← e2]; abel
  have key : rho • (Jᵀ *ᵥ (J *ᵥ dx)) + Jᵀ *ᵥ dy = Jᵀ *ᵥ sy := by
    rw [hJ, ← mulVec_smul, ← mulVec_add]; congr 1; funext i
    simp only [dy, Pi.add_apply, Pi.smul_apply, Pi.sub_apply, smul_eq_mul]
    field_simp; ring
  rw [← h1, ← key]
  simp only [add_mulVec, smul_mulVec, ← mulVec_mulVec]; abel

theorem LA5a (p q : ℝ) (hp : 0 ≤ p) (hq : 0 ≤ q) : Real.sqrt (p ^ 2 + q ^ 2) ≤ p + q := by
  rw [show p + q = Real.sqrt ((p + q) ^ 2) from (Real.sqrt_sq (by positivity)).symm]
  apply Real.sqrt_le_sqrt; nlinarith [mul_nonneg hp hq]

theorem LA5b (v : n → ℝ) (j : n) : |v j| ≤ Real.sqrt (∑ i, v i ^ 2) := by
  apply Real.abs_le_sqrt
  exact Finset.single_le_sum (f := fun i => v i ^ 2) (fun i _ => sq_nonneg (v i)) (Finset.mem_univ j)
