/-
C08 composition lemma (no Mathlib needed).

A solve is a loop over a state σ: at the loop head a stop test, otherwise one deterministic step.
`stop` is the natural termination test (optimal, infeasible, ...), `it` the iteration counter, which every step
increments by one (loop contract: one count per trial).  The iteration-limited solve uses the test
`stop s || it s ≥ k`; nothing else in the loop reads the limit (read-set frame).
`runUntil` with fuel models the loop (fuel = any bound on the number of head visits).
-/

def runUntil {σ : Type} (step : σ → σ) (stop : σ → Bool) : Nat → σ → σ
  | 0, s => s
  | n + 1, s => if stop s then s else runUntil step stop n (step s)

theorem prefix_of_unlimited {σ : Type} (step : σ → σ) (stop : σ → Bool) (it : σ → Nat)
    (hstep : ∀ s, it (step s) = it s + 1) (k : Nat) :
    ∀ (fuel : Nat) (s : σ), it s ≤ k →
      runUntil step (fun s => stop s || decide (it s ≥ k)) fuel s
        = runUntil step stop (min fuel (k - it s)) s := by
  intro fuel
  induction fuel with
  | zero => intro s _; simp [runUntil]
  | succ n ih =>
    intro s hle
    by_cases hs : stop s = true
    · -- natural stop at this head: both runs return s
      cases hk : k - it s with
      | zero => simp [runUntil, hs]
      | succ d =>
        have : min (n + 1) (d + 1) = (min n d) + 1 := by omega
        simp [runUntil, hs, this]
    · have hs' : stop s = false := by cases h : stop s <;> simp_all
      by_cases hk : it s ≥ k
      · -- the limit fires: the limited run returns s; the unlimited one has no fuel left (k - it s = 0)
        have h0 : k - it s = 0 := by omega
        simp [runUntil, hs', hk, h0]
      · have hlt : it s < k := by omega
        obtain ⟨d, hd⟩ : ∃ d, k - it s = d + 1 := ⟨k - it s - 1, by omega⟩
        have hmin : min (n + 1) (k - it s) = (min n d) + 1 := by omega
        have hd' : k - it (step s) = d := by rw [hstep]; omega
        have hle' : it (step s) ≤ k := by rw [hstep]; omega
        have := ih (step s) hle'
        rw [hd'] at this
        simp [runUntil, hs', hk, hmin, this]

/-- Corollary used in DESIGN.md: the limited solve performs exactly the first `min (natural length) (k - it s)` steps
of the unlimited solve and returns the state the unlimited solve had at that moment. -/
theorem limited_run_is_prefix {σ : Type} (step : σ → σ) (stop : σ → Bool) (it : σ → Nat)
    (hstep : ∀ s, it (step s) = it s + 1) (k fuel : Nat) (s : σ) (h0 : it s = 0) :
    runUntil step (fun s => stop s || decide (it s ≥ k)) fuel s = runUntil step stop (min fuel k) s := by
  have := prefix_of_unlimited step stop it hstep k fuel s (by omega)
  simpa [h0] using this
/-
Deadline variant.  `q s`: the deadline has expired when the loop head of state `s` is reached; `r s`: it expires
DURING the step started from `s` (inside the Newton loop of the exact controller).  In that case the step is
interrupted: the loop performs `step'` instead of `step`.  Contracts used as hypotheses:
  hsol : an interrupted step leaves the solution part of the state untouched (StepSolverError => rejected trial,
         iterate unchanged: C07 / C15 contracts);
  hq   : after an interrupted step the deadline has expired at the next head (the clock is monotone).
Conclusion: the solution returned by the deadline-limited run is the solution the UNLIMITED run holds after some
number j <= fuel of its own steps - never a partially computed or rejected trial point.
-/
def runD {σ : Type} (step step' : σ → σ) (stop q r : σ → Bool) : Nat → σ → σ
  | 0, s => s
  | n + 1, s => if stop s || q s then s else if r s then runD step step' stop q r n (step' s)
                else runD step step' stop q r n (step s)

theorem runD_stops_at_expired_head {σ : Type} (step step' : σ → σ) (stop q r : σ → Bool) (n : Nat) (t : σ)
    (h : q t = true) : runD step step' stop q r n t = t := by
  cases n with
  | zero => simp [runD]
  | succ n => simp [runD, h]

theorem deadline_run_returns_a_state_of_the_unlimited_run {σ α : Type} (sol : σ → α)
    (step step' : σ → σ) (stop q r : σ → Bool)
    (hsol : ∀ s, sol (step' s) = sol s) (hq : ∀ s, r s = true → q (step' s) = true) :
    ∀ (fuel : Nat) (s : σ), ∃ j, j ≤ fuel ∧
      sol (runD step step' stop q r fuel s) = sol (runUntil step stop j s) := by
  intro fuel
  induction fuel with
  | zero => intro s; exact ⟨0, by omega, by simp [runD, runUntil]⟩
  | succ n ih =>
    intro s
    by_cases h1 : (stop s || q s) = true
    · exact ⟨0, by omega, by simp [runD, runUntil, h1]⟩
    · have hs : stop s = false := by
        cases hh : stop s <;> simp_all
      have hq0 : q s = false := by
        cases hh : q s <;> simp_all
      by_cases h2 : r s = true
      · have := runD_stops_at_expired_head step step' stop q r n (step' s) (hq s h2)
        refine ⟨0, by omega, ?_⟩
        simp [runD, runUntil, hs, hq0, h2, this, hsol]
      · have h2' : r s = false := by
          cases hh : r s <;> simp_all
        obtain ⟨j, hj, he⟩ := ih (step s)
        refine ⟨j + 1, by omega, ?_⟩
        simp [runD, runUntil, hs, hq0, h2', he]

#print axioms prefix_of_unlimited
#print axioms deadline_run_returns_a_state_of_the_unlimited_run
#print axioms limited_run_is_prefix
