"""Matrix values: abstract linear maps (mv / mtv uninterpreted on array terms) and entry-wise matrices.

J.T.dot(y) is  mtv(J, y)[j]  for an uninterpreted function of (matrix id, array term, index); the same
symbol is used by the spec functions (DESIGN §2.3).  Algebraic facts come only from explicit lemma
instances (lemmas.py).
"""
from __future__ import annotations

import ast

import z3

from . import ops
from .core import UFact, Unsupported
from .values import Arr, Mat, Obj, Opaque, Vec, is_sym, lift

_RA = z3.ArraySort(z3.IntSort(), z3.RealSort())


def _fn(it, name, *sorts):
    d = it.path.ghost.setdefault("__matfns__", {})
    if name not in d:
        d[name] = z3.Function(name, *sorts)
    return d[name]


def mat_id(it, m: Mat):
    """z3 constant standing for the matrix (uninterpreted sort)."""
    d = it.path.ghost.setdefault("__matids__", {})
    if m.name not in d:
        S = it.path.ghost.get("__matsort__")
        if S is None:
            S = z3.DeclareSort("Matrix")
            it.path.ghost["__matsort__"] = S
        d[m.name] = z3.Const("mat_" + m.name, S)
    return d[m.name]


def _vec_of(v):
    if isinstance(v, Arr):
        return v.vec()
    if isinstance(v, Vec):
        return v
    raise Unsupported("matrix-vector product with non-vector")


def _real_array(v: Vec):
    from .npmodel import _real_array as ra

    return ra(v)


def mv(it, m: Mat, x):
    """m @ x"""
    if m.transposed_of is not None:
        return mtv(it, m.transposed_of, x)
    xv = _vec_of(x)
    f = _fn(it, "mv", mat_id(it, m).sort(), _RA, z3.IntSort(), z3.RealSort())
    A = _real_array(xv)
    M = mat_id(it, m)
    r = Arr.new(Vec(m.rows, lambda i: f(M, A, i if not isinstance(i, int) else z3.IntVal(i)), "real"))
    hook = it.hooks.get("mv")
    if hook is not None:
        hook(it, m, x, r)
    return r


def mtv(it, m: Mat, y):
    """m.T @ y"""
    if m.transposed_of is not None:
        return mv(it, m.transposed_of, y)
    yv = _vec_of(y)
    if it.config.get("expand_mtv") and isinstance(m.rows, int):
        # definition of the transposed product for a matrix with a concrete number of rows
        e = entry_fn(it, m)
        rows = m.rows

        def col(j):
            acc = z3.RealVal(0)
            for i in range(rows):
                acc = acc + ops._real(e(i, j)) * ops._real(yv.f(i))
            return acc

        return Arr.new(Vec(m.cols, col, "real"))
    if it.config.get("mtv_structural"):
        # lemma LA2 (lean/LA.lean): [A B]^T y = (A^T y ; B^T y); lemma LA3: a column with one stored entry d at
        # row p contributes d * y[p]  (the stored row must lie inside the matrix, else the column is empty)
        grid = getattr(m, "blocks", None)
        if grid is not None and len(grid) == 1 and all(b is not None for b in grid[0]):
            parts = [(b, _vec_of(mtv(it, b, y))) for b in grid[0]]

            def col(j):
                off = 0
                res = None
                pieces = []
                for b, pv in parts:
                    pieces.append((off, b.cols, pv))
                    off = ops.scalar_bin("+", off, b.cols)
                res = z3.RealVal(0)
                for o, w, pv in reversed(pieces):
                    res = z3.If(z3.And(_iv(j) >= _iv(o), _iv(j) < _iv(ops.scalar_bin("+", o, w))), ops._real(pv.f(ops.scalar_bin("-", j, o))), res)
                return res

            return Arr.new(Vec(m.cols, col, "real"))
        oh = getattr(m, "onehot_cols", None)
        if oh is not None:
            rv0, dv1 = oh
            rows = m.rows

            def col1(t):
                r = ops.to_term(rv0.f(t))
                return z3.If(z3.And(r >= 0, r < _iv(rows)), ops._real(dv1.f(t)) * ops._real(yv.f(r)), z3.RealVal(0))

            return Arr.new(Vec(m.cols, col1, "real"))
    f = _fn(it, "mtv", mat_id(it, m).sort(), _RA, z3.IntSort(), z3.RealSort())
    A = _real_array(yv)
    M = mat_id(it, m)
    return Arr.new(Vec(m.cols, lambda j: f(M, A, j if not isinstance(j, int) else z3.IntVal(j)), "real"))


def transpose(it, m: Mat):
    if m.transposed_of is not None:
        return m.transposed_of
    t = Mat(m.cols, m.rows, (lambda i, j: m.entry(j, i)) if m.entry else None, name=m.name + "^T", region=m.region, fmt=m.fmt, transposed_of=m)
    t.data_cell = m.data_cell
    return t


def mat_attr(it, m: Mat, name):
    from .interp import PyFunc
    from .npmodel import NOATTR

    if name == "T":
        return transpose(it, m)
    if name == "shape":
        return (m.rows, m.cols)
    if name == "dot":
        return PyFunc(lambda it_, x: mat_dot(it_, m, x), "spmatrix.dot")
    if name == "dtype":
        return Opaque("dtype:float64")
    if name == "nnz":
        return it.path.int("nnz")
    if name in ("tocoo", "tocsr", "tocsc", "asformat"):
        return PyFunc(lambda it_, *a, **k: convert(it_, m, name, *a, **k), f"spmatrix.{name}")
    if name == "astype":
        # scipy: astype(dtype, copy=True) returns a NEW matrix (also for the same dtype); copy=False may share
        return PyFunc(lambda it_, dt, **k: (m if k.get("copy") is False else convert(it_, m, "copy", m.fmt, copy=True)), "spmatrix.astype")
    if name == "toarray":
        if isinstance(m.cols, int) and m.cols == 1:
            e1 = entry_fn(it, m)
            return PyFunc(lambda it_: Arr(Arr.new(Vec(m.rows, lambda r: ops._real(e1(r, 0)), "real")).cell, 0, m.rows, col2d=True), "spmatrix.toarray")
        return PyFunc(lambda it_: m, "spmatrix.toarray")
    if name == "data" and m.data_arr is not None:
        return m.data_arr
    return NOATTR


def convert(it, m: Mat, how, *a, **k):
    """Format conversion keeps the linear map; aliasing of .data per the measured SciPy facts (DESIGN §2.5)."""
    hook = it.hooks.get("convert")
    if hook is not None:
        r = hook(it, m, how, a, k)
        if r is not None:
            return r
    return m


def mat_dot(it, a, b):
    if isinstance(a, Mat) and isinstance(b, (Arr, Vec)):
        return mv(it, a, b)
    if isinstance(a, Mat) and isinstance(b, Mat):
        return product(it, a, b)
    raise Unsupported("dot with matrix operand")


def matmul(it, a, b):
    if isinstance(a, Mat):
        return mat_dot(it, a, b)
    raise Unsupported("@ operands")


def product(it, a: Mat, b: Mat):
    r = Mat(a.rows, b.cols, None, name=f"({a.name}*{b.name})")
    r.factors = (a, b)
    return r


def mat_scale(it, m: Mat, c):
    r = Mat(m.rows, m.cols, (lambda i, j: ops.scalar_bin("*", c, m.entry(i, j))) if m.entry else None, name=f"({_nm(c)}*{m.name})")
    r.scaled = (c, m)
    return r


def _nm(c):
    return str(c)[:20]


def mat_binop(it, op, a, b, frame, node):
    if isinstance(op, ast.Mult):
        if isinstance(a, Mat) and not isinstance(b, Mat):
            return mat_scale(it, a, b)
        if isinstance(b, Mat) and not isinstance(a, Mat):
            return mat_scale(it, b, a)
    if isinstance(op, (ast.Add, ast.Sub)) and isinstance(a, Mat) and isinstance(b, Mat):
        sgn = 1 if isinstance(op, ast.Add) else -1
        ent = None
        if a.entry and b.entry:
            ent = lambda i, j: ops.scalar_bin("+" if sgn > 0 else "-", a.entry(i, j), b.entry(i, j))
        r = Mat(a.rows, a.cols, ent, name=f"({a.name}{'+' if sgn > 0 else '-'}{b.name})")
        r.sum_of = (a, b, sgn)
        return r
    if isinstance(op, ast.MatMult):
        return matmul(it, a, b)
    raise Unsupported("matrix operator")


def mat_getitem(it, m, idx):
    """column extraction M[:, i]; row gather M[idx, :]; column gather M[:, idx]"""
    full = slice(None, None, None)
    if isinstance(idx, tuple) and len(idx) == 2 and isinstance(idx[0], Arr) and isinstance(idx[1], slice) and idx[1] == full:
        e = entry_fn(it, m)
        iv = idx[0].vec()
        g = Mat(iv.n, m.cols, lambda i, j: e(iv.f(i), j), name=it.path.fresh_name("rows"))
        g.gather = ("rows", m, iv)
        return g
    if isinstance(idx, tuple) and len(idx) == 2 and isinstance(idx[1], Arr) and isinstance(idx[0], slice) and idx[0] == full:
        e = entry_fn(it, m)
        iv = idx[1].vec()
        g = Mat(m.rows, iv.n, lambda i, j: e(i, iv.f(j)), name=it.path.fresh_name("cols"))
        g.gather = ("cols", m, iv)
        return g
    if isinstance(idx, tuple) and len(idx) == 2 and isinstance(idx[0], slice) and idx[0] == slice(None, None, None) and not isinstance(idx[1], slice):
        e = entry_fn(it, m)
        i = idx[1]
        if getattr(m, "dense", False):
            return Arr.new(Vec(m.rows, lambda r: ops._real(e(r, i)), "real"))  # dense 2-D array: a 1-D column
        col = Mat(m.rows, 1, lambda r, c: e(r, i), name=it.path.fresh_name("col"))
        col.column_of = (m, i)
        return col
    raise Unsupported("matrix subscript")


def shallow_copy(it, m: Mat):
    c = Mat(m.rows, m.cols, m.entry, name=m.name, region=m.region, fmt=m.fmt, transposed_of=m.transposed_of)
    c.__dict__.update({k: v for k, v in m.__dict__.items() if k not in ("rows", "cols")})
    c.copy_of = m
    c.container_region = "FRESH"  # copy.copy: a new container around the SAME index / data arrays
    return c


Mat.data_arr = None


# ----------------------------------------------------------------------------------------------------
# entry-wise view (used by C13 / C14 / C04): every matrix has an entry function; abstract ones get an
# uninterpreted  ent_<name>(i, j)


def entry_fn(it, m: Mat):
    if m.entry is not None:
        return m.entry
    if m.transposed_of is not None:
        e = entry_fn(it, m.transposed_of)
        return lambda i, j: e(j, i)
    f = _fn(it, "ent_" + m.name, z3.IntSort(), z3.IntSort(), z3.RealSort())
    return lambda i, j: f(_iv(i), _iv(j))


def _iv(i):
    return z3.IntVal(i) if isinstance(i, int) else i


def sp_eye(it, n, m=None, dtype=None, **k):
    cols = n if m is None else m
    return Mat(n, cols, lambda i, j: z3.If(_iv(i) == _iv(j), z3.RealVal(1), z3.RealVal(0)), name=it.path.fresh_name("I"))


def sp_diags(it, diagonals, offsets=0, shape=None, dtype=None, **k):
    from .values import ListCell

    d = diagonals.val if isinstance(diagonals, ListCell) else diagonals
    from .values import Arr as _Arr

    if isinstance(d, _Arr) and offsets == 0 and shape is None:
        # diags(v): the square matrix with the vector v on its main diagonal
        vv = d.vec()
        n_ = vv.n
        return Mat(n_, n_, lambda i, j: z3.If(_iv(i) == _iv(j), ops._real(vv.f(_iv(i))), z3.RealVal(0)), name=it.path.fresh_name("Dg"))
    if not (isinstance(d, list) and len(d) == 1) or offsets != 0 or shape is None:
        raise Unsupported("sparse.diags form")
    v = d[0]
    return Mat(shape[0], shape[1], lambda i, j: z3.If(_iv(i) == _iv(j), ops._real(v), z3.RealVal(0)), name=it.path.fresh_name("Dg"))


def sp_bmat(it, blocks, format=None, dtype=None):
    from .values import ListCell

    rows = blocks.val if isinstance(blocks, ListCell) else blocks
    grid = [(r.val if isinstance(r, ListCell) else r) for r in rows]
    nr, nc = len(grid), len(grid[0])
    # block sizes from the first non-None block in each row / column
    rh = []
    for r in range(nr):
        b = next((x for x in grid[r] if x is not None), None)
        if b is None:
            raise Unsupported("bmat with an empty block row")
        rh.append(b.rows)
    cw = []
    for c in range(nc):
        b = next((grid[r][c] for r in range(nr) if grid[r][c] is not None), None)
        if b is None:
            raise Unsupported("bmat with an empty block column")
        cw.append(b.cols)
    roff = [0]
    for h in rh:
        roff.append(ops.scalar_bin("+", roff[-1], h))
    coff = [0]
    for w in cw:
        coff.append(ops.scalar_bin("+", coff[-1], w))
    ents = [[(entry_fn(it, grid[r][c]) if grid[r][c] is not None else None) for c in range(nc)] for r in range(nr)]

    def entry(i, j):
        res = z3.RealVal(0)
        for r in reversed(range(nr)):
            for c in reversed(range(nc)):
                e = ents[r][c]
                val = ops._real(e(ops.scalar_bin("-", i, roff[r]), ops.scalar_bin("-", j, coff[c]))) if e is not None else z3.RealVal(0)
                inblk = ops.zand(ops.scalar_cmp(">=", i, roff[r]), ops.scalar_cmp("<", i, roff[r + 1]), ops.scalar_cmp(">=", j, coff[c]), ops.scalar_cmp("<", j, coff[c + 1]))
                res = ops.zite(inblk, val, res)
        return res

    m = Mat(roff[-1], coff[-1], entry, name=it.path.fresh_name("B"), fmt=format or "coo")
    m.blocks = grid
    return m


def install(it):
    it.lib["scipy.sparse.eye"] = sp_eye
    it.lib["scipy.sparse.identity"] = lambda it_, n, dtype=None, format=None, **k: sp_eye(it_, n)
    it.lib["scipy.sparse.diags"] = sp_diags
    it.lib["scipy.sparse.bmat"] = sp_bmat
    it.lib["scipy.sparse.issparse"] = lambda it_, m: isinstance(m, Mat)


_old_scale = mat_scale


def mat_scale(it, m: Mat, c):  # noqa: F811  (entry-wise version)
    e = entry_fn(it, m)
    r = Mat(m.rows, m.cols, lambda i, j: ops.scalar_bin("*", c, e(i, j)), name=f"({_nm(c)}*{m.name})")
    r.scaled = (c, m)
    return r


_old_binop = mat_binop


def mat_binop(it, op, a, b, frame, node):  # noqa: F811
    if isinstance(op, (ast.Add, ast.Sub)) and isinstance(a, Mat) and isinstance(b, Mat):
        ea, eb = entry_fn(it, a), entry_fn(it, b)
        sym = "+" if isinstance(op, ast.Add) else "-"
        r = Mat(a.rows, a.cols, lambda i, j: ops.scalar_bin(sym, ea(i, j), eb(i, j)), name=f"({a.name}{sym}{b.name})")
        r.sum_of = (a, b, 1 if sym == "+" else -1)
        return r
    return _old_binop(it, op, a, b, frame, node)


def product(it, a: Mat, b: Mat):  # noqa: F811
    """A*B: entries are an uninterpreted bilinear form of the two factors (sums are never unfolded)"""
    f = _fn(it, "matprod", mat_id(it, a).sort(), mat_id(it, a).sort(), z3.IntSort(), z3.IntSort(), z3.RealSort())
    A, B = mat_id(it, a), mat_id(it, b)
    r = Mat(a.rows, b.cols, lambda i, j: f(A, B, _iv(i), _iv(j)), name=f"({a.name}*{b.name})")
    r.factors = (a, b)
    return r


# ----------------------------------------------------------------------------------------------------
# COO triplets, format conversions and their aliasing (measured on SciPy 1.18, re-measured natively)


def coo_from_triplets(it, data, row, col, shape, name=None, region="FRESH", fmt="coo"):
    """Matrix given by COO triplets (row[k], col[k], data[k]), k < nnz.  entry(i,j) sums duplicates when nnz is
    concrete; for symbolic nnz the entry function stays abstract and only the triplets are known."""
    nnz = data.n
    m = Mat(shape[0], shape[1], None, name=name or it.path.fresh_name("C"), region=region, fmt=fmt)
    m.coo = (nnz, row, col, data)
    if not isinstance(nnz, int) and getattr(row.vec(), "is_arange", False):
        # rows are 0..nnz-1 (np.arange): exactly one stored entry per row
        cv0, dv0 = col.vec(), data.vec()
        m.entry = lambda i, j: z3.If(ops.to_term(cv0.f(i)) == _iv(j), ops._real(dv0.f(i)), z3.RealVal(0))
    if not isinstance(nnz, int) and m.entry is None and getattr(col.vec(), "is_arange", False):
        # columns are 0..nnz-1 (np.arange): exactly one stored entry per column
        rv0, dv1 = row.vec(), data.vec()
        m.entry = lambda i, j: z3.If(ops.to_term(rv0.f(j)) == _iv(i), ops._real(dv1.f(j)), z3.RealVal(0))
        m.onehot_cols = (rv0, dv1)
    if isinstance(nnz, int):
        rv, cv, dv = row.vec(), col.vec(), data.vec()

        def entry(i, j):
            res = z3.RealVal(0)
            for k in range(nnz):
                res = res + z3.If(z3.And(ops.to_term(rv.f(k)) == _iv(i), ops.to_term(cv.f(k)) == _iv(j)), ops._real(dv.f(k)), z3.RealVal(0))
            return res

        m.entry = entry
    return m


def sp_coo_matrix(it, arg, shape=None, dtype=None):
    from .values import ListCell

    if isinstance(arg, tuple) and len(arg) == 2 and isinstance(arg[1], tuple):
        data, (row, col) = arg
        from .values import Masked

        if isinstance(data, Masked) and isinstance(row, Masked) and isinstance(col, Masked):
            # boolean-mask selections of the same mask: the triplets are compressed through the increasing
            # enumeration of the True positions (np.where model)
            if not (data.mask is row.mask and row.mask is col.mask):
                raise Unsupported("coo_matrix from selections with different masks")
            from .npmodel import np_where

            (idx,) = np_where(it, Arr.new(data.mask))
            iv = idx.vec()
            g = lambda v, kind: Arr.new(Vec(iv.n, lambda k: v.f(iv.f(k)), kind))
            m = coo_from_triplets(it, g(data.vec, "real"), g(row.vec, "int"), g(col.vec, "int"), shape)
            m.selection = (iv, data.mask)
            return m
        conv = lambda v, kind: v if isinstance(v, Arr) else _empty(kind)  # python [] -> empty array
        return coo_from_triplets(it, conv(data, "real"), conv(row, "int"), conv(col, "int"), shape)
    if isinstance(arg, Mat):
        return convert(it, arg, "tocoo")
    raise Unsupported("coo_matrix constructor form")


def _empty(kind):
    from .values import ListCell

    return Arr.new(Vec(0, lambda i: lift(0, kind), kind))


def user_matrix(it, rows, cols, name, fmt="coo", region="USER", nnz=None):
    """A matrix returned by a user callback in the given sparse format, with symbolic triplets."""
    p = it.path
    nnz = p.int(name + "_nnz") if nnz is None else nnz
    if not isinstance(nnz, int):
        p.assume(nnz >= 0)
    mk = lambda nm, sort, kind: Arr.new(Vec(nnz, (lambda A: (lambda k: z3.Select(A, p.auto_index(k, nnz))))(z3.Array(p.fresh_name(name + nm), z3.IntSort(), sort)), kind), region=region)
    row, col, data = mk("_row", z3.IntSort(), "int"), mk("_col", z3.IntSort(), "int"), mk("_data", z3.RealSort(), "real")
    rv, cv = row.vec(), col.vec()
    p.add_ufact(UFact(1, lambda k: z3.And(rv.f(k) >= 0, rv.f(k) < rows, cv.f(k) >= 0, cv.f(k) < cols), [(0, nnz)], "coo-coordinates-in-range"))
    m = coo_from_triplets(it, data, row, col, (rows, cols), name=name, region=region, fmt=fmt)
    return m


def convert(it, m: Mat, how, *a, **k):  # noqa: F811
    hook = it.hooks.get("convert")
    if hook is not None:
        r = hook(it, m, how, a, k)
        if r is not None:
            return r
    if m.coo is None:
        return m
    target = {"tocoo": "coo", "tocsr": "csr", "tocsc": "csc"}.get(how, a[0] if a else "coo")
    copy = bool(k.get("copy", False))
    nnz, row, col, data = m.coo
    if target == m.fmt and not copy:
        return m  # conversion to its own format returns the receiver
    if how == "tocoo" and m.fmt == "csr" and not copy:
        # csr.tocoo(): new container, .data SHARES memory with the receiver
        r = coo_from_triplets(it, Arr(data.cell, data.lo, data.n), Arr.new(row.vec()), Arr.new(col.vec()), (m.rows, m.cols), name=m.name, region=m.region, fmt="coo")
        r.entry = m.entry
        r.name = m.name
        r.container_region = "FRESH"  # the container (shape, index arrays) is new; only .data is shared
        return r
    # every other conversion (csc.tocoo, x.tocsr/x.tocsc from another format, copy=True) is a fresh copy
    r = coo_from_triplets(it, Arr.new(data.vec()), Arr.new(row.vec()), Arr.new(col.vec()), (m.rows, m.cols), name=m.name, region="FRESH", fmt=target)
    r.entry = m.entry
    return r


_old_attr = mat_attr


def mat_attr(it, m: Mat, name):  # noqa: F811
    if m.coo is not None and name in ("row", "col", "data"):
        return {"row": m.coo[1], "col": m.coo[2], "data": m.coo[3]}[name]
    if name == "nnz" and m.coo is not None:
        return m.coo[0]
    if name == "format":
        return m.fmt
    if name == "max" and m.coo is None:
        from .interp import PyFunc

        def _mat_max(it_):
            # the largest stored entry (or 0 for an implicit zero) of an abstract matrix: an upper bound of all entries
            M = it_.path.real("mat_max")
            e = entry_fn(it_, m)
            from .core import UFact

            it_.path.add_ufact(UFact(2, lambda i, j: ops._real(e(i, j)) <= M, [(0, _iv(m.rows)), (0, _iv(m.cols))], "spmatrix.max:upper_bound"))
            return M

        return PyFunc(_mat_max, "spmatrix.max")
    if name == "copy":
        from .interp import PyFunc

        return PyFunc(lambda it_: convert(it_, m, "copy", m.fmt, copy=True), "spmatrix.copy")
    if name == "resize":
        from .interp import PyFunc

        return PyFunc(lambda it_, *shape: mat_resize(it_, m, shape), "spmatrix.resize")
    if name == "indptr" and m.fmt == "csc":
        return csc_indptr(it, m)
    if name in ("indices", "indptr") or (name == "data" and m.fmt == "csr" and m.coo is None):
        raw = csr_raw(it, m)
        return raw[name]
    if name == "diagonal":
        from .interp import PyFunc

        e = entry_fn(it, m)
        return PyFunc(lambda it_: Arr.new(Vec(ops.zmin(m.rows, m.cols) if not (isinstance(m.rows, int) and isinstance(m.cols, int)) else min(m.rows, m.cols), lambda i: ops._real(e(i, i)), "real")), "spmatrix.diagonal")
    if name == "setdiag":
        from .interp import PyFunc

        return PyFunc(lambda it_, vals, k=0: mat_setdiag(it_, m, vals, k), "spmatrix.setdiag")
    return _old_attr(it, m, name)


def mat_setdiag(it, m: Mat, vals, k=0):
    """spmatrix.setdiag(values): IN PLACE; afterwards every position of the main diagonal is STORED (explicit
    entries, also for zero values - measured on the installed SciPy) and holds values[i]; other entries unchanged."""
    if k != 0:
        raise Unsupported("setdiag off the main diagonal")
    if getattr(m, "csr", None) is not None:
        raise Unsupported("setdiag after the raw CSR arrays were taken")
    hook = it.hooks.get("store")
    if hook is not None:
        class _Container:
            region = getattr(m, "container_region", m.region)

        hook(it, _Container, None, None, "spmatrix.setdiag")
        if m.fmt != "coo":
            # csr / csc: diagonal entries that are already stored are overwritten IN the existing data array
            class _Data:
                region = m.region

            hook(it, _Data, None, None, "spmatrix.setdiag(in-place on .data)")
    e0 = entry_fn(it, m)
    vv = _vec_of(vals) if not isinstance(vals, (int, float)) and not z3.is_expr(vals) else None
    val = (lambda i: ops._real(vv.f(i))) if vv is not None else (lambda i: ops._real(vals))
    m.entry = lambda i, j: z3.If(_iv(i) == _iv(j), val(i), ops._real(e0(i, j)))
    m.coo = None
    m.diag_stored = True
    return None


def csr_raw(it, m: Mat):
    """the raw arrays of a CANONICAL csr matrix (sorted column indices, no duplicates - what scipy's bmat(format=
    'csr') / tocsr() / arithmetic produce): data, indices, indptr with their well-formedness facts, tied to the
    entry function through the ghost maps rowof(p) and posof(i, c) (position of the stored entry (i, c) or -1)."""
    raw = getattr(m, "csr", None)
    if raw is not None:
        return raw
    if m.fmt != "csr":
        raise Unsupported(f"raw index arrays of a {m.fmt} matrix")
    p = it.path
    rows, cols = _iv(m.rows), _iv(m.cols)
    nnz = p.int("nnz")
    p.assume(nnz >= 0)
    mk = lambda nm, n, kind: (lambda A: Vec(n, lambda i: z3.Select(A, p.auto_index(i, n)), kind, arr=A, name=nm))(z3.Array(p.fresh_name(nm), z3.IntSort(), z3.RealSort() if kind == "real" else z3.IntSort()))
    data0, ind0, ptr0 = mk("csr_data", nnz, "real"), mk("csr_indices", nnz, "int"), mk("csr_indptr", rows + 1, "int")
    data, ind, ptr = Arr.new(data0), Arr.new(ind0, dtype="int"), Arr.new(ptr0, dtype="int")
    posof = p.func("posof", z3.IntSort(), z3.IntSort(), z3.IntSort())
    e_old = entry_fn(it, m)
    from .core import UFact

    p.index_term(z3.IntVal(0), rows + 1)
    p.index_term(rows, rows + 1)
    p.assume(ptr0.f(0) == 0)
    p.assume(ptr0.f(rows) == nnz)
    p.add_ufact(UFact(1, lambda r: z3.And(ptr0.f(r) >= 0, ptr0.f(r) <= ptr0.f(r + 1), ptr0.f(r + 1) <= nnz), [(0, rows)], "csr:indptr_monotone"))
    p.add_ufact(UFact(2, lambda a, b: z3.Implies(a < b, ptr0.f(a + 1) <= ptr0.f(b)), [(0, rows), (0, rows)], "csr:indptr_monotone(rows a<b)"))
    in_row = lambda r, q: z3.And(ptr0.f(r) <= q, q < ptr0.f(r + 1))
    p.add_ufact(UFact(2, lambda r, q: z3.Implies(in_row(r, q), z3.And(ind0.f(q) >= 0, ind0.f(q) < cols, posof(r, ind0.f(q)) == q, z3.Implies(q + 1 < ptr0.f(r + 1), ind0.f(q) < ind0.f(q + 1)))), [(0, rows), (0, nnz)], "csr:stored_position_of_row_r(column_range,posof,strictly_increasing_columns)"))

    # stored <=> posof >= 0; the value of a stored entry is data[posof]; an entry that is not stored is zero
    def pos_fact(i, c):
        q = posof(i, c)
        return z3.And(q >= -1, z3.Implies(q >= 0, z3.And(q < nnz, ptr0.f(i) <= q, q < ptr0.f(i + 1), ind0.f(q) == c)))

    raw = dict(data=data, indices=ind, indptr=ptr, nnz=nnz, posof=posof, data0=data0, indices0=ind0, indptr0=ptr0, pos_fact=pos_fact, entry0=e_old, in_row=in_row, rows=rows)
    raw["diag_stored"] = bool(getattr(m, "diag_stored", False))

    def diag_fact(i):
        """instance of 'the diagonal entry of row i is stored' (only for matrices whose diagonal was set explicitly)"""
        i = _iv(i)
        return z3.And(pos_fact(i, i), z3.Implies(z3.And(i >= 0, i < rows, i < cols), posof(i, i) >= 0)) if raw["diag_stored"] else pos_fact(i, i)

    raw["diag_fact"] = diag_fact
    m.csr = raw

    def entry(i, j):
        # the matrix IS its arrays: entry through the CURRENT data array (in-place edits of .data are seen);
        # the structure (indices / indptr) is the one at the time the arrays were taken
        i, j = _iv(i), _iv(j)
        q = posof(i, j)
        p.assume(pos_fact(i, j))
        if z3.is_int(q):
            p.index_term(q, nnz)
        return z3.If(q >= 0, ops._real(data.vec().f(q)), z3.RealVal(0))

    # link to the entries the matrix had before: same values
    def link(i, j):
        p.assume(pos_fact(_iv(i), _iv(j)))
        q = posof(_iv(i), _iv(j))
        return z3.If(q >= 0, ops._real(data0.f(q)), z3.RealVal(0)) == ops._real(e_old(i, j))

    raw["link"] = link
    m.entry = entry
    return raw


def csc_indptr(it, m: Mat):
    """the column pointer array of a csc matrix, READ-ONLY view: monotone, 0 .. nnz, and an empty column range means
    that the column holds no stored entry (all its entries are zero).  The entry function of the matrix is kept."""
    got = getattr(m, "csc_ptr", None)
    if got is not None:
        return got
    from .core import UFact

    p = it.path
    rows, cols = _iv(m.rows), _iv(m.cols)
    nnz = p.int("csc_nnz")
    p.assume(nnz >= 0)
    A = z3.Array(p.fresh_name("csc_indptr"), z3.IntSort(), z3.IntSort())
    ptr0 = Vec(cols + 1, lambda i: z3.Select(A, p.auto_index(i, cols + 1)), "int", arr=A, name="csc_indptr")
    p.index_term(z3.IntVal(0), cols + 1)
    p.index_term(cols, cols + 1)
    p.assume(ptr0.f(0) == 0)
    p.assume(ptr0.f(cols) == nnz)
    p.add_ufact(UFact(1, lambda c: z3.And(ptr0.f(c) >= 0, ptr0.f(c) <= ptr0.f(c + 1), ptr0.f(c + 1) <= nnz), [(0, cols)], "csc:indptr_monotone"))
    e = entry_fn(it, m)
    p.add_ufact(UFact(2, lambda r, c: z3.Implies(ptr0.f(c) == ptr0.f(c + 1), ops._real(e(r, c)) == 0), [(0, rows), (0, cols)], "csc:empty_column_range=>column_is_zero"))
    arr = Arr.new(ptr0, dtype="int")
    arr.cell.writeable = False
    m.csc_ptr = arr
    return arr


def mat_resize(it, m: Mat, shape):
    """spmatrix.resize(shape): IN PLACE - entries outside the new shape are dropped, new rows/columns are empty.
    The receiver is mutated, so the store hook sees it with the receiver's region (a resize of a caller-owned
    matrix is a frame violation)."""
    if len(shape) == 1 and isinstance(shape[0], tuple):
        shape = shape[0]
    r1, c1 = shape
    hook = it.hooks.get("store")
    if hook is not None:
        class _Container:
            region = getattr(m, "container_region", m.region)

        hook(it, _Container, None, None, "spmatrix.resize")
    r0, c0, e0 = m.rows, m.cols, entry_fn(it, m)
    if True:
        m.entry = lambda i, j: z3.If(z3.And(_iv(i) < _iv(r0), _iv(j) < _iv(c0)), ops._real(e0(i, j)), z3.RealVal(0))
    m.rows, m.cols = r1, c1
    m.coo = None
    m.transposed_of = None
    return None


def _install2(it):
    it.lib["scipy.sparse.coo_matrix"] = sp_coo_matrix
    it.lib["scipy.sparse.csr_matrix"] = lambda it_, arg, shape=None, dtype=None: _zero_mat(it_, arg, "csr") if isinstance(arg, tuple) and len(arg) == 2 and not isinstance(arg[1], tuple) else sp_coo_matrix(it_, arg, shape, dtype)


def _zero_mat(it, shape, fmt):
    return coo_from_triplets(it, _empty("real"), _empty("int"), _empty("int"), shape, fmt=fmt)


_install1 = install


def install(it):  # noqa: F811
    _install1(it)
    _install2(it)
