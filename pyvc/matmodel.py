"""Matrix values: abstract linear maps (mv / mtv uninterpreted on array terms) and entry-wise matrices.

J.T.dot(y) is  mtv(J, y)[j]  for an uninterpreted function of (matrix id, array term, index); the same
symbol is used by the spec functions (DESIGN §2.3).  Algebraic facts come only from explicit lemma
instances (lemmas.py).
"""
from __future__ import annotations

import ast

import z3

from . import ops
from .core import UFact, Unsupported
from .values import Arr, Mat, Obj, Opaque, Vec, is_sym, lift

_RA = z3.ArraySort(z3.IntSort(), z3.RealSort())


def _fn(it, name, *sorts):
    d = it.path.ghost.setdefault("__matfns__", {})
    if name not in d:
        d[name] = z3.Function(name, *sorts)
    return d[name]


def mat_id(it, m: Mat):
    """z3 constant standing for the matrix (uninterpreted sort)."""
    d = it.path.ghost.setdefault("__matids__", {})
    if m.name not in d:
        S = it.path.ghost.get("__matsort__")
        if S is None:
            S = z3.DeclareSort("Matrix")
            it.path.ghost["__matsort__"] = S
        d[m.name] = z3.Const("mat_" + m.name, S)
    return d[m.name]


def _vec_of(v):
    if isinstance(v, Arr):
        return v.vec()
    if isinstance(v, Vec):
        return v
    raise Unsupported("matrix-vector product with non-vector")


def _real_array(v: Vec):
    from .npmodel import _real_array as ra

    return ra(v)


def mv(it, m: Mat, x):
    """m @ x"""
    if m.transposed_of is not None:
        return mtv(it, m.transposed_of, x)
    xv = _vec_of(x)
    S = it.path.ghost.get("__matsort__") or mat_id(it, m).sort()
    f = _fn(it, "mv", mat_id(it, m).sort(), _RA, z3.IntSort(), z3.RealSort())
    A = _real_array(xv)
    M = mat_id(it, m)
    return Arr.new(Vec(m.rows, lambda i: f(M, A, i if not isinstance(i, int) else z3.IntVal(i)), "real"))


def mtv(it, m: Mat, y):
    """m.T @ y"""
    if m.transposed_of is not None:
        return mv(it, m.transposed_of, y)
    yv = _vec_of(y)
    f = _fn(it, "mtv", mat_id(it, m).sort(), _RA, z3.IntSort(), z3.RealSort())
    A = _real_array(yv)
    M = mat_id(it, m)
    return Arr.new(Vec(m.cols, lambda j: f(M, A, j if not isinstance(j, int) else z3.IntVal(j)), "real"))


def transpose(it, m: Mat):
    if m.transposed_of is not None:
        return m.transposed_of
    t = Mat(m.cols, m.rows, (lambda i, j: m.entry(j, i)) if m.entry else None, name=m.name + "^T", region=m.region, fmt=m.fmt, transposed_of=m)
    t.data_cell = m.data_cell
    return t


def mat_attr(it, m: Mat, name):
    from .interp import PyFunc
    from .npmodel import NOATTR

    if name == "T":
        return transpose(it, m)
    if name == "shape":
        return (m.rows, m.cols)
    if name == "dot":
        return PyFunc(lambda it_, x: mat_dot(it_, m, x), "spmatrix.dot")
    if name == "dtype":
        return Opaque("dtype:float64")
    if name == "nnz":
        return it.path.int("nnz")
    if name in ("tocoo", "tocsr", "tocsc", "asformat"):
        return PyFunc(lambda it_, *a, **k: convert(it_, m, name, *a, **k), f"spmatrix.{name}")
    if name == "astype":
        return PyFunc(lambda it_, dt, **k: m, "spmatrix.astype")
    if name == "toarray":
        return PyFunc(lambda it_: m, "spmatrix.toarray")
    if name == "data" and m.data_arr is not None:
        return m.data_arr
    return NOATTR


def convert(it, m: Mat, how, *a, **k):
    """Format conversion keeps the linear map; aliasing of .data per the measured SciPy facts (DESIGN §2.5)."""
    hook = it.hooks.get("convert")
    if hook is not None:
        r = hook(it, m, how, a, k)
        if r is not None:
            return r
    return m


def mat_dot(it, a, b):
    if isinstance(a, Mat) and isinstance(b, (Arr, Vec)):
        return mv(it, a, b)
    if isinstance(a, Mat) and isinstance(b, Mat):
        return product(it, a, b)
    raise Unsupported("dot with matrix operand")


def matmul(it, a, b):
    if isinstance(a, Mat):
        return mat_dot(it, a, b)
    raise Unsupported("@ operands")


def product(it, a: Mat, b: Mat):
    r = Mat(a.rows, b.cols, None, name=f"({a.name}*{b.name})")
    r.factors = (a, b)
    return r


def mat_scale(it, m: Mat, c):
    r = Mat(m.rows, m.cols, (lambda i, j: ops.scalar_bin("*", c, m.entry(i, j))) if m.entry else None, name=f"({_nm(c)}*{m.name})")
    r.scaled = (c, m)
    return r


def _nm(c):
    return str(c)[:20]


def mat_binop(it, op, a, b, frame, node):
    if isinstance(op, ast.Mult):
        if isinstance(a, Mat) and not isinstance(b, Mat):
            return mat_scale(it, a, b)
        if isinstance(b, Mat) and not isinstance(a, Mat):
            return mat_scale(it, b, a)
    if isinstance(op, (ast.Add, ast.Sub)) and isinstance(a, Mat) and isinstance(b, Mat):
        sgn = 1 if isinstance(op, ast.Add) else -1
        ent = None
        if a.entry and b.entry:
            ent = lambda i, j: ops.scalar_bin("+" if sgn > 0 else "-", a.entry(i, j), b.entry(i, j))
        r = Mat(a.rows, a.cols, ent, name=f"({a.name}{'+' if sgn > 0 else '-'}{b.name})")
        r.sum_of = (a, b, sgn)
        return r
    if isinstance(op, ast.MatMult):
        return matmul(it, a, b)
    raise Unsupported("matrix operator")


def mat_getitem(it, m, idx):
    raise Unsupported("matrix subscript")


def shallow_copy(it, m: Mat):
    c = Mat(m.rows, m.cols, m.entry, name=m.name, region=m.region, fmt=m.fmt, transposed_of=m.transposed_of)
    c.__dict__.update({k: v for k, v in m.__dict__.items() if k not in ("rows", "cols")})
    c.copy_of = m
    return c


Mat.data_arr = None
