"""Library contracts (DESIGN §2.5): numpy / python builtins / math / time, plus operators on the value model.

Everything in this file is part of the *trusted base* (assumption A3) and is sanity-checked against the
installed numpy by crosscheck.py.
"""
from __future__ import annotations

import ast

import z3

from . import ops
from .core import EngineError, QAll, QAnd, QAny, QOr, UFact, Unsupported, qnot, zbool, znot
from .values import (
    NAN,
    NINF,
    PINF,
    Arr,
    Cell,
    EnumVal,
    ExcVal,
    Inf,
    ListCell,
    Masked,
    Mat,
    NaN,
    Obj,
    Opaque,
    PyRaise,
    SymList,
    Vec,
    is_num,
    is_sym,
    lift,
)

NOATTR = object()
BUILTINS = {}


def model(fn):
    fn._pyvc_model = True
    return fn


def builtin(name):
    def deco(fn):
        fn._pyvc_model = True
        BUILTINS[name] = fn
        return fn

    return deco


class GenExp:
    def __init__(self, node, frame):
        self.node = node
        self.frame = frame


# ----------------------------------------------------------------------------
# numpy-scalar tagging (division by a numpy scalar does not raise)


def tag_np(it, v):
    if is_sym(v):
        it.path.npscalar[v.get_id()] = v
    return v


def is_np(it, v):
    return is_sym(v) and v.get_id() in it.path.npscalar


def _prop_np(it, res, *operands):
    if any(is_np(it, o) for o in operands):
        tag_np(it, res)
    return res


# ----------------------------------------------------------------------------
# operators


def _is_arrayish(v):
    return isinstance(v, (Arr, Vec, Masked))


def binop(it, op, a, b, frame, node):
    if isinstance(a, Mat) or isinstance(b, Mat):
        from . import matmodel

        return matmodel.mat_binop(it, op, a, b, frame, node)
    if isinstance(op, (ast.Add, ast.Sub, ast.Mult)):
        sym = {ast.Add: "+", ast.Sub: "-", ast.Mult: "*"}[type(op)]
        if _is_arrayish(a) or _is_arrayish(b):
            if it.config.get("single_precision") and _f32_operands(a, b):
                # float32 (op) float32 -> float32: the exact result rounded to single precision
                r = ops.elementwise(lambda x, y: rd32(it, ops.scalar_bin(sym, x, y)), "real", a, b)
                return Arr.new(r, dtype="float32")
            return wrap(ops.elementwise(lambda x, y: ops.scalar_bin(sym, x, y), None, a, b))
        if isinstance(a, (str, Opaque)) or isinstance(b, (str, Opaque)):
            return Opaque("str")
        if isinstance(a, ListCell) and isinstance(b, ListCell) and sym == "+":
            return ListCell(list(a.val) + list(b.val))
        return _prop_np(it, ops.scalar_bin(sym, a, b), a, b)
    if isinstance(op, ast.Div):
        if _is_arrayish(a) or _is_arrayish(b):
            return wrap(ops.elementwise(lambda x, y: _real_div(x, y), "real", a, b))
        return scalar_div(it, a, b, frame, node)
    if isinstance(op, ast.Pow):
        if isinstance(a, (int, float)) and isinstance(b, (int, float)):
            return a**b
        if isinstance(b, int) and b == 2:
            return ops.scalar_bin("*", a, a)
        raise Unsupported("pow")
    if isinstance(op, ast.BitAnd):
        if isinstance(a, EnumVal) or isinstance(b, EnumVal):
            return flag_and(it, a, b)
        return logical_and(it, a, b)
    if isinstance(op, ast.BitOr):
        return logical_or(it, a, b)
    if isinstance(op, ast.Mod):
        if isinstance(a, (str, Opaque)):
            return Opaque("str")
        if isinstance(a, int) and isinstance(b, int):
            return a % b
        if _intlike(a) and isinstance(b, int) and b > 0:
            return ops.to_term(a) % b  # z3 integer mod: non-negative for a positive modulus, like Python's
        raise Unsupported("mod")
    if isinstance(op, ast.FloorDiv):
        if isinstance(a, int) and isinstance(b, int):
            return a // b
        if isinstance(b, int) and b > 0:
            if _intlike(a):
                return ops.to_term(a) / b  # z3 integer division by a positive constant == floor division
            if isinstance(a, (Arr, Vec)) and _vec_of(a).kind == "int":
                va = _vec_of(a)
                return wrap(Vec(va.n, lambda i: ops.to_term(va.f(i)) / b, "int"))
        raise Unsupported("floordiv")
    if isinstance(op, ast.MatMult):
        from . import matmodel

        return matmodel.matmul(it, a, b)
    if isinstance(op, ast.LShift):
        if isinstance(a, int) and isinstance(b, int):
            return a << b
    raise Unsupported(f"binary operator {type(op).__name__}")


def _intlike(v):
    return isinstance(v, int) and not isinstance(v, bool) or (is_sym(v) and z3.is_int(v))


def _f32_operands(a, b):
    """numpy promotion for the cases modelled: float32 array with a float32 array / Python scalar -> float32;
    anything involving a float64 array (or an unknown operand) -> float64"""
    arrs = [v for v in (a, b) if isinstance(v, Arr)]
    others = [v for v in (a, b) if not isinstance(v, Arr)]
    return bool(arrs) and all(v.dtype == "float32" for v in arrs) and all(isinstance(o, (int, float)) for o in others)


def flag_and(it, a, b):
    va = a.value if isinstance(a, EnumVal) else a
    vb = b.value if isinstance(b, EnumVal) else b
    if isinstance(va, int) and isinstance(vb, int):
        return va & vb
    raise Unsupported("flag & on symbolic")


def _real_div(x, y):
    if isinstance(x, (int, float)) and isinstance(y, (int, float)) and y != 0:
        return x / y
    return ops._real(x) / ops._real(y)


def scalar_div(it, a, b, frame, node):
    """Python float division raises ZeroDivisionError (obligation); numpy-scalar division yields inf/nan."""
    if isinstance(b, Inf):
        if isinstance(a, (Inf, NaN)):
            return NAN
        return 0.0
    if isinstance(a, Inf):
        s = ops._sign_known(b)
        if s is None:
            if it.truth(ops.scalar_cmp(">", b, 0)):
                return a
            if it.truth(ops.scalar_cmp("<", b, 0)):
                return Inf(-a.sign)
            return NAN
        return a if s > 0 else (Inf(-a.sign) if s < 0 else NAN)
    if isinstance(a, NaN) or isinstance(b, NaN):
        return NAN
    if isinstance(b, (int, float)):
        if b == 0:
            if is_np(it, a):
                return _np_div0(it, a)
            raise PyRaise(ExcVal(ZeroDivisionError, ("float division by zero",)), origin=frame.site("div", node))
        if isinstance(a, (int, float)):
            return a / b
        return _prop_np(it, ops._real(a) / ops._real(b), a, b)
    # symbolic divisor
    nonzero = ops.scalar_cmp("!=", b, 0)
    if is_np(it, b) or is_np(it, a):
        if it.truth(nonzero):
            return tag_np(it, ops._real(a) / ops._real(b))
        return _np_div0(it, a)
    site = frame.site("div", node)
    it.path.prove(nonzero, site, kind="zerodiv", desc=f"divisor != 0 in {ast.unparse(node)}", props=it.config.get("implicit_props"))
    it.path.assume(nonzero)
    return ops._real(a) / ops._real(b)


def _np_div0(it, a):
    if isinstance(a, (int, float)):
        return PINF if a > 0 else (NINF if a < 0 else NAN)
    if it.truth(ops.scalar_cmp(">", a, 0)):
        return PINF
    if it.truth(ops.scalar_cmp("<", a, 0)):
        return NINF
    return NAN


def neg(it, v):
    if _is_arrayish(v):
        return wrap(ops.elementwise(ops.scalar_neg, None, v))
    if isinstance(v, Mat):
        from . import matmodel

        return matmodel.mat_scale(it, v, -1)
    return _prop_np(it, ops.scalar_neg(v), v)


def invert(it, v):
    if _is_arrayish(v):
        return wrap(ops.elementwise(lambda x: znot(x), "bool", v))
    raise Unsupported("~")


def wrap(v):
    """Vec results of numpy operations become fresh arrays."""
    if isinstance(v, Vec):
        a = Arr.new(v)
        a.col2d = getattr(v, "col2d", False)
        return a
    return v


_CMP = {ast.Lt: "<", ast.LtE: "<=", ast.Gt: ">", ast.GtE: ">=", ast.Eq: "==", ast.NotEq: "!="}


def compare(it, op, a, b):
    if isinstance(op, (ast.Is, ast.IsNot)):
        r = _identical(a, b)
        return r if isinstance(op, ast.Is) else not r
    if isinstance(op, (ast.In, ast.NotIn)):
        r = _contains(it, b, a)
        return r if isinstance(op, ast.In) else _not(r)
    sym = _CMP[type(op)]
    if _is_arrayish(a) or _is_arrayish(b):
        return wrap(ops.elementwise(lambda x, y: ops.scalar_cmp(sym, x, y), "bool", a, b))
    if sym in ("==", "!="):
        r = _generic_eq(it, a, b)
        if r is not None:
            return r if sym == "==" else _not(r)
    return ops.scalar_cmp(sym, a, b)


def _not(r):
    return (not r) if isinstance(r, bool) else znot(r)


def _identical(a, b):
    if a is None or b is None:
        return a is b
    if isinstance(a, EnumVal) and isinstance(b, EnumVal):
        return a == b
    return a is b


def _generic_eq(it, a, b):
    """== on non-numeric values; None result = fall through to numeric comparison"""
    if a is None or b is None:
        if a is None and b is None:
            return True
        other = b if a is None else a
        if isinstance(other, Opaque) and other.tag == "maybe-none":
            return it.path.choose("==None")
        return False
    if isinstance(a, EnumVal) or isinstance(b, EnumVal):
        return a == b
    if isinstance(a, str) or isinstance(b, str):
        return a == b
    if isinstance(a, tuple) and isinstance(b, tuple):
        if len(a) != len(b):
            return False
        return ops.zand(*[compare(it, ast.Eq(), x, y) for x, y in zip(a, b)])
    if isinstance(a, (Obj, Mat)) or isinstance(b, (Obj, Mat)):
        return a is b
    da, db = _dtype_canon(a), _dtype_canon(b)
    if da is not None and db is not None:
        return da == db
    if isinstance(a, Opaque) or isinstance(b, Opaque):
        if a is b:
            return True
        raise Unsupported("equality on opaque values")
    return None


def _dtype_canon(v):
    """canonical dtype name of a dtype-like value (np.float64, bool, int, float, array.dtype)"""
    if isinstance(v, Opaque) and v.tag.startswith("dtype:"):
        return v.tag[6:]
    for nm, canon in (("bool", "bool"), ("int", "int64"), ("float", "float64")):
        if v is BUILTINS.get(nm):
            return canon
    return None


def _contains(it, container, x):
    if isinstance(container, ListCell) and isinstance(container.val, list):
        container = container.val
    if isinstance(container, (list, tuple, set)):
        res = False
        for c in container:
            r = compare(it, ast.Eq(), x, c)
            res = ops.zor(res, r)
        return res
    if isinstance(container, dict):
        return x in container
    raise Unsupported("in")


def logical_and(it, a, b):
    if _is_arrayish(a) or _is_arrayish(b):
        return wrap(ops.elementwise(lambda x, y: ops.zand(x, y), "bool", a, b))
    if isinstance(a, (QAll, QAny, QAnd, QOr)) or isinstance(b, (QAll, QAny, QAnd, QOr)):
        return QAnd([a, b])
    return ops.zand(a, b)


def logical_or(it, a, b):
    if _is_arrayish(a) or _is_arrayish(b):
        return wrap(ops.elementwise(lambda x, y: ops.zor(x, y), "bool", a, b))
    if isinstance(a, (QAll, QAny, QAnd, QOr)) or isinstance(b, (QAll, QAny, QAnd, QOr)):
        return QOr([a, b])
    return ops.zor(a, b)


# ----------------------------------------------------------------------------
# subscripts


def _vec_of(v):
    if isinstance(v, Arr):
        return v.vec()
    if isinstance(v, Vec):
        return v
    raise Unsupported(f"not a vector: {type(v).__name__}")


def getitem(it, base, idx, frame, node):
    if isinstance(base, ListCell):
        return list_getitem(it, base, idx)
    if isinstance(base, tuple):
        if isinstance(idx, int):
            return base[idx]
        if isinstance(idx, slice):
            return base[idx]
        raise Unsupported("symbolic tuple index")
    if isinstance(base, dict):
        if idx in base:
            return base[idx]
        if isinstance(base, DefaultDict):
            base[idx] = it.call(base.factory, [], {})
            return base[idx]
        raise PyRaise(ExcVal(KeyError, (idx,)), origin="dict")
    if isinstance(base, Arr):
        if isinstance(idx, slice):
            return arr_slice(it, base, idx)
        if isinstance(idx, (Arr, Vec)):
            iv = _vec_of(idx)
            bv = base.vec()
            if iv.kind == "bool":
                return Masked(bv, iv)
            if iv.kind == "int":
                # fancy indexing with an integer index array: gather
                for_len = iv.n
                return Arr.new(Vec(for_len, lambda i: bv.f(it.path.index_term(iv.f(i), bv.n)), bv.kind))
            raise Unsupported("index array kind")
        if isinstance(idx, tuple):
            if len(idx) == 2 and isinstance(idx[0], slice) and idx[0] == slice(None, None, None) and idx[1] is None and not base.col2d:
                return Arr(base.cell, base.lo, base.n, col2d=True)  # v[:, np.newaxis]
            raise Unsupported("multi-dim index")
        i = _checked_index(it, base, idx, frame, node)
        if is_sym(i):
            it.path.index_term(i, base.n)
            _register_view_index(it, base, i)
        elt = base.vec().f(i)
        return tag_np(it, elt) if is_sym(elt) else elt
    if isinstance(base, Masked):
        raise Unsupported("index into masked view")
    if isinstance(base, Mat):
        from . import matmodel

        return matmodel.mat_getitem(it, base, idx)
    if isinstance(base, Obj):
        f = base.cls.lookup("__getitem__") if base.cls is not None else None
        if f is not None:
            return it.call_func(f, [base, idx], {}, self_obj=base)
    if isinstance(base, Opaque):
        return Opaque(base.tag + "[]")
    raise Unsupported(f"subscript of {type(base).__name__}")


class _Finfo:
    """np.finfo(float): only .eps is used (machine epsilon of float64, an exact power of two)"""

    eps = 2.0 ** -52


class DefaultDict(dict):
    """collections.defaultdict: a missing key is created by calling the factory"""

    factory = None


def _mk_defaultdict(it, factory=None, *a, **k):
    d = DefaultDict()
    d.factory = factory
    return d


def _register_view_index(it, base: Arr, i):
    """a view a[lo:hi] indexed at i touches position lo + i of the underlying array: an index term of that array"""
    lo = base.lo
    if isinstance(lo, int) and lo == 0:
        return
    try:
        full = base.cell.val.n
        it.path.index_term(ops.scalar_bin("+", lo, i), full)
    except Exception:  # noqa
        pass


def _checked_index(it, base: Arr, idx, frame, node):
    """scalar subscript a[i]: IndexError unless -n <= i < n (obligation of kind `index` whenever the index or the
    length is symbolic); negative indices count from the end"""
    n = base.n
    i = idx
    if isinstance(i, bool) or not (isinstance(i, int) or is_sym(i)):
        return i
    if isinstance(i, int) and isinstance(n, int):
        if not (-n <= i < n):
            raise PyRaise(ExcVal(IndexError, (f"index {i} is out of bounds for axis 0 with size {n}",)), origin=frame.site("index", node) if frame is not None and node is not None else "index")
        return i + n if i < 0 else i
    if it.config.get("index_obligations", True) and frame is not None and node is not None:
        p = it.path
        iv = z3.IntVal(i) if isinstance(i, int) else (z3.ToInt(i) if z3.is_real(i) else i)
        nv = z3.IntVal(n) if isinstance(n, int) else n
        ok = z3.And(iv >= -nv, iv < nv)
        sub = node if isinstance(node, ast.Subscript) else next((c for c in ast.walk(node) if isinstance(c, ast.Subscript)), node)
        site = frame.site("index", sub)
        p.prove(ok, site, kind="index", desc=f"`{ast.unparse(node)}`: index inside the array (no IndexError)", props=it.config.get("implicit_props"))
        p.assume(ok)
    if isinstance(i, int):
        return ops.scalar_bin("+", n, i) if i < 0 else i
    return i


def _wrap_symbolic_bound(it, a: Arr, b):
    """a symbolic slice bound that is provably negative counts from the end (a[-m:]); provably non-negative bounds are
    taken as they are; anything else is outside the subset"""
    if not is_sym(b) or it is None:
        return b
    p = it.path
    if not p._feasible(b < 0):
        return b
    if not p._feasible(b >= 0):
        return ops.scalar_bin("+", a.n, b)
    raise Unsupported("slice bound of unknown sign")


def arr_slice(it, a: Arr, s: slice):
    if s.step is not None:
        raise Unsupported("strided slice")
    lo = 0 if s.start is None else s.start
    hi = a.n if s.stop is None else s.stop
    if isinstance(lo, int) and lo < 0:
        lo = ops.scalar_bin("+", a.n, lo)
    if isinstance(hi, int) and hi < 0:
        hi = ops.scalar_bin("+", a.n, hi)
    lo, hi = _wrap_symbolic_bound(it, a, lo), _wrap_symbolic_bound(it, a, hi)
    n = ops.scalar_bin("-", hi, lo)
    if is_sym(n):
        ns = z3.simplify(n)
        n = ns.as_long() if z3.is_int_value(ns) else ns
    if isinstance(n, int) and n < 0:
        n = 0
    if isinstance(n, int) and isinstance(a.n, int) and n > a.n:
        n = a.n
    return Arr(a.cell, ops.scalar_bin("+", a.lo, lo), n)


def check_store(it, cell: Cell, frame, node, what="store"):
    """Frame obligation (DESIGN §2.6): a store must not reach a caller-owned region."""
    hook = it.hooks.get("store")
    if hook is not None:
        hook(it, cell, frame, node, what)
    if not cell.writeable:
        raise PyRaise(ExcVal(ValueError, ("assignment destination is read-only",)), origin=frame.site("call", node) if frame else "")


_RD32 = z3.Function("rd32", z3.RealSort(), z3.RealSort())
_IS32 = z3.Function("is32", z3.RealSort(), z3.BoolSort())


def rd32_axioms():
    """rounding to single precision as an uninterpreted function: what is used is only that it is monotone, that it
    lands on a float32 value, and that float32 values are fixed points (no magnitude of the rounding error, no
    overflow).  Given to the solver as quantified axioms (E-matching on the few rd32 / is32 terms of a query)."""
    a, b = z3.Reals("rd_a rd_b")
    return [
        z3.ForAll([a], _IS32(_RD32(a)), patterns=[_RD32(a)]),
        z3.ForAll([a], z3.Implies(_IS32(a), _RD32(a) == a), patterns=[_RD32(a)]),
        z3.ForAll([a, b], z3.Implies(a <= b, _RD32(a) <= _RD32(b)), patterns=[z3.MultiPattern(_RD32(a), _RD32(b))]),
        z3.ForAll([a, b], z3.Implies(z3.And(_IS32(b), a <= b), _RD32(a) <= b), patterns=[z3.MultiPattern(_RD32(a), _IS32(b))]),
        z3.ForAll([a, b], z3.Implies(z3.And(_IS32(b), b <= a), b <= _RD32(a)), patterns=[z3.MultiPattern(_RD32(a), _IS32(b))]),
    ]


def rd32(it, v):
    """round a real-valued term to single precision; pushed through selections (ite) so that a value that IS one of
    several float32 values is recognised as such"""
    if it is not None and not it.path.ghost.get("__rd32_axioms__"):
        it.path.ghost["__rd32_axioms__"] = True
        for ax in rd32_axioms():
            it.path.assume(ax)
    if isinstance(v, (int, float)):
        import numpy as _np

        return float(_np.float32(v))
    if z3.is_app(v) and v.decl().kind() == z3.Z3_OP_ITE:
        c, x, y = v.children()
        return z3.If(c, rd32(it, x), rd32(it, y))
    if z3.is_app(v) and v.decl().eq(_RD32):
        return v
    return _RD32(ops._real(v))


def is32(v):
    return _IS32(ops._real(v))


def _cast_for(cell: Cell, v):
    """numpy same-kind cast on store: float into an int array truncates toward zero; into a float32 array rounds"""
    if cell.dtype == "float32":
        return rd32(_CUR_IT[0], v) if (is_sym(v) or isinstance(v, (int, float))) else v
    if cell.dtype == "int":
        if isinstance(v, float):
            return int(v)
        if is_sym(v) and z3.is_real(v):
            return ops.ztrunc(v)
        return v
    return v


_CUR_IT = [None]


def setitem(it, base, idx, v, frame, node):
    _CUR_IT[0] = it
    if isinstance(base, ListCell):
        if isinstance(base.val, list) and isinstance(idx, int):
            base.val[idx] = v
            return
        raise Unsupported("symbolic list store")
    if isinstance(base, dict):
        base[idx] = v
        return
    if isinstance(base, Obj):
        f = base.cls.lookup("__setitem__") if base.cls is not None else None
        if f is not None:
            it.call_func(f, [base, idx, v], {}, self_obj=base)
            return
    if isinstance(base, Arr):
        cell = base.cell
        check_store(it, cell, frame, node)
        kind = cell.val.kind
        old = base.vec()
        if isinstance(idx, (Arr, Vec)):
            m = _vec_of(idx)
            if m.kind == "bool":
                if isinstance(v, Masked):
                    if v.mask is not m:
                        raise Unsupported("masked store with a different mask")
                    src = v.vec.f
                elif isinstance(v, (Arr, Vec)):
                    # a[mask] = values: the k-th True position receives values[k]; numpy raises ValueError unless
                    # len(values) == number of True entries (shape obligation)
                    (widx,) = np_where(it, idx)
                    wv = widx.vec()
                    sv = _vec_of(v)
                    cnt, ln = wv.n, sv.n
                    same = (cnt == ln) if isinstance(cnt, int) and isinstance(ln, int) else ((z3.IntVal(cnt) if isinstance(cnt, int) else cnt) == (z3.IntVal(ln) if isinstance(ln, int) else ln))
                    if isinstance(same, bool):
                        if not same:
                            raise PyRaise(ExcVal(ValueError, ("NumPy boolean array indexing assignment cannot assign input values to the output values",)), origin="masked-store")
                    elif frame is not None and node is not None:
                        it.path.prove(same, frame.site("index", node if isinstance(node, ast.Subscript) else next((c for c in ast.walk(node) if isinstance(c, ast.Subscript)), node)) + ":shape", kind="index", desc=f"`{ast.unparse(node)}`: as many values as True entries in the mask (no ValueError)", props=it.config.get("implicit_props"))
                        it.path.assume(same)
                    return scatter_store(it, base, wv, v, frame, node)
                else:
                    src = lambda i, v=v: v
                base.store_vec(Vec(base.n, lambda i: ops.zite(m.f(i), lift(_cast_for(cell, src(i)), kind), lift(old.f(i), kind)), kind))
                return
            if m.kind == "int":
                return scatter_store(it, base, m, v, frame, node)
        if isinstance(idx, slice):
            tgt = arr_slice(it, base, idx)
            if isinstance(v, (Arr, Vec)):
                sv = _vec_of(v)
                tgt.store_vec(Vec(tgt.n, lambda i: lift(_cast_for(cell, sv.f(i)), kind), kind))
            else:
                tgt.store_vec(Vec(tgt.n, lambda i: lift(_cast_for(cell, v), kind), kind))
            return
        i = _checked_index(it, base, idx, frame, node)
        if is_sym(i):
            it.path.index_term(i, base.n)
            _register_view_index(it, base, i)
        val = lift(_cast_for(cell, v), kind)
        base.store_vec(Vec(base.n, lambda j: ops.zite(ops.scalar_cmp("==", j, i), val, lift(old.f(j), kind)), kind))
        return
    raise Unsupported(f"subscript store into {type(base).__name__}")


def scatter_store(it, base: Arr, idx: Vec, v, frame, node):
    """a[indices] = values for an injective index array given through its partial inverse (ghost)."""
    inv = getattr(idx, "inverse", None)
    if inv is None:
        raise Unsupported("scatter store needs an index array with known inverse")
    kind = base.cell.val.kind
    old = base.vec()
    if isinstance(v, (Arr, Vec)):
        sv = _vec_of(v)
        src = lambda k: sv.f(k)
    else:
        src = lambda k: v
    hit, pos = inv  # hit(j): Bool (j is in the image), pos(j): k with idx[k]=j
    base.store_vec(Vec(base.n, lambda j: ops.zite(hit(j), lift(src(pos(j)), kind), lift(old.f(j), kind)), kind))


def inplace_binop(it, cur, op, rhs, frame, node):
    _CUR_IT[0] = it
    if isinstance(cur, Arr):
        check_store(it, cur.cell, frame, node, "inplace")
        sym = {ast.Add: "+", ast.Sub: "-", ast.Mult: "*"}.get(type(op))
        kind = cur.cell.val.kind
        cell = cur.cell
        if sym is not None:
            res = ops.elementwise(lambda x, y: ops.scalar_bin(sym, x, y), None, cur, rhs)
        elif isinstance(op, ast.Div):
            res = ops.elementwise(lambda x, y: _real_div(x, y), "real", cur, rhs)
        else:
            raise Unsupported("in-place operator")
        cur.store_vec(Vec(cur.n, lambda i: lift(_cast_for(cell, res.f(i)), kind), kind))
        return True
    if isinstance(cur, Mat):
        return False  # scipy sparse += rebinds (no in-place add)
    return False


# ----------------------------------------------------------------------------
# lists / iteration


def list_getitem(it, lc: ListCell, idx):
    v = lc.val
    if isinstance(v, list):
        if isinstance(idx, int):
            try:
                return v[idx]
            except IndexError:
                raise PyRaise(ExcVal(IndexError, ("list index out of range",)))
        if isinstance(idx, slice):
            return ListCell(v[idx])
        raise Unsupported("symbolic index into concrete list")
    if isinstance(v, SymList):
        if isinstance(idx, int) and idx < 0:
            idx = v.n + idx
        if is_sym(idx):
            it.path.index_term(idx, v.n)
        return v.f(idx)
    raise Unsupported("list getitem")


def list_extend(it, lc, rhs):
    if isinstance(lc.val, list) and isinstance(rhs, ListCell) and isinstance(rhs.val, list):
        lc.val = lc.val + rhs.val
        return
    raise Unsupported("list +=")


def unpack(it, v, n):
    if isinstance(v, (tuple, list)):
        if len(v) != n:
            raise PyRaise(ExcVal(ValueError, ("unpack length mismatch",)))
        return list(v)
    if isinstance(v, ListCell) and isinstance(v.val, list):
        return unpack(it, v.val, n)
    if isinstance(v, Opaque) and v.tag == "shape1":
        return [v.payload]
    raise Unsupported(f"unpack of {type(v).__name__}")


def iterate(it, v, site):
    """concrete iteration (symbolic-length sequences need a loop invariant)"""
    if isinstance(v, range):
        return list(v)
    if isinstance(v, (tuple, list)):
        return list(v)
    if isinstance(v, ListCell) and isinstance(v.val, list):
        return list(v.val)
    if isinstance(v, dict):
        return list(v.keys())
    if isinstance(v, ZipVal):
        cols = [iterate(it, p, site) for p in v.parts]
        return [tuple(x) for x in zip(*cols)]
    if isinstance(v, EnumerateVal):
        return [(i + v.start, x) for i, x in enumerate(iterate(it, v.inner, site))]
    if isinstance(v, Arr) and isinstance(v.n, int):
        vec = v.vec()
        return [vec.f(i) for i in range(v.n)]
    if isinstance(v, SymRange) or (isinstance(v, Arr)) or isinstance(v, ListCell):
        raise Unsupported(f"loop over symbolic-length sequence at {site} needs an invariant")
    from .repo import ClassInfo

    if isinstance(v, ClassInfo) and v.is_enum:
        return [EnumVal(v, n) for n in v.class_attrs]
    if isinstance(v, DictItems):
        return list(v.d.items())
    raise Unsupported(f"iteration over {type(v).__name__} at {site}")


class SymRange:
    def __init__(self, n):
        self.n = n


class ZipVal:
    def __init__(self, parts):
        self.parts = parts


class EnumerateVal:
    def __init__(self, inner, start=0):
        self.inner = inner
        self.start = start


class DictItems:
    def __init__(self, d):
        self.d = d


def seq_view(it, v):
    """(n, item_at) view of an iterable for loops under invariants."""
    if isinstance(v, SymRange):
        return v.n, (lambda k: k)
    if isinstance(v, range):
        return len(v), (lambda k: v.start + k * v.step if isinstance(k, int) else ops.scalar_bin("+", v.start, ops.scalar_bin("*", k, v.step)))
    if isinstance(v, Arr):
        vec = v.vec()
        return v.n, (lambda k: vec.f(k))
    if isinstance(v, ZipVal):
        views = [seq_view(it, p) for p in v.parts]
        return views[0][0], (lambda k: tuple(f(k) for _, f in views))
    if isinstance(v, EnumerateVal):
        n, f = seq_view(it, v.inner)
        return n, (lambda k: (ops.scalar_bin("+", k, v.start), f(k)))
    if isinstance(v, ListCell):
        if isinstance(v.val, SymList):
            return v.val.n, v.val.f
        return len(v.val), (lambda k: v.val[k])
    raise Unsupported(f"sequence view of {type(v).__name__}")


def list_comp(it, node, frame):
    from .interp import Frame

    if len(node.generators) != 1:
        raise Unsupported("nested comprehension")
    g = node.generators[0]
    src = it.eval(g.iter, frame)
    if isinstance(src, ListCell) and isinstance(src.val, SymList):
        return symlist_filter(it, node, g, src.val, frame)
    items = iterate(it, src, "listcomp")
    out = []
    for x in items:
        fr = Frame(None, frame.module, parent=frame, name=frame.name)
        it.assign(g.target, x, fr)
        if all(it.truth(it.eval(c, fr)) for c in g.ifs):
            out.append(it.eval(node.elt, fr))
    return ListCell(out)


def symlist_filter(it, node, g, sl: SymList, frame):
    """[e for e in L if P(e)] over a symbolic list: order-preserving index map with partial inverse."""
    from .interp import Frame

    if not (isinstance(node.elt, ast.Name) and isinstance(g.target, ast.Name) and node.elt.id == g.target.id):
        raise Unsupported("comprehension over symbolic list must be a pure filter")
    p = it.path

    def pred(k):
        fr = Frame(None, frame.module, parent=frame, name=frame.name)
        fr.locals[g.target.id] = sl.f(k)
        conds = [it.as_goal(_eval_nobranch(it, c, fr)) for c in g.ifs]
        return ops.zand(*conds)

    m = p.int("flt_len")
    fmap = p.func("flt_idx", z3.IntSort(), z3.IntSort())
    finv = p.func("flt_inv", z3.IntSort(), z3.IntSort())
    p.assume(z3.And(m >= 0, m <= sl.n))
    # range + predicate
    p.add_ufact(UFact(1, lambda i: z3.And(fmap(i) >= 0, fmap(i) < sl.n, zbool(pred(fmap(i))), finv(fmap(i)) == i), [(0, m)], "flt-range"))
    # strictly increasing
    p.add_ufact(UFact(2, lambda i, j: z3.Implies(i < j, fmap(i) < fmap(j)), [(0, m), (0, m)], "flt-mono"))
    # completeness: every element satisfying the predicate is kept
    p.add_ufact(UFact(1, lambda k: z3.Implies(zbool(pred(k)), z3.And(finv(k) >= 0, finv(k) < m, fmap(finv(k)) == k)), [(0, sl.n)], "flt-complete"))

    def elem(i):
        t = fmap(i)
        p.index_term(t, sl.n)
        return sl.f(t)

    res = SymList(m, elem, "filtered")
    res.src = sl
    res.fmap = fmap
    res.finv = finv
    res.pred = pred
    return ListCell(res)


def _eval_nobranch(it, node, frame):
    """Evaluate a boolean expression to a formula without forking (and/or/not/compare/calls of pure closures)."""
    if isinstance(node, ast.BoolOp):
        parts = [it.as_goal(_eval_nobranch(it, v, frame)) for v in node.values]
        return ops.zand(*parts) if isinstance(node.op, ast.And) else ops.zor(*parts)
    if isinstance(node, ast.UnaryOp) and isinstance(node.op, ast.Not):
        r = it.as_goal(_eval_nobranch(it, node.operand, frame))
        return _not(r)
    if isinstance(node, ast.Call):
        fn = it.eval(node.func, frame)
        from .interp import Closure, Frame

        if isinstance(fn, Closure) and not node.keywords:
            args = [it.eval(a, frame) for a in node.args]
            body = fn.node.body
            fr = Frame(None, fn.frame.module, parent=fn.frame, name=fn.frame.name + "." + fn.name)
            it.bind_params(fn.node.args, args, {}, fr, fn.frame.module, fn.name, defaults_frame=fn.frame)
            if isinstance(fn.node, ast.Lambda):
                return _eval_nobranch(it, fn.node.body, fr)
            stmts = [s for s in body if not (isinstance(s, ast.Expr) and isinstance(s.value, ast.Constant))]
            if len(stmts) == 1 and isinstance(stmts[0], ast.Return):
                return _eval_nobranch(it, stmts[0].value, fr)

            def block(ss):
                """boolean value of a straight-line / if-return body, as one formula (no forking)"""
                if not ss:
                    raise Unsupported("closure in quantified predicate falls off its end (returns None)")
                st, rest = ss[0], ss[1:]
                if isinstance(st, ast.Return) and st.value is not None:
                    return it.as_goal(_eval_nobranch(it, st.value, fr))
                if isinstance(st, ast.Assign) and len(st.targets) == 1 and isinstance(st.targets[0], ast.Name):
                    it.assign(st.targets[0], _eval_nobranch(it, st.value, fr), fr)
                    return block(rest)
                if isinstance(st, ast.If):
                    c = it.as_goal(_eval_nobranch(it, st.test, fr))
                    saved = dict(fr.locals)
                    tv = block(list(st.body) + rest)
                    fr.locals.clear()
                    fr.locals.update(saved)
                    ev = block(list(st.orelse) + rest)
                    fr.locals.clear()
                    fr.locals.update(saved)
                    return ops.zor(ops.zand(c, tv), ops.zand(_not(c), ev))
                raise Unsupported("closure in quantified predicate must consist of assignments, if and return")

            return block(stmts)
    return it.eval(node, frame)


# ----------------------------------------------------------------------------
# builtins


@builtin("len")
def _len(it, v):
    if isinstance(v, (tuple, list, dict, str, set)):
        return len(v)
    if isinstance(v, ListCell):
        return len(v.val) if isinstance(v.val, list) else v.val.n
    if isinstance(v, Arr):
        return v.n
    if isinstance(v, Vec):
        return v.n
    raise Unsupported(f"len of {type(v).__name__}")


@builtin("range")
def _range(it, *a):
    if all(isinstance(x, int) for x in a):
        return range(*a)
    if len(a) == 1:
        return SymRange(a[0])
    raise Unsupported("symbolic range with start")


@builtin("zip")
def _zip(it, *parts):
    return ZipVal(list(parts))


@builtin("enumerate")
def _enumerate(it, inner, start=0):
    return EnumerateVal(inner, start)


@builtin("float")
def _float(it, v="0"):
    if isinstance(v, (int, float)):
        return float(v)
    if isinstance(v, (Inf, NaN)):
        return v
    if is_sym(v):
        r = ops._real(v)
        return _untag(it, r)
    if isinstance(v, str):
        try:
            r = float(v)
        except ValueError:
            raise PyRaise(ExcVal(ValueError, (f"could not convert string to float: {v!r}",)), origin="float")
        if r != r:
            return NAN
        if r in (float("inf"), float("-inf")):
            return PINF if r > 0 else NINF  # the model's own infinities (comparisons / arithmetic are defined on them)
        return r
    raise Unsupported("float()")


def _untag(it, r):
    it.path.npscalar.pop(r.get_id(), None)
    return r


@builtin("int")
def _int(it, v=0):
    if isinstance(v, (int, float)):
        return int(v)
    if is_sym(v):
        return ops.ztrunc(v)
    raise Unsupported("int()")


@builtin("bool")
def _bool(it, v=False):
    if isinstance(v, bool):
        return v
    if is_sym(v) and z3.is_bool(v):
        return v
    return it.as_goal(v)


@builtin("abs")
def _abs(it, v):
    from .values import Mat as _Mat

    if isinstance(v, _Mat):
        from . import matmodel as _mm

        e = _mm.entry_fn(it, v)
        return _Mat(v.rows, v.cols, lambda i, j: ops.zabs(ops._real(e(i, j))), name=it.path.fresh_name("abs_" + v.name), region="FRESH", fmt=v.fmt)
    if _is_arrayish(v):
        return wrap(ops.elementwise(ops.zabs, None, v))
    return _prop_np(it, ops.zabs(v), v)


@builtin("max")
def _max(it, *a, **kw):
    if len(a) == 1:
        a = tuple(iterate(it, a[0], "max"))
    r = a[0]
    for x in a[1:]:
        r = _prop_np(it, ops.zmax(r, x), r, x)
    return r


@builtin("min")
def _min(it, *a, **kw):
    if len(a) == 1:
        a = tuple(iterate(it, a[0], "min"))
    r = a[0]
    for x in a[1:]:
        r = _prop_np(it, ops.zmin(r, x), r, x)
    return r


def _quant(it, arg, universal):
    from .interp import Frame

    if isinstance(arg, GenExp):
        node, frame = arg.node, arg.frame
        if len(node.generators) != 1 or node.generators[0].ifs:
            raise Unsupported("generator expression shape")
        g = node.generators[0]
        src = it.eval(g.iter, frame)
        if isinstance(src, ListCell) and isinstance(src.val, SymList):
            sl = src.val

            def body(k):
                fr = Frame(None, frame.module, parent=frame, name=frame.name)
                it.assign(g.target, sl.f(k), fr)
                return zbool(it.as_goal(_eval_nobranch(it, node.elt, fr)))

            return QAll(sl.n, body) if universal else QAny(sl.n, body)
        items = iterate(it, src, "any/all")
        vals = []
        for x in items:
            fr = Frame(None, frame.module, parent=frame, name=frame.name)
            it.assign(g.target, x, fr)
            vals.append(it.as_goal(_eval_nobranch(it, node.elt, fr)))
        return ops.zand(*vals) if universal else ops.zor(*vals)
    def _truth(vec_, i):
        # numpy truthiness of an element: booleans as they are, numbers are true iff non-zero
        e = vec_.f(i)
        if vec_.kind == "bool" or isinstance(e, bool) or (is_sym(e) and z3.is_bool(e)):
            return zbool(e)
        return (e != 0) if is_sym(e) else z3.BoolVal(e != 0)

    if isinstance(arg, (Arr, Vec)):
        v = _vec_of(arg)
        return QAll(v.n, lambda i: _truth(v, i)) if universal else QAny(v.n, lambda i: _truth(v, i))
    if isinstance(arg, Masked):
        return (
            QAll(arg.vec.n, lambda i: z3.Implies(zbool(arg.mask.f(i)), _truth(arg.vec, i)))
            if universal
            else QAny(arg.vec.n, lambda i: z3.And(zbool(arg.mask.f(i)), _truth(arg.vec, i)))
        )
    if isinstance(arg, (bool,)) or (is_sym(arg) and z3.is_bool(arg)):
        return arg
    items = [it.as_goal(x) for x in iterate(it, arg, "any/all")]
    return ops.zand(*items) if universal else ops.zor(*items)


@builtin("all")
def _all(it, arg):
    return _quant(it, arg, True)


@builtin("any")
def _any(it, arg):
    return _quant(it, arg, False)


@builtin("isinstance")
def _isinstance(it, v, cls):
    from .repo import ClassInfo

    clss = cls if isinstance(cls, tuple) else (cls,)
    for c in clss:
        if isinstance(c, ClassInfo):
            if isinstance(v, Obj) and v.cls is not None and v.cls.is_subclass_of(c):
                return True
            if isinstance(v, ExcVal) and v.isinstance_of(c):
                return True
            if isinstance(v, EnumVal) and v.cls is c:
                return True
        elif c is str or (isinstance(c, PyType) and c.name == "str"):
            if isinstance(v, str):
                return True
        elif isinstance(c, type) and isinstance(v, ExcVal) and v.isinstance_of(c):
            return True
    return False


class PyType:
    def __init__(self, name):
        self.name = name


BUILTINS["str"] = PyType("str")
BUILTINS["object"] = PyType("object")


@builtin("callable")
def _callable(it, v):
    from .interp import BoundMethod, Closure, PyFunc
    from .repo import ClassInfo, FuncInfo

    return isinstance(v, (BoundMethod, Closure, PyFunc, FuncInfo, ClassInfo))


@builtin("next")
def _next(it, g):
    from .interp import GenVal

    if isinstance(g, GenVal):
        return g.next()
    if isinstance(g, Obj):
        f = g.cls.lookup("__next__")
        if f is not None:
            return it.call_func(f, [g], {}, self_obj=g)
    if isinstance(g, ModelGen):
        return g.next(it)
    raise Unsupported("next() of non-generator")


class ModelGen:
    """Generator model supplied by a contract: next(it) -> value (may raise PyRaise)."""

    def __init__(self, fn):
        self.fn = fn
        self.k = 0

    def next(self, it):
        k = self.k
        self.k += 1
        return self.fn(it, k)


@builtin("print")
def _print(it, *a, **k):
    return None


@builtin("hex")
def _hex(it, *a):
    return Opaque("str")


@builtin("hash")
def _hash(it, *a):
    return Opaque("hash")


@builtin("list")
def _list(it, v=None):
    if v is None:
        return ListCell([])
    return ListCell(iterate(it, v, "list()"))


@builtin("tuple")
def _tuple(it, v=()):
    return tuple(iterate(it, v, "tuple()"))


@builtin("dict")
def _dict(it, **kw):
    return dict(kw)


@builtin("set")
def _set(it, v=()):
    return Opaque("set", v)


@builtin("getattr")
def _getattr(it, o, name, *default):
    if not isinstance(name, str):
        raise Unsupported("getattr with symbolic name")
    try:
        return it.getattr(o, name)
    except PyRaise as pr:
        if default and pr.exc.isinstance_of(AttributeError):
            return default[0]
        raise


@builtin("cast")
def _cast(it, t, v):
    return v


# ----------------------------------------------------------------------------
# attributes / methods of library values


def getattr_value(it, v, name):
    if isinstance(v, _Finfo):
        return getattr(v, name) if hasattr(v, name) else NOATTR
    from .interp import PyFunc

    if isinstance(v, Arr):
        return arr_attr(it, v, name)
    if isinstance(v, Masked):
        if name in ("all", "any"):
            return PyFunc(lambda it_: _quant(it_, v, name == "all"), f"masked.{name}")
        if name == "sum":
            return PyFunc(lambda it_: tag_np(it_, it_.path.int("masksum")), "masked.sum")
        return NOATTR
    if isinstance(v, ListCell):
        return list_attr(it, v, name)
    if isinstance(v, dict):
        if name == "items":
            return PyFunc(lambda it_: DictItems(v), "dict.items")
        if name == "get":
            return PyFunc(lambda it_, k, d=None: v.get(k, d), "dict.get")
        if name == "keys":
            return PyFunc(lambda it_: list(v.keys()), "dict.keys")
        if name == "values":
            return PyFunc(lambda it_: list(v.values()), "dict.values")
        return NOATTR
    if isinstance(v, (str, Opaque)):
        if isinstance(v, Opaque) and v.tag == "flags":
            return NOATTR
        if name == "format" and isinstance(v, str):
            return PyFunc(lambda it_, *a, **k: str_format(it_, v, a, k), "str.format")
        if name in ("format", "join", "name", "upper", "lower"):
            return PyFunc(lambda it_, *a, **k: Opaque("str"), f"str.{name}")
        if isinstance(v, Opaque):
            return Opaque(v.tag + "." + name)
        return NOATTR
    if isinstance(v, Mat):
        from . import matmodel

        return matmodel.mat_attr(it, v, name)
    if isinstance(v, Shape2D):
        if name == "T":
            return Shape2D(v.cols, v.rows)
        if name == "shape":
            return (v.rows, v.cols)
        if name == "ndim":
            return 2
        return NOATTR
    if isinstance(v, (int, float)) or is_sym(v):
        if name in ("all", "any"):
            return PyFunc(lambda it_: v, f"scalar.{name}")
        if name == "item":
            return PyFunc(lambda it_: v, "scalar.item")
        if name == "ndim":
            return 0
        if name == "dtype":
            return Opaque("dtype:float64")
        if name == "sum":
            return PyFunc(lambda it_: v, "scalar.sum")
    return NOATTR


def setattr_value(it, v, name, value):
    if isinstance(v, Opaque) and v.tag == "flags" and name == "writeable":
        cell = v.payload
        hook = it.hooks.get("flag")
        if hook is not None:
            hook(it, cell, value)
        cell.writeable = bool(value)
        return True
    if isinstance(v, Mat) and name == "data" and v.coo is not None and isinstance(value, (Arr, Vec)):
        # M.data = new_values: the OBJECT M is changed (it now holds other values at the same coordinates); whoever
        # else holds M - e.g. the caller whose matrix it is - sees the change: a store into M's container
        from . import matmodel

        hook = it.hooks.get("store")
        if hook is not None:
            class _Container:
                region = getattr(v, "container_region", v.region)

            hook(it, _Container, getattr(it, "cur_frame", None), getattr(it, "cur_stmt", None), "spmatrix.data = ...")
        nnz, row, col, _old = v.coo
        new = value if isinstance(value, Arr) else Arr.new(value)
        m2 = matmodel.coo_from_triplets(it, new, row, col, (v.rows, v.cols), name=v.name, region=v.region, fmt=v.fmt)
        v.coo, v.entry = m2.coo, m2.entry
        for extra in ("onehot_cols", "selection"):
            if hasattr(m2, extra):
                setattr(v, extra, getattr(m2, extra))
        return True
    return False


def arr_attr(it, a: Arr, name):
    from .interp import PyFunc

    if name == "shape":
        return (a.n, 1) if a.col2d else (a.n,)
    if name == "size":
        return a.n
    if name == "ndim":
        return 2 if a.col2d else 1
    if name == "dtype":
        return Opaque("dtype:" + {"float": "float64", "float32": "float32", "int": "int64", "bool": "bool"}[a.dtype])
    if name == "flags":
        return Opaque("flags", a.cell)
    if name == "T":
        return a
    if name in ("all", "any"):
        return PyFunc(lambda it_: _quant(it_, a, name == "all"), f"ndarray.{name}")
    if name == "copy":
        return PyFunc(lambda it_: Arr.new(a.vec(), dtype=a.dtype), "ndarray.copy")
    if name == "astype":
        return PyFunc(lambda it_, dt, copy=True: arr_astype(it_, a, dt, copy), "ndarray.astype")
    if name == "dot":
        return PyFunc(lambda it_, b: np_dot(it_, a, b), "ndarray.dot")
    if name == "sum":
        return PyFunc(lambda it_: np_sum(it_, a), "ndarray.sum")
    if name == "max":
        return PyFunc(lambda it_: np_max(it_, a), "ndarray.max")
    if name == "min":
        return PyFunc(lambda it_: np_min(it_, a), "ndarray.min")
    if name == "item":
        return PyFunc(lambda it_: a.vec().f(0), "ndarray.item")
    if name == "data":
        return Opaque("buffer", a.cell)
    if name == "tobytes":
        return PyFunc(lambda it_: Opaque("bytes"), "ndarray.tobytes")
    return NOATTR


def _dtype_name(dt):
    c = _dtype_canon(dt)
    if c is not None:
        return c
    if isinstance(dt, Opaque) and dt.tag.startswith("dtype:"):
        return dt.tag[6:]
    if isinstance(dt, PyType):
        return dt.name
    if isinstance(dt, type):
        return dt.__name__
    return None


def arr_astype(it, a: Arr, dt, copy=True):
    nm = _dtype_name(dt)
    cur = {"float": "float64", "float32": "float32", "int": "int64", "bool": "bool"}[a.dtype]
    if nm in (cur, {"float64": "float", "int64": "int", "bool": "bool"}.get(cur)):
        if copy is False:
            return a
        return Arr.new(a.vec(), dtype=a.dtype)
    if nm == "float32" and a.dtype in ("float", "int") and it.config.get("single_precision"):
        # conversion to single precision: every element is rounded to the nearest float32 (see rd32)
        v = a.vec()
        return Arr.new(Vec(v.n, lambda i: rd32(it, lift(v.f(i), "real")), "real"), dtype="float32")
    if nm in ("float64", "float") and a.dtype == "float32":
        return Arr.new(a.vec(), dtype="float")  # widening is exact
    if nm in ("float64", "float", "float32") and a.dtype == "int":
        v = a.vec()
        return Arr.new(Vec(v.n, lambda i: lift(v.f(i), "real"), "real"))
    if nm in ("int64", "int") and a.dtype == "float":
        v = a.vec()
        return Arr.new(Vec(v.n, lambda i: ops.ztrunc(v.f(i)), "int"))
    if nm == "float32":
        raise Unsupported("single precision (outside A4)")
    raise Unsupported(f"astype {nm}")


def list_attr(it, lc: ListCell, name):
    from .interp import PyFunc

    if name == "append":

        def append(it_, x):
            if isinstance(lc.val, list):
                lc.val = lc.val + [x]
            else:
                sl = lc.val
                n0 = sl.n
                f0 = sl.f
                new = SymList(n0 + 1, lambda i: _ite_val(ops.scalar_cmp("<", i, n0), lambda: f0(i), x), sl.name)
                new.appended = (sl, x)
                lc.val = new
            it_.effects.append(("list.append", lc, None))

        return PyFunc(append, "list.append")
    if name == "remove":
        def remove(it_, x):
            # concrete list of objects: first element that IS x (identity; objects without __eq__ compare by identity)
            if isinstance(lc.val, list) and all(not is_sym(e) and not isinstance(e, (int, float, str)) for e in lc.val):
                for k_, e in enumerate(lc.val):
                    if e is x:
                        lc.val = lc.val[:k_] + lc.val[k_ + 1:]
                        return None
                raise PyRaise(ExcVal(ValueError, ("list.remove(x): x not in list",)), origin="list.remove")
            raise Unsupported("list.remove")

        return PyFunc(remove, "list.remove")
    return NOATTR


def _ite_val(cond, a_thunk, b):
    """ite over possibly tuple-valued elements; a is lazily evaluated (index map registration)"""
    if isinstance(cond, bool):
        return a_thunk() if cond else b
    a = a_thunk()
    if isinstance(a, tuple):
        return tuple(ops.zite(cond, x, y) for x, y in zip(a, b))
    return ops.zite(cond, a, b)


# ----------------------------------------------------------------------------
# numpy functions


def fresh_norm_facts(it, vec: Vec, kind: str, label="norm"):
    """result N >= 0 with the defining facts of a vector norm on ground index terms (LA5)."""
    p = it.path
    N = p.real(label)
    p.assume(N >= 0)
    if kind == "inf":
        p.add_ufact(UFact(1, lambda i: ops.zabs(lift(vec.f(i), "real")) <= N, [(0, vec.n)], "norminf-bounds"))
        w = p.int("argmax")
        p.index_term(w, vec.n)
        nz = ops.scalar_cmp(">", vec.n, 0)
        p.assume(z3.Implies(zbool(nz), z3.And(w >= 0, w < vec.n, ops.zabs(lift(vec.f(w), "real")) == N)))
        p.assume(z3.Implies(z3.Not(zbool(nz)), N == 0))
    else:  # 2-norm: bounds every component; zero iff all zero (on ground terms)
        p.add_ufact(UFact(1, lambda i: ops.zabs(lift(vec.f(i), "real")) <= N, [(0, vec.n)], "norm2-bounds"))
        w = p.int("nzwit")
        p.index_term(w, vec.n)
        p.assume(z3.Implies(N > 0, z3.And(w >= 0, w < vec.n, lift(vec.f(w), "real") != 0)))
    return tag_np(it, N)


def np_norm(it, v, ord=None, axis=None):
    if isinstance(v, Opaque):
        return tag_np(it, it.path.real("norm_opaque"))
    if not isinstance(v, (Arr, Vec)):
        # scalar
        return _abs(it, v)
    vec = _vec_of(v)
    if isinstance(ord, Inf) and ord.sign > 0:
        key = ("norminf", id(vec))
        kind = "inf"
    elif ord is None or ord == 2:
        key = ("norm2", id(vec))
        kind = "2"
    elif ord == 1:
        key = ("norm1", id(vec))
        kind = "1"
    else:
        raise Unsupported(f"norm ord={ord}")
    cache = it.path.ghost.setdefault("__norms__", {})
    if key in cache:
        return cache[key][0]
    N = fresh_norm_facts(it, vec, kind if kind != "1" else "2", "norm" + kind)  # 1-norm: same ground facts (>= 0, bounds every component, zero iff all zero)
    cache[key] = (N, vec)
    if kind == "1":
        for ok in ("norm2", "norminf"):
            if (ok, id(vec)) in cache:
                it.path.assume(cache[(ok, id(vec))][0] <= N)
        return N
    if ("norm1", id(vec)) in cache:
        it.path.assume(N <= cache[("norm1", id(vec))][0])
    # relation between the two norms of the same vector: ||v||inf <= ||v||2
    other = ("norm2" if kind == "inf" else "norminf", id(vec))
    if other in cache:
        n2 = N if kind == "2" else cache[other][0]
        ni = N if kind == "inf" else cache[other][0]
        it.path.assume(ni <= n2)
    return N


def np_dot(it, a, b):
    """dot(a, b): uninterpreted bilinear form on array terms; dot(v, v) >= 0 and = 0 iff v = 0 (ground)."""
    if isinstance(a, Mat) or isinstance(b, Mat):
        from . import matmodel

        return matmodel.mat_dot(it, a, b)
    va, vb = _vec_of(a), _vec_of(b)
    p = it.path
    dot = p.ghost.get("__dot__")
    if dot is None:
        dot = z3.Function("dot", z3.ArraySort(z3.IntSort(), z3.RealSort()), z3.ArraySort(z3.IntSort(), z3.RealSort()), z3.IntSort(), z3.RealSort())
        p.ghost["__dot__"] = dot
    n = va.n if not isinstance(va.n, int) else z3.IntVal(va.n)
    A, B = _real_array(va), _real_array(vb)
    # commutativity by canonical order
    if A.get_id() > B.get_id():
        A, B = B, A
    r = dot(A, B, n)
    key = ("dotfacts", r.get_id())
    seen = p.ghost.setdefault("__dotfacts__", set())
    if key not in seen:
        seen.add(key)
        if A.get_id() == B.get_id():
            p.assume(r >= 0)
            w = p.int("dotwit")
            p.index_term(w, va.n)
            p.assume(z3.Implies(r > 0, z3.And(w >= 0, w < n, lift(va.f(w), "real") != 0)))
            p.add_ufact(UFact(1, lambda i: z3.Implies(r == 0, lift(va.f(i), "real") == 0), [(0, va.n)], "dot-zero"))
            # dot(v,v) bounds squares: |v_i| <= 1 or v_i^2 <= dot  (kept linear: only sign facts)
    return tag_np(it, r)


def _real_array(v: Vec):
    if v.kind == "real":
        return v.as_array()
    i = z3.Int("__li")
    return z3.Lambda([i], lift(v.f(i), "real"))


def np_sum(it, a):
    if isinstance(a, (Arr, Vec)):
        v = _vec_of(a)
        if v.kind == "bool":
            s = it.path.int("count")
            it.path.assume(z3.And(s >= 0, s <= v.n))
            return tag_np(it, s)
        s = it.path.real("sum")
        return tag_np(it, s)
    if isinstance(a, Masked):
        return tag_np(it, it.path.real("sum"))
    raise Unsupported("sum")


def _nonempty_or_raise(it, n, what):
    """numpy raises ValueError for the maximum / minimum of an EMPTY array: the array being non-empty is an obligation
    (never an assumption - an assumed witness index in an empty array would make the path vacuous)"""
    p = it.path
    ne = (n > 0) if not isinstance(n, int) else (n > 0)
    if isinstance(ne, bool) and ne:
        return
    if not p.prove(ne, f"numpy.{what}/array_non-empty", kind="domain", desc=f"np.{what} of an array that may be empty (ValueError: zero-size array to reduction operation)", props=it.config.get("implicit_props")):
        if isinstance(ne, bool) or it.path.choose(f"np.{what} of an empty array raises ValueError"):
            raise PyRaise(ExcVal(ValueError, (f"zero-size array to reduction operation {what}imum which has no identity",)), origin=f"numpy.{what}")
    if not isinstance(ne, bool):
        p.assume(ne)


def np_max(it, a):
    v = _vec_of(a)
    p = it.path
    _nonempty_or_raise(it, v.n, "max")
    M = p.real("vmax") if v.kind == "real" else p.int("vmax")
    p.add_ufact(UFact(1, lambda i: lift(v.f(i), v.kind) <= M, [(0, v.n)], "max-bounds"))
    w = p.int("argmax")
    p.index_term(w, v.n)
    p.assume(z3.And(w >= 0, w < v.n, lift(v.f(w), v.kind) == M))
    return tag_np(it, M)


def np_min(it, a):
    if isinstance(a, Masked):
        v, m = a.vec, a.mask
        p = it.path
        # numpy raises ValueError for the minimum of an empty selection
        ne = QAny(v.n, lambda i: zbool(m.f(i)))
        if not p.prove(ne, "numpy.min/selection_non-empty", kind="domain", desc="np.min of a boolean-mask selection: the selection is non-empty", props=it.config.get("implicit_props")):
            if it.path.choose("np.min of an empty selection raises ValueError"):
                raise PyRaise(ExcVal(ValueError, ("zero-size array to reduction operation minimum which has no identity",)), origin="numpy.min")
        p.assume(ne)
        M = p.real("vmin")
        p.add_ufact(UFact(1, lambda i: z3.Implies(zbool(m.f(i)), lift(v.f(i), "real") >= M), [(0, v.n)], "min-bounds"))
        w = p.int("argmin")
        p.index_term(w, v.n)
        p.assume(z3.And(w >= 0, w < v.n, zbool(m.f(w)), lift(v.f(w), "real") == M))
        return tag_np(it, M)
    v = _vec_of(a)
    p = it.path
    _nonempty_or_raise(it, v.n, "min")
    M = p.real("vmin") if v.kind == "real" else p.int("vmin")
    p.add_ufact(UFact(1, lambda i: lift(v.f(i), v.kind) >= M, [(0, v.n)], "min-bounds"))
    w = p.int("argmin")
    p.index_term(w, v.n)
    p.assume(z3.And(w >= 0, w < v.n, lift(v.f(w), v.kind) == M))
    return tag_np(it, M)


def _shape_len(shape):
    if isinstance(shape, tuple):
        if len(shape) != 1:
            raise Unsupported("multi-dimensional array")
        return shape[0]
    return shape


def _kind_of_dtype(dtype, default="real"):
    nm = _dtype_name(dtype) if dtype is not None else None
    if nm is None:
        return default
    if nm in ("int", "int64", "int32"):
        return "int"
    if nm in ("bool",):
        return "bool"
    if nm in ("float", "float64"):
        return "real"
    if nm == "float32":
        raise Unsupported("single precision (outside A4)")
    raise Unsupported(f"dtype {nm}")


def f32_array(u, name, n, region="FRESH"):
    """a fresh single-precision array: arbitrary float32 values (is32 holds for every element)"""
    p = u.path
    A = z3.Array(p.fresh_name(name), z3.IntSort(), z3.RealSort())
    v = Vec(n, lambda i: z3.Select(A, p.auto_index(i, n)), "real", arr=A, name=name)
    p.add_ufact(UFact(1, lambda i: _IS32(v.f(i)), [(0, n)], f"{name}:float32_values"))
    rd32(u.it, z3.RealVal(0))  # installs the axioms
    return Arr.new(v, region=region, dtype="float32")


def np_zeros(it, shape, dtype=None):
    k = _kind_of_dtype(dtype)
    n = _shape_len(shape)
    zero = {"real": z3.RealVal(0), "int": z3.IntVal(0), "bool": z3.BoolVal(False)}[k]
    return Arr.new(Vec(n, lambda i: zero, k))


def np_full(it, shape, fill_value, dtype=None):
    k = _kind_of_dtype(dtype, "real" if not isinstance(fill_value, bool) else "bool")
    n = _shape_len(shape)
    return Arr.new(Vec(n, lambda i: lift(fill_value, k), k))


def np_clip(it, x, lo, hi, out=None):
    def f(a, l, h):
        return ops.zmin(ops.zmax(a, l), h)

    res = ops.elementwise(f, None, x, lo, hi)
    if out is not None:
        if not isinstance(out, Arr):
            raise Unsupported("clip out=")
        check_store(it, out.cell, None, None, "out=")
        out.store_vec(res)
        return out
    if isinstance(res, Vec):
        return Arr.new(res)
    if isinstance(res, Masked):
        return res
    return _prop_np(it, res, x)


def np_isclose(it, a, b, rtol=1e-05, atol=1e-08):
    def f(x, y):
        return ops.scalar_cmp("<=", ops.zabs(ops.scalar_bin("-", x, y)), ops.scalar_bin("+", atol, ops.scalar_bin("*", rtol, ops.zabs(y))))

    return wrap(ops.elementwise(f, "bool", a, b))


def np_isfinite(it, v):
    if isinstance(v, (Inf, NaN)):
        return False
    if _is_arrayish(v):
        return wrap(ops.elementwise(lambda x: True, "bool", v))
    return True  # A1: reals are finite


def np_sqrt(it, v):
    if isinstance(v, (int, float)):
        import math

        return math.sqrt(v)
    if isinstance(v, (Arr, Vec)):
        vec = _vec_of(v)
        p = it.path
        sq = p.ghost.get("__sqrt__")
        if sq is None:
            sq = z3.Function("sqrt", z3.RealSort(), z3.RealSort())
            p.ghost["__sqrt__"] = sq
            p.ghost["__sqrt_seen__"] = set()
        # domain: a negative argument gives NaN (numpy) - never assumed away (that would make the path vacuous)
        p.prove(QAll(vec.n, lambda i: lift(vec.f(i), "real") >= 0), "sqrt/domain", kind="domain", desc="argument of np.sqrt >= 0 (element-wise)", props=it.config.get("implicit_props"))
        p.add_ufact(UFact(1, lambda i: z3.Implies(lift(vec.f(i), "real") >= 0, z3.And(sq(lift(vec.f(i), "real")) >= 0, sq(lift(vec.f(i), "real")) * sq(lift(vec.f(i), "real")) == lift(vec.f(i), "real"))), [(0, vec.n)], "sqrt(v)"))
        return Arr.new(Vec(vec.n, lambda i: sq(lift(vec.f(i), "real")), "real"))
    if _is_arrayish(v):
        raise Unsupported("vector sqrt")
    p = it.path
    sq = p.ghost.get("__sqrt__")
    if sq is None:
        sq = z3.Function("sqrt", z3.RealSort(), z3.RealSort())
        p.ghost["__sqrt__"] = sq
        p.ghost["__sqrt_seen__"] = set()
    x = z3.simplify(ops._real(v))
    r = sq(x)
    if r.get_id() not in p.ghost["__sqrt_seen__"]:
        p.ghost["__sqrt_seen__"].add(r.get_id())
        p.prove(x >= 0, "sqrt/domain", kind="domain", desc="argument of sqrt >= 0 (NaN / ValueError otherwise)", props=it.config.get("implicit_props"))
        p.assume(z3.Implies(x >= 0, z3.And(r >= 0, r * r == x)))
    return tag_np(it, r)


def install(it):
    L = it.lib
    from .interp import PyFunc

    def reg(name, fn):
        L[name] = fn

    reg("numpy.linalg.norm", np_norm)
    reg("numpy.dot", np_dot)
    reg("numpy.zeros", np_zeros)
    reg("numpy.ones", lambda it_, shape, dtype=None: np_full(it_, shape, 1.0 if _kind_of_dtype(dtype) == "real" else 1, dtype))
    reg("numpy.full", np_full)
    reg("numpy.empty", lambda it_, shape, dtype=None: _fresh_arr(it_, _shape_len(shape), _kind_of_dtype(dtype), "empty"))
    reg("numpy.zeros_like", lambda it_, a, dtype=None: Arr.new(Vec(_vec_of(a).n, lambda i: lift(0, _vec_of(a).kind if dtype is None else _kind_of_dtype(dtype)), _vec_of(a).kind if dtype is None else _kind_of_dtype(dtype))))
    reg("numpy.full_like", lambda it_, a, fill_value, dtype=None: Arr.new(Vec(_vec_of(a).n, lambda i: lift(fill_value, _vec_of(a).kind), _vec_of(a).kind)))
    reg("numpy.empty_like", lambda it_, a: _fresh_arr(it_, _vec_of(a).n, _vec_of(a).kind, "empty"))
    reg("numpy.copy", lambda it_, a: Arr.new(_vec_of(a), dtype=a.dtype if isinstance(a, Arr) else None) if isinstance(a, (Arr, Vec)) else a)
    reg("numpy.clip", np_clip)
    reg("numpy.maximum", lambda it_, a, b: wrap(ops.elementwise(ops.zmax, None, a, b)))
    reg("numpy.minimum", lambda it_, a, b: wrap(ops.elementwise(ops.zmin, None, a, b)))
    reg("numpy.abs", _abs)
    reg("numpy.absolute", _abs)
    reg("numpy.logical_and", logical_and)
    reg("numpy.logical_or", logical_or)
    reg("numpy.logical_not", np_logical_not)
    reg("numpy.isclose", np_isclose)
    reg("numpy.allclose", lambda it_, a, b, rtol=1e-05, atol=1e-08: _quant(it_, np_isclose(it_, a, b, rtol, atol), True) if _is_arrayish(a) or _is_arrayish(b) else np_isclose(it_, a, b, rtol, atol))
    reg("numpy.isfinite", np_isfinite)
    reg("numpy.isinf", lambda it_, v: isinstance(v, Inf))
    reg("numpy.all", lambda it_, a: _quant(it_, a, True))
    reg("numpy.any", lambda it_, a: _quant(it_, a, False))
    reg("numpy.sum", np_sum)
    reg("numpy.max", np_max)
    reg("numpy.min", np_min)
    reg("numpy.sqrt", np_sqrt)
    reg("numpy.concatenate", np_concatenate)
    reg("numpy.array", np_array)
    reg("numpy.asarray", np_asarray)
    reg("numpy.arange", np_arange)
    reg("numpy.broadcast_to", np_broadcast_to)
    reg("numpy.ldexp", np_ldexp)
    reg("numpy.exp2", lambda it, x, **kw: np_exp2(it, x))
    reg("numpy.frexp", np_frexp)
    reg("numpy.where", np_where)
    reg("numpy.atleast_2d", np_atleast_2d)
    reg("numpy.searchsorted", np_searchsorted)
    reg("numpy.finfo", lambda it_, dt=None: _Finfo())
    reg("collections.defaultdict", _mk_defaultdict)
    reg("numpy.atleast_1d", lambda it_, a: a if isinstance(a, Arr) else Arr.new(Vec(1, lambda i: lift(a, "real"), "real")))
    reg("numpy.vstack", np_vstack)
    reg("numpy.hstack", np_hstack)
    reg("math.isfinite", lambda it_, v: not isinstance(v, (Inf, NaN)))
    reg("math.log", math_log)
    reg("math.exp", math_exp)
    reg("math.pow", math_pow)
    reg("math.ceil", math_ceil)
    reg("time.time", time_time)
    reg("copy.copy", copy_copy)
    reg("typing.cast", lambda it_, t, v: v)
    reg("functools.cached_property", lambda it_, f: f)
    reg("termcolor.colored", lambda it_, *a, **k: Opaque("str"))
    L["logging.DEBUG"] = 10
    L["logging.INFO"] = 20
    L["logging.WARNING"] = 30
    from . import matmodel

    matmodel.install(it)
    L["numpy.inf"] = PINF
    L["numpy.newaxis"] = None
    L["numpy.float64"] = Opaque("dtype:float64")
    L["numpy.float32"] = Opaque("dtype:float32")
    L["numpy.int64"] = Opaque("dtype:int64")
    L["numpy.int32"] = Opaque("dtype:int32")
    L["numpy.int16"] = Opaque("dtype:int16")
    L["numpy.int8"] = Opaque("dtype:int8")
    L["numpy.ndarray"] = PyType("ndarray")
    BUILTINS["int"]._dtype = "int"


def lib_value(it, dotted):
    v = it.lib.get(dotted, NOATTR)
    return v


def _fresh_arr(it, n, kind, base):
    sort = {"real": z3.RealSort(), "int": z3.IntSort(), "bool": z3.BoolSort()}[kind]
    A = z3.Array(it.path.fresh_name(base), z3.IntSort(), sort)
    path = it.path
    return Arr.new(Vec(n, lambda i: z3.Select(A, path.auto_index(i, n)), kind, arr=A))


def np_concatenate(it, parts, axis=0):
    if isinstance(parts, ListCell):
        parts = parts.val
    vs = [_vec_of(p) for p in parts]
    kind = "real" if any(v.kind == "real" for v in vs) else vs[0].kind
    total = vs[0].n
    for v in vs[1:]:
        total = ops.scalar_bin("+", total, v.n)

    def f(i, vs=vs):
        off = 0
        # build nested ite from the last part backwards
        offs = []
        for v in vs:
            offs.append(off)
            off = ops.scalar_bin("+", off, v.n)
        res = lift(vs[-1].f(ops.scalar_bin("-", i, offs[-1])), kind)
        for v, o in reversed(list(zip(vs[:-1], offs[:-1]))):
            res = ops.zite(ops.scalar_cmp("<", i, ops.scalar_bin("+", o, v.n)), lift(v.f(ops.scalar_bin("-", i, o)), kind), res)
        return res

    return Arr.new(Vec(total, f, kind))


def np_array(it, v, dtype=None):
    if isinstance(v, ListCell):
        v = v.val
    if isinstance(v, list):
        k = _kind_of_dtype(dtype, "real")
        items = list(v)
        if not items:
            return Arr.new(Vec(0, lambda i: lift(0, k), k))

        def f(i):
            res = lift(items[-1], k)
            for j in range(len(items) - 2, -1, -1):
                res = ops.zite(ops.scalar_cmp("==", i, j), lift(items[j], k), res)
            return res

        return Arr.new(Vec(len(items), f, k))
    if isinstance(v, SymList):
        k = _kind_of_dtype(dtype, "real")
        return Arr.new(Vec(v.n, lambda i: lift(v.f(i), k), k))
    if isinstance(v, (Arr,)):
        return Arr.new(v.vec())
    raise Unsupported("np.array")


class Shape2D:
    """a 2-D array of which only the shape is modelled (np.vstack of the collected path)"""

    def __init__(self, rows, cols):
        self.rows, self.cols = rows, cols


def _list_len_and_elem(it, a):
    v = a.val if isinstance(a, ListCell) else a
    if isinstance(v, SymList):
        e = v.f(it.path.int("any_elem"))
        return v.n, e
    if isinstance(v, list):
        return len(v), (v[0] if v else None)
    raise Unsupported("stack of non-list")


def np_vstack(it, a):
    n, e = _list_len_and_elem(it, a)
    if isinstance(e, Arr):
        return Shape2D(n, e.n)
    elen = getattr(e, "payload", None)
    if isinstance(e, Opaque) and isinstance(elen, tuple) and elen and elen[0] == "len":
        return Shape2D(n, elen[1])
    return Opaque("vstack", a)


def np_hstack(it, a):
    n, e = _list_len_and_elem(it, a)
    if isinstance(e, (int, float)) or is_sym(e):
        A = z3.Array(it.path.fresh_name("hstack"), z3.IntSort(), z3.RealSort())
        return Arr.new(Vec(n, lambda i: z3.Select(A, i if not isinstance(i, int) else z3.IntVal(i)), "real"))
    return Opaque("hstack", a)


def np_logical_not(it, a):
    if not _is_arrayish(a):
        return _not(a)
    r = wrap(ops.elementwise(lambda x: _not(x), "bool", a))
    if isinstance(r, Arr) and isinstance(a, (Arr, Vec)):
        r.cell.val.neg_of = _vec_of(a)
    return r


def np_arange(it, n):
    v = Vec(n, lambda i: i if not isinstance(i, int) else z3.IntVal(i), "int")
    v.is_arange = True
    return Arr.new(v)


def np_atleast_2d(it, v):
    if isinstance(v, Mat):
        return v
    if isinstance(v, Arr):
        if v.col2d:
            return v
        if isinstance(v.n, int) and v.n == 1:
            return Arr(v.cell, v.lo, v.n, col2d=True)  # (1,) -> (1, 1)
        vec = v.vec()
        m = Mat(1, v.n, lambda i, j: vec.f(j), name=it.path.fresh_name("row"))
        m.dense = True
        return m
    raise Unsupported("atleast_2d")


def np_asarray(it, v, dtype=None):
    """np.asarray does NOT copy an ndarray whose dtype already matches: the result aliases the argument"""
    if isinstance(v, Arr):
        if dtype is None or _kind_of_dtype(dtype, v.kind) == v.kind:
            return v
        return arr_astype(it, v, dtype)
    if isinstance(v, (int, float)) or is_sym(v):
        return Arr.new(Vec(1, lambda i: lift(v, "real"), "real"))
    return np_array(it, v, dtype)


def np_broadcast_to(it, v, shape):
    n = _shape_len(shape)
    if isinstance(v, Arr):
        # view: same region (numpy returns a read-only view)
        return Arr(v.cell, v.lo, v.n)
    if isinstance(v, (int, float)) or is_sym(v):
        a = Arr.new(Vec(n, lambda i: lift(v, "real"), "real"))
        a.cell.writeable = False
        return a
    raise Unsupported("broadcast_to")


def pow2(it):
    f = it.path.ghost.get("__pow2__")
    if f is None:
        f = z3.Function("pow2", z3.IntSort(), z3.RealSort())
        it.path.ghost["__pow2__"] = f
        it.path.ghost["__pow2_terms__"] = []
    return f


def pow2_at(it, e):
    """pow2(e) with ground-instantiated laws on the exponent terms present (DESIGN §2.5):
    positivity, inverse (pow2(e)*pow2(-e) = 1), pow2(0) = 1, pow2(1) = 2, and the additive law on the summands of
    the exponent term itself (pow2(a+b) = pow2(a)*pow2(b)).  No quantified axiom is ever given to the solver."""
    f = pow2(it)
    if isinstance(e, int):
        e = z3.IntVal(e)
    e = z3.simplify(e)
    seen = it.path.ghost.setdefault("__pow2_seen__", {})
    t = f(e)
    if e.get_id() in seen:
        return t
    seen[e.get_id()] = e
    p = it.path
    if z3.is_int_value(e):
        v = e.as_long()
        if -64 <= v <= 64:
            from fractions import Fraction

            fr = Fraction(2) ** v
            p.pc.append(t == z3.RealVal(f"{fr.numerator}/{fr.denominator}"))
            return t
    p.pc.append(t > 0)
    # values at the small exponents that code compares against (frexp exponents, zero weights)
    p.pc.append(z3.And(z3.Implies(e == 0, t == 1), z3.Implies(e == 1, t == 2), z3.Implies(e == -1, t == z3.RealVal("1/2"))))
    ne = z3.simplify(-e)
    tn = pow2_at(it, ne) if ne.get_id() not in seen else f(ne)
    p.pc.append(t * tn == 1)
    if z3.is_app_of(e, z3.Z3_OP_ITE):
        c, a, b = e.children()
        p.pc.append(t == z3.If(c, pow2_at(it, a), pow2_at(it, b)))
    if z3.is_add(e):
        parts = e.children()
        prod = None
        for c in parts:
            pc_ = pow2_at(it, c)
            prod = pc_ if prod is None else prod * pc_
        p.pc.append(t == prod)
    return t


def np_ldexp(it, x, e):
    def f(a, b):
        if isinstance(b, int) and b == 0:
            return a
        if isinstance(a, Inf):
            return a
        return ops.scalar_bin("*", a, pow2_at(it, b if not isinstance(b, int) else z3.IntVal(b)))

    if _is_arrayish(x) or _is_arrayish(e):
        return wrap(ops.elementwise(f, "real", x, e))
    return tag_np(it, f(x, e)) if is_sym(f(x, e)) else f(x, e)


def np_exp2(it, x):
    """numpy.exp2: 2**x.  For an INTEGER ARRAY numpy picks the float type by the integer width (int8 -> float16,
    int16 -> float32, int32/int64 -> float64): the result is the exact power of two only for 32/64-bit integers.
    The width of caller-supplied integer arrays (scaling weights) is not known, so this is an obligation."""
    if _is_arrayish(x) and _vec_of(x).kind == "int":
        it.path.prove(False, "numpy.exp2/integer_width", kind="domain",
                      desc="np.exp2 of an integer array whose width is not fixed by an explicit cast (scaling weights may be int8 / int16): for int8 / int16 input the result is float16 / float32 (overflows to inf beyond 2^15, underflows to 0 below 2^-24) - not the exact power of two that np.ldexp(1.0, k) gives")

    def f(a):
        return pow2_at(it, a if not isinstance(a, int) else z3.IntVal(a)) if (isinstance(a, int) or (is_sym(a) and z3.is_int(a))) else None

    if _is_arrayish(x):
        vec = _vec_of(x)
        if vec.kind != "int":
            raise Unsupported("numpy.exp2 of a non-integer array")
        return wrap(ops.elementwise(lambda a: f(a), "real", x))
    r = f(x)
    if r is None:
        raise Unsupported("numpy.exp2 of a non-integer scalar")
    return r


def np_frexp(it, v):
    """frexp(v) = (m, e): v = m*2^e, 1/2 <= |m| < 1 for v != 0, (0, 0) for v = 0."""
    p = it.path
    if _is_arrayish(v):
        vec = _vec_of(v)
        M = p.func("frexp_m", z3.IntSort(), z3.RealSort())
        E = p.func("frexp_e", z3.IntSort(), z3.IntSort())

        def fact(i):
            x = lift(vec.f(i), "real")
            m, e = M(i), E(i)
            return z3.And(
                x == m * pow2_at(it, e),
                z3.Implies(x != 0, z3.And(ops.zabs(m) >= z3.RealVal("1/2"), ops.zabs(m) < 1)),
                z3.Implies(x == 0, z3.And(m == 0, e == 0)),
            )

        p.add_ufact(UFact(1, fact, [(0, vec.n)], "frexp"))
        return (Arr.new(Vec(vec.n, lambda i: M(i), "real")), Arr.new(Vec(vec.n, lambda i: E(i), "int")))
    x = ops._real(v)
    m, e = p.real("frexp_m"), p.int("frexp_e")
    p.assume(z3.And(x == m * pow2_at(it, e), z3.Implies(x != 0, z3.And(ops.zabs(m) >= z3.RealVal("1/2"), ops.zabs(m) < 1)), z3.Implies(x == 0, z3.And(m == 0, e == 0))))
    return (tag_np(it, m), e)


def np_where(it, cond, *rest):
    if rest:
        a, b = rest
        return wrap(ops.elementwise(lambda c, x, y: ops.zite(c, x, y), None, cond, a, b))
    # np.where(mask)[0]: increasing enumeration of the True positions, with partial inverse
    m = _vec_of(cond)
    p = it.path
    # the enumeration is a function of the mask: the same mask (or the negation of the same mask) gives the same array
    wkey = ("neg", id(m.neg_of)) if getattr(m, "neg_of", None) is not None else ("pos", id(m))
    wcache = p.ghost.setdefault("__where_cache__", {})
    if wkey in wcache:
        return (Arr.new(wcache[wkey][0]),)
    cnt = p.int("nnz")
    idx = p.func("where_idx", z3.IntSort(), z3.IntSort())
    inv = p.func("where_inv", z3.IntSort(), z3.IntSort())
    p.assume(z3.And(cnt >= 0, cnt <= m.n))
    p.add_ufact(UFact(1, lambda k: z3.And(idx(k) >= 0, idx(k) < m.n, zbool(m.f(idx(k))), inv(idx(k)) == k), [(0, cnt)], "where-range"))
    p.add_ufact(UFact(2, lambda i, j: z3.Implies(i < j, idx(i) < idx(j)), [(0, cnt), (0, cnt)], "where-mono"))
    p.add_ufact(UFact(1, lambda j: z3.Implies(zbool(m.f(j)), z3.And(inv(j) >= 0, inv(j) < cnt, idx(inv(j)) == j)), [(0, m.n)], "where-complete"))

    def at(k):
        t = idx(k if not isinstance(k, int) else z3.IntVal(k))
        p.index_term(t, m.n)
        return t

    v = Vec(cnt, at, "int")
    v.inverse = (lambda j: zbool(m.f(j)), lambda j: inv(j))
    v.mask = m
    # the True positions of a mask and of its negation partition the index range (counting fact)
    wcache[wkey] = (v, m)  # (m is kept alive so that its id is not reused)
    counts = p.ghost.setdefault("__where_counts__", {})
    counts[id(m)] = (m, cnt)
    other = getattr(m, "neg_of", None)
    if other is not None and id(other) in counts:
        p.assume(cnt + counts[id(other)][1] == m.n)
    for (mm, c2) in list(counts.values()):
        if getattr(mm, "neg_of", None) is m:
            p.assume(cnt + c2 == m.n)
    return (Arr.new(v),)


def _format_kind(it, v):
    """coarse run-time type of a value, as far as str.format cares"""
    if v is None:
        return "none"
    if isinstance(v, bool):
        return "int"
    if isinstance(v, str) or (isinstance(v, Opaque) and v.tag.startswith("str")):
        return "str"
    if isinstance(v, int):
        return "int"
    if isinstance(v, float) or isinstance(v, (Inf, NaN)):
        return "float"
    if is_sym(v):
        if z3.is_bool(v):
            return "int"
        if z3.is_int(v):
            return "int"
        return "float"
    if isinstance(v, (Arr, Vec, Masked, Mat)):
        return "array"
    return "object"


def str_format(it, fmt: str, args, kwargs):
    """'...{:spec}...'.format(*args): the result is an opaque string; what is CHECKED is that every replacement field
    exists and that its presentation type accepts the run-time type of its argument (ValueError 'Unknown format
    code' / TypeError 'unsupported format string' otherwise) - obligations of kind `format`."""
    import string

    auto = [0]

    def take(field):
        if field == "" or field is None:
            i = auto[0]
            auto[0] += 1
            return ("pos", i)
        head = field.split(".")[0].split("[")[0]
        if head.isdigit():
            return ("pos", int(head))
        return ("kw", head)

    problems = []
    try:
        parsed = list(string.Formatter().parse(fmt))
    except ValueError as e:
        problems.append(f"malformed format string: {e}")
        parsed = []
    for _lit, field, spec, conv in parsed:
        if field is None:
            continue
        kind_, key = take(field)
        if kind_ == "pos":
            if key >= len(args):
                problems.append(f"replacement index {key} out of range for {len(args)} positional arguments")
                continue
            val = args[key]
        else:
            if key not in kwargs:
                problems.append(f"missing keyword argument {key!r}")
                continue
            val = kwargs[key]
        # nested fields inside the spec (width / precision) take further arguments, which must be integers
        code_spec = spec or ""
        for _l2, f2, _s2, _c2 in string.Formatter().parse(code_spec) if "{" in code_spec else []:
            if f2 is None:
                continue
            k2, key2 = take(f2)
            v2 = args[key2] if k2 == "pos" and key2 < len(args) else kwargs.get(key2) if k2 == "kw" else None
            if _format_kind(it, v2) != "int":
                problems.append(f"nested width/precision argument is {_format_kind(it, v2)}, not an integer")
        import re as _re

        flat = _re.sub(r"\{[^}]*\}", "", code_spec)
        code = flat[-1] if flat and flat[-1].isalpha() else ""
        if "." in field or "[" in field or conv:
            continue  # attribute / item / conversion: type of the formatted object unknown to this model
        k = _format_kind(it, val)
        if k == "object":
            if flat:
                raise Unsupported(f"str.format of a {type(val).__name__} with format spec {spec!r}")
            continue
        ok = True
        if code in ("d", "b", "o", "x", "X", "c", "n"):
            ok = k == "int"
        elif code in ("e", "E", "f", "F", "g", "G", "%"):
            ok = k in ("int", "float")
        elif code == "s":
            ok = k == "str"
        else:
            ok = k in ("int", "float", "str") or (k in ("none", "array") and flat == "")
        if not ok:
            problems.append(f"presentation type {code or '(none)'!r} in {{:{spec}}} does not accept a value of type {k}")
    frame, node = getattr(it, "cur_frame", None), getattr(it, "cur_node", None)
    name = "str.format/" + fmt[:24].replace(" ", "_")
    it.path.prove(not problems, name, kind="format", desc=f"{fmt!r}.format(...) raises nothing" + (": " + "; ".join(problems) if problems else ""), props=it.config.get("implicit_props"))
    if problems:
        raise PyRaise(ExcVal(ValueError, ("; ".join(problems),)), origin="str.format")
    return Opaque("str")


def np_searchsorted(it, a, v, side="left"):
    """k = np.searchsorted(a, v): for a SORTED a (obligation), 0 <= k <= len(a), a[p] < v for p < k, a[p] >= v for p >= k"""
    if side != "left":
        raise Unsupported("searchsorted side")
    av = _vec_of(a)
    p = it.path
    n = av.n
    p.prove(QAll(ops.scalar_bin("-", n, 1), lambda q: ops.scalar_cmp("<=", av.f(q), av.f(q + 1))), "numpy.searchsorted/sorted_argument", kind="requires", desc="np.searchsorted needs a sorted array", props=it.config.get("implicit_props"))
    k = p.int("ss")
    nv = z3.IntVal(n) if isinstance(n, int) else n
    p.assume(z3.And(k >= 0, k <= nv))
    vv = ops.to_term(v) if not isinstance(v, (int, float)) else v
    p.add_ufact(UFact(1, lambda q: z3.If(q < k, ops.to_term(av.f(q)) < vv, ops.to_term(av.f(q)) >= vv), [(0, n)], "searchsorted:partition"))
    # adjacent order (just proved) => pairwise order: the usual induction, used as a lemma
    p.add_ufact(UFact(2, lambda a_, b_: z3.Implies(a_ <= b_, ops.to_term(av.f(a_)) <= ops.to_term(av.f(b_))), [(0, n), (0, n)], "searchsorted:sorted_pairwise"))
    p.index_term(k, n)
    return k


def math_pow(it, a, b):
    """math.pow(a, b): ValueError for 0 ** negative and negative ** non-integer (domain obligations); the value is
    an uninterpreted real function with sign / monotonicity facts only.  OverflowError ('math range error') is
    outside the real-arithmetic reading (listed as assumption A-FP)."""
    if isinstance(a, (int, float)) and isinstance(b, (int, float)):
        import math

        try:
            return math.pow(a, b)
        except ValueError:
            raise PyRaise(ExcVal(ValueError, ("math domain error",)), origin="math.pow")
    p = it.path
    x, e = ops._real(a), ops._real(b)
    ok = z3.And(z3.Or(x != 0, e >= 0), z3.Or(x >= 0, z3.IsInt(e)))
    p.prove(ok, "math.pow/domain", kind="domain", desc="math.pow: base != 0 for a negative exponent, base >= 0 for a fractional one", props=it.config.get("implicit_props"))
    p.assume(ok)
    f = p.ghost.get("__pow__")
    if f is None:
        f = z3.Function("powr", z3.RealSort(), z3.RealSort(), z3.RealSort())
        p.ghost["__pow__"] = f
    r = f(x, e)
    p.assume(z3.Implies(x > 0, r > 0))
    p.assume(z3.Implies(z3.And(x >= 1, e <= 0), r <= 1))
    p.assume(z3.Implies(z3.And(x >= 1, e >= 0), r >= 1))
    p.assume(z3.Implies(z3.And(x > 0, x <= 1, e >= 0), r <= 1))
    p.assume(z3.Implies(z3.And(x == 0, e > 0), r == 0))
    p.assume(z3.Implies(e == 0, r == 1))
    return r


def math_ceil(it, v):
    if isinstance(v, (int, float)):
        import math

        return math.ceil(v)
    p = it.path
    c = p.int("ceil")
    x = ops._real(v)
    p.assume(z3.And(z3.ToReal(c) >= x, z3.ToReal(c) - 1 < x))
    return c


def math_log(it, v, base=None):
    if base is not None:
        # math.log(v, base) = ln(v) / ln(base): v > 0, base > 0 (ValueError) and base != 1 (ZeroDivisionError)
        p = it.path
        x, b = ops._real(v), ops._real(base)
        ok = z3.And(x > 0, b > 0, b != 1)
        p.prove(ok, "math.log/domain", kind="domain", desc="math.log(v, base): v > 0, base > 0, base != 1", props=it.config.get("implicit_props"))
        p.assume(ok)
        f = p.ghost.get("__logb__")
        if f is None:
            f = z3.Function("logb", z3.RealSort(), z3.RealSort(), z3.RealSort())
            p.ghost["__logb__"] = f
        r = f(x, b)
        # facts for base > 1 only (monotone increasing, log_b(1) = 0, log_b(1/b) = -1)
        p.assume(z3.Implies(z3.And(b > 1, x < 1), r < 0))
        p.assume(z3.Implies(z3.And(b > 1, x >= 1), r >= 0))
        p.assume(z3.Implies(z3.And(b > 1, x * b < 1), r < -1))
        p.assume(z3.Implies(z3.And(b > 1, x * b >= 1), r >= -1))
        return r
    if isinstance(v, (int, float)):
        import math

        if v <= 0:
            raise PyRaise(ExcVal(ValueError, ("math domain error",)), origin="math.log")
        return math.log(v)
    p = it.path
    x = ops._real(v)
    pos = x > 0
    p.prove(pos, "math.log/domain", kind="domain", desc="argument of math.log > 0", props=it.config.get("implicit_props"))
    p.assume(pos)
    log = p.ghost.get("__log__")
    if log is None:
        log = z3.Function("ln", z3.RealSort(), z3.RealSort())
        p.ghost["__log__"] = log
    return log(x)


def math_exp(it, v):
    if isinstance(v, (int, float)):
        import math

        return math.exp(v)
    p = it.path
    exp = p.ghost.get("__exp__")
    if exp is None:
        exp = z3.Function("exp", z3.RealSort(), z3.RealSort())
        p.ghost["__exp__"] = exp
    r = exp(ops._real(v))
    p.assume(r > 0)
    return r


def time_time(it):
    """ghost clock: successive reads are non-decreasing"""
    p = it.path
    t = p.real("clock")
    last = p.ghost.get("__clock__")
    if last is not None:
        p.assume(t >= last)
    p.ghost["__clock__"] = t
    p.ghost.setdefault("__clock_reads__", []).append(t)
    return t


def copy_copy(it, v):
    if isinstance(v, Arr):
        return Arr.new(v.vec(), dtype=v.dtype)
    if isinstance(v, Mat):
        from . import matmodel

        return matmodel.shallow_copy(it, v)
    if v is None:
        return None
    raise Unsupported(f"copy.copy of {type(v).__name__}")
