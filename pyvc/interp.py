"""Symbolic executor over the real Python AST of /repo (DESIGN §2.1-2.6, §2.12)."""
from __future__ import annotations

import ast
import queue
import threading
from typing import Any, Dict, List, Optional

import z3

from . import ops
from .core import EngineError, Infeasible, Path, QAll, QAnd, QAny, QOr, Unsupported, UFact, qnot, zbool, znot
from .repo import BUILTIN_EXC, ClassInfo, FuncInfo, ModuleInfo, Repo
from .values import (
    NAN,
    NINF,
    PINF,
    Arr,
    Cell,
    EnumVal,
    ExcVal,
    Inf,
    ListCell,
    Masked,
    Mat,
    NaN,
    Obj,
    Opaque,
    PyRaise,
    SymList,
    Vec,
    is_num,
    is_sym,
    lift,
)


class ReturnEx(Exception):
    def __init__(self, value):
        self.value = value


class BreakEx(Exception):
    pass


class ContinueEx(Exception):
    pass


class PathEnd(Exception):
    """Path deliberately ended (after a loop back-edge invariant check)."""


class GenKill(BaseException):
    pass


class BoundMethod:
    def __init__(self, obj, func: FuncInfo):
        self.obj = obj
        self.func = func

    def __repr__(self):
        return f"<bound {self.func.qualname} of {self.obj}>"


class Closure:
    def __init__(self, node, frame, name="<lambda>"):
        self.node = node
        self.frame = frame
        self.name = name


class PyFunc:
    """Model function supplied by the library model or a harness: fn(interp, *args, **kwargs)."""

    def __init__(self, fn, name="pyfunc"):
        self.fn = fn
        self.name = name

    def __repr__(self):
        return f"<pyfunc {self.name}>"


class LibRef:
    def __init__(self, dotted):
        self.dotted = dotted

    def __repr__(self):
        return f"<lib {self.dotted}>"


class SuperProxy:
    def __init__(self, obj, after_cls):
        self.obj = obj
        self.after_cls = after_cls


class LoggerVal:
    pass


class Frame:
    def __init__(self, func: Optional[FuncInfo], module: ModuleInfo, parent: Optional["Frame"] = None, name=None):
        self.func = func
        self.module = module
        self.parent = parent
        self.locals: Dict[str, Any] = {}
        self.name = name or (func.qualname if func else module.name)
        self.self_obj = None
        self.gen = None
        self.ordinals = None

    def site(self, kind, node):
        """stable site name: function qualname + kind + ordinal of the node among its kind"""
        root = self
        while root.func is None and root.parent is not None:
            root = root.parent
        fn = root.func
        if fn is None:
            return f"{self.name}/{kind}@{getattr(node, 'lineno', 0)}"
        if not hasattr(fn, "_ordinals"):
            ords = {}
            counters = {}
            for n in ast.walk(fn.node):
                k = _node_kind(n)
                if k:
                    counters[k] = counters.get(k, 0) + 1
                    ords[id(n)] = counters[k] - 1
            fn._ordinals = ords
        return f"{fn.qualname}/{kind}#{fn._ordinals.get(id(node), '?')}"


def _node_kind(n):
    if isinstance(n, ast.Assert):
        return "assert"
    if isinstance(n, ast.BinOp) and isinstance(n.op, ast.Div):
        return "div"
    if isinstance(n, (ast.For, ast.While)):
        return "loop"
    if isinstance(n, ast.Call):
        return "call"
    if isinstance(n, ast.Raise):
        return "raise"
    if isinstance(n, ast.Subscript):
        return "index"
    return None


class GenVal:
    """Generator object: body runs in a helper thread with strict hand-over (one runs at a time)."""

    def __init__(self, interp, finfo, frame):
        self.interp = interp
        self.finfo = finfo
        self.frame = frame
        self.to_gen = queue.Queue()
        self.from_gen = queue.Queue()
        self.thread = None
        self.done = False
        frame.gen = self

    def _run(self):
        try:
            msg = self.to_gen.get()
            if msg == "kill":
                return
            try:
                self.interp.exec_block(self.finfo.node.body, self.frame)
            except ReturnEx:
                pass
            self.from_gen.put(("return", None))
        except GenKill:
            self.from_gen.put(("killed", None))
        except BaseException as e:  # propagate everything to the consumer
            self.from_gen.put(("raise", e))

    def next(self):
        if self.done:
            raise PyRaise(ExcVal(StopIteration))
        if self.thread is None:
            self.thread = threading.Thread(target=self._run, daemon=True)
            self.thread.start()
            self.interp.generators.append(self)
        self.to_gen.put("next")
        kind, val = self.from_gen.get()
        if kind == "yield":
            return val
        self.done = True
        if kind == "raise":
            raise val
        raise PyRaise(ExcVal(StopIteration))

    def do_yield(self, v):
        self.from_gen.put(("yield", v))
        msg = self.to_gen.get()
        if msg == "kill":
            raise GenKill()
        return None

    def kill(self):
        if self.thread is not None and not self.done:
            self.done = True
            self.to_gen.put("kill")
            self.thread.join(timeout=5)


class Interp:
    def __init__(self, path: Path, repo: Repo, config=None):
        self.path = path
        self.repo = repo
        self.config = config or {}
        self.abstract: Dict[str, Any] = dict(self.config.get("abstract", {}))  # qualname -> contract fn
        self.loop_specs: Dict[str, Any] = dict(self.config.get("loops", {}))  # site -> LoopSpec
        self.lib: Dict[str, Any] = {}
        self.generators: List[GenVal] = []
        self.fuel = self.config.get("fuel", 200000)
        self.call_depth = 0
        self.hooks: Dict[str, Any] = dict(self.config.get("hooks", {}))
        self.effects: list = []  # (kind, detail) log used by frame checks
        self.observers = self.config.get("observer_names", set())
        from . import npmodel

        npmodel.install(self)

    def finish(self):
        for g in self.generators:
            g.kill()
        self.generators = []

    # ------------------------------------------------------------------ calls
    def call(self, fn, args=(), kwargs=None, node=None, frame=None):
        kwargs = kwargs or {}
        self.fuel -= 1
        if self.fuel < 0:
            raise Unsupported("execution fuel exhausted (unbounded loop without invariant?)")
        if isinstance(fn, BoundMethod):
            return self.call_func(fn.func, [fn.obj] + list(args), kwargs, self_obj=fn.obj)
        if isinstance(fn, FuncInfo):
            return self.call_func(fn, list(args), kwargs)
        if isinstance(fn, ClassInfo):
            return self.construct(fn, list(args), kwargs)
        if isinstance(fn, Closure):
            return self.call_closure(fn, list(args), kwargs)
        if isinstance(fn, PyFunc):
            return fn.fn(self, *args, **kwargs)
        if isinstance(fn, LibRef):
            m = self.lib.get(fn.dotted)
            if m is None:
                raise Unsupported(f"no library contract for {fn.dotted}")
            return m(self, *args, **kwargs)
        if isinstance(fn, type) and issubclass(fn, BaseException):
            return ExcVal(fn, args)
        if isinstance(fn, Obj) and fn.cls is not None:
            f = fn.cls.lookup("__call__")
            if f is not None:
                return self.call_func(f, [fn] + list(args), kwargs, self_obj=fn)
        if callable(fn) and getattr(fn, "_pyvc_model", False):
            return fn(self, *args, **kwargs)
        raise Unsupported(f"call of {fn!r}")

    def call_func(self, f: FuncInfo, args, kwargs, self_obj=None):
        q = f.qualname
        cov = self.path.ex.shared.setdefault("coverage", {"executed": set(), "contract": set()})
        if q in self.abstract:
            cov["contract"].add(q)
            return self.abstract[q](self, *args, **kwargs)
        cov["executed"].add(q)
        if f.is_abstract or _is_notimplemented(f):
            # dynamic dispatch to an abstract method without a contract
            key = q
            raise Unsupported(f"needs contract: abstract method {key}")
        frame = Frame(f, f.module)
        frame.self_obj = self_obj
        self.bind_params(f.node.args, args, kwargs, frame, f.module, f.qualname)
        if _has_yield(f.node):
            return GenVal(self, f, frame)
        self.call_depth += 1
        if self.call_depth > 60:
            raise Unsupported("call depth exceeded")
        try:
            self.exec_block(f.node.body, frame)
        except ReturnEx as r:
            return r.value
        finally:
            self.call_depth -= 1
        return None

    def call_closure(self, c: Closure, args, kwargs):
        frame = Frame(None, c.frame.module, parent=c.frame, name=c.frame.name + "." + c.name)
        frame.func = None
        node = c.node
        self.bind_params(node.args, args, kwargs, frame, c.frame.module, c.name, defaults_frame=c.frame)
        if isinstance(node, ast.Lambda):
            return self.eval(node.body, frame)
        try:
            self.exec_block(node.body, frame)
        except ReturnEx as r:
            return r.value
        return None

    def bind_params(self, a: ast.arguments, args, kwargs, frame, module, fname, defaults_frame=None):
        params = [p.arg for p in a.posonlyargs + a.args]
        kwargs = dict(kwargs)
        ndef = len(a.defaults)
        if len(args) > len(params) and a.vararg is None:
            raise PyRaise(ExcVal(TypeError, (f"{fname}() takes {len(params)} positional arguments but {len(args)} were given",)), origin=fname)
        for i, p in enumerate(params):
            if i < len(args):
                if p in kwargs:
                    raise PyRaise(ExcVal(TypeError, (f"{fname}() got multiple values for argument '{p}'",)), origin=fname)
                frame.locals[p] = args[i]
            elif p in kwargs:
                frame.locals[p] = kwargs.pop(p)
            else:
                di = i - (len(params) - ndef)
                if di >= 0:
                    dfr = defaults_frame or Frame(None, module, name=fname)
                    frame.locals[p] = self.eval(a.defaults[di], dfr)
                else:
                    raise PyRaise(ExcVal(TypeError, (f"{fname}() missing required positional argument: '{p}'",)), origin=fname)
        if a.vararg is not None:
            frame.locals[a.vararg.arg] = tuple(args[len(params) :])
        for k, p in enumerate(a.kwonlyargs):
            if p.arg in kwargs:
                frame.locals[p.arg] = kwargs.pop(p.arg)
            elif a.kw_defaults[k] is not None:
                frame.locals[p.arg] = self.eval(a.kw_defaults[k], defaults_frame or Frame(None, module, name=fname))
            else:
                raise PyRaise(ExcVal(TypeError, (f"{fname}() missing keyword-only argument '{p.arg}'",)), origin=fname)
        if a.kwarg is not None:
            frame.locals[a.kwarg.arg] = {"__kwargs__": True, **kwargs}
        elif kwargs:
            raise PyRaise(ExcVal(TypeError, (f"{fname}() got an unexpected keyword argument '{next(iter(kwargs))}'",)), origin=fname)

    def construct(self, cls: ClassInfo, args, kwargs):
        q = cls.qualname
        if q in self.abstract:
            return self.abstract[q](self, *args, **kwargs)
        bb = cls.builtin_base()
        if bb is not None and issubclass(bb, BaseException):
            exc = ExcVal(cls, args)
            init = cls.lookup("__init__")
            if init is not None:
                o = exc
                self.call_func(init, [o] + args, kwargs, self_obj=o)
            return exc
        if cls.is_enum:
            raise Unsupported("enum construction by value")
        obj = Obj(cls)
        if cls.is_dataclass:
            names = [n for n in cls.node.body if isinstance(n, ast.AnnAssign) and isinstance(n.target, ast.Name)]
            fr = Frame(None, cls.module, name=cls.qualname)
            for i, st in enumerate(names):
                nm = st.target.id
                if i < len(args):
                    obj.fields[nm] = args[i]
                elif nm in kwargs:
                    obj.fields[nm] = kwargs[nm]
                elif st.value is not None:
                    obj.fields[nm] = self.eval(st.value, fr)
                else:
                    raise PyRaise(ExcVal(TypeError, (f"{cls.name}() missing argument {nm}",)))
            pi = cls.lookup("__post_init__")
            if pi is not None:
                self.call_func(pi, [obj], {}, self_obj=obj)
            return obj
        init = cls.lookup("__init__")
        if init is not None:
            self.call_func(init, [obj] + args, kwargs, self_obj=obj)
        elif args or kwargs:
            raise PyRaise(ExcVal(TypeError, (f"{cls.name}() takes no arguments",)))
        return obj

    # ------------------------------------------------------------------ attribute access
    def getattr(self, v, name, frame=None):
        if isinstance(v, Obj):
            if name in v.fields:
                return v.fields[name]
            if v.cls is not None:
                f = v.cls.lookup(name)
                if f is not None:
                    return self._bind(v, f, name)
                for c in v.cls.mro():
                    if name in c.class_attrs:
                        return self.eval(c.class_attrs[name], Frame(None, c.module, name=c.qualname))
            lazy = v.fields.get("__lazy__")
            if lazy is not None:
                val = lazy(self, v, name)
                v.fields[name] = val
                return val
            if v.cls is not None and not name.startswith("__"):
                ga = v.cls.lookup("__getattr__")
                if ga is not None:
                    # normal lookup failed: Python falls back to the class's __getattr__
                    return self.call_func(ga, [v, name], {}, self_obj=v)
            raise PyRaise(ExcVal(AttributeError, (f"{v.tag} has no attribute {name}",)), origin="getattr")
        if isinstance(v, SuperProxy):
            f = v.obj.cls.lookup_after(v.after_cls, name) if isinstance(v.obj, Obj) else None
            if f is None:
                if name == "__init__":
                    return PyFunc(lambda it, *a, **k: None, "object.__init__")
                if name == "__getattribute__" and isinstance(v.obj, Obj):
                    # object.__getattribute__(self, name): plain lookup without the __getattr__ fallback
                    def plain(it, nm, o=v.obj):
                        if nm in o.fields:
                            return o.fields[nm]
                        f2 = o.cls.lookup(nm) if o.cls is not None else None
                        if f2 is not None:
                            return it._bind(o, f2, nm)
                        raise PyRaise(ExcVal(AttributeError, (f"{o.tag} has no attribute {nm}",)), origin="object.__getattribute__")

                    return PyFunc(plain, "object.__getattribute__")
                raise Unsupported(f"super().{name}")
            return BoundMethod(v.obj, f)
        if isinstance(v, ExcVal):
            if name in v.fields:
                return v.fields[name]
            if name == "args":
                return v.args
            if isinstance(v.cls, ClassInfo):
                f = v.cls.lookup(name)
                if f is not None:
                    return BoundMethod(v, f)
            raise Unsupported(f"exception attribute {name}")
        if isinstance(v, ModuleInfo):
            return self._wrap_static(self.repo.resolve_attr(v.name, name))
        if isinstance(v, ClassInfo):
            if v.is_enum and name in v.class_attrs:
                return EnumVal(v, name, _enum_value(v, name))
            f = v.lookup(name)
            if f is not None:
                return f
            raise Unsupported(f"class attribute {v.name}.{name}")
        if isinstance(v, LibRef):
            d = f"{v.dotted}.{name}"
            val = self.lib.get(d)
            if val is not None and not callable(val):
                return val
            if d in self.lib and self.lib[d] is None:
                return None
            return LibRef(d)
        if isinstance(v, LoggerVal):
            if name == "getEffectiveLevel":
                return PyFunc(lambda it: it.path.int("log_level"), "logger.getEffectiveLevel")
            if name == "getChild":
                return PyFunc(lambda it, *a: LoggerVal(), "logger.getChild")
            return PyFunc(lambda it, *a, **k: None, f"logger.{name}")
        if isinstance(v, EnumVal):
            if name == "name":
                f = v.cls.lookup("name")
                if f is not None:
                    return BoundMethod(v, f)
                return v.name
            if name == "value":
                return Opaque("enum.value")
            f = v.cls.lookup(name)
            if f is not None:
                return BoundMethod(v, f)
        from . import npmodel

        r = npmodel.getattr_value(self, v, name)
        if r is not npmodel.NOATTR:
            return r
        raise Unsupported(f"getattr {type(v).__name__}.{name}")

    def _bind(self, obj, f: FuncInfo, name):
        if f.is_property:
            return self.call_func(f, [obj], {}, self_obj=obj)
        if f.is_cached_property:
            val = self.call_func(f, [obj], {}, self_obj=obj)
            obj.fields[name] = val
            self.effects.append(("cache", obj, name))
            return val
        if f.is_static:
            return f
        return BoundMethod(obj, f)

    def setattr(self, v, name, value, frame=None):
        if isinstance(v, (Obj, ExcVal)):
            v.fields[name] = value
            self.effects.append(("setattr", v, name))
            return
        from . import npmodel

        if npmodel.setattr_value(self, v, name, value):
            return
        raise Unsupported(f"setattr on {type(v).__name__}.{name}")

    def _wrap_static(self, r):
        if isinstance(r, tuple):
            if r[0] == "lib":
                val = self.lib.get(r[1])
                if val is not None and not callable(val):
                    return val
                return LibRef(r[1])
            if r[0] == "global":
                return self.module_global(r[1], r[2])
            if r[0] == "classattr":
                return self.getattr(r[1], r[2])
        return r

    def module_global(self, module: ModuleInfo, name):
        key = (module.name, name)
        cache = self.path.ghost.setdefault("__globals__", {})
        if key in cache:
            return cache[key]
        node = module.globals_[name]
        if name in ("logger", "lgg") or (isinstance(node, ast.Call) and "getLogger" in ast.dump(node.func)) or (
            isinstance(node, ast.Call) and "getChild" in ast.dump(node.func)
        ):
            val = LoggerVal()
        else:
            val = self.eval(node, Frame(None, module, name=module.name))
        cache[key] = val
        return val

    # ------------------------------------------------------------------ names
    def lookup(self, name, frame: Frame):
        fr = frame
        while fr is not None:
            if name in fr.locals:
                return fr.locals[name]
            fr = fr.parent
        r = frame.module.resolve(name)
        if r is not None:
            return self._wrap_static(r)
        from . import npmodel

        if name in npmodel.BUILTINS:
            return npmodel.BUILTINS[name]
        if name in BUILTIN_EXC:
            return BUILTIN_EXC[name]
        # a local that is assigned somewhere in the function but not on this path
        if _assigned_in(frame, name):
            raise PyRaise(ExcVal(BUILTIN_EXC["UnboundLocalError"], (f"local variable '{name}' referenced before assignment",)), origin=frame.name)
        raise Unsupported(f"unknown name {name} in {frame.name}")

    # ------------------------------------------------------------------ statements
    def exec_block(self, body, frame):
        for st in body:
            self.exec_stmt(st, frame)

    def _shape_obligation(self, lens):
        """element-wise operation on arrays: numpy raises ValueError ('operands could not be broadcast together')
        unless the lengths agree (length-1 operands broadcast)"""
        if not self.config.get("shape_obligations", True):
            return
        frame = getattr(self, "cur_frame", None)
        if frame is None:
            return
        base = None
        conds = []
        for n in lens:
            if isinstance(n, int) and n == 1:
                continue
            if base is None:
                base = n
                continue
            if n is base or (isinstance(n, int) and isinstance(base, int) and n == base):
                continue
            if isinstance(n, int) and isinstance(base, int):
                conds.append(False)
                continue
            a = z3.IntVal(n) if isinstance(n, int) else n
            b = z3.IntVal(base) if isinstance(base, int) else base
            if z3.eq(z3.simplify(a - b), z3.IntVal(0)):
                continue
            conds.append(a == b)
        if not conds:
            return
        root = frame
        while root.func is None and root.parent is not None:
            root = root.parent
        name = f"{root.func.qualname if root.func is not None else frame.name}/shape"
        goal = False if any(c is False for c in conds) else z3.And(*conds)
        st = getattr(self, "cur_stmt", None)
        self.path.prove(goal, name, kind="shape", desc=f"operands of an element-wise operation have the same length (line {getattr(st, 'lineno', '?')}: `{ast.unparse(st)[:80] if st is not None else ''}`)", props=self.config.get("implicit_props"))
        if goal is not False:
            self.path.assume(goal)

    def exec_stmt(self, st, frame):
        self.cur_frame, self.cur_stmt = frame, st
        from . import ops as _ops

        _ops.SHAPE_HOOK = self._shape_obligation
        self.fuel -= 1
        if self.fuel < 0:
            raise Unsupported("execution fuel exhausted")
        m = getattr(self, "s_" + type(st).__name__, None)
        if m is None:
            raise Unsupported(f"statement {type(st).__name__} at {frame.name}:{getattr(st, 'lineno', '?')}")
        return m(st, frame)

    def s_Expr(self, st, frame):
        if isinstance(st.value, ast.Constant):
            return  # docstring
        self.eval(st.value, frame)

    def s_Pass(self, st, frame):
        pass

    def s_Import(self, st, frame):
        for a in st.names:
            nm = a.asname or a.name.split(".")[0]
            m = self.repo.try_module(a.name)
            frame.locals[nm] = m if m is not None else LibRef(a.name if a.asname else a.name.split(".")[0])

    def s_ImportFrom(self, st, frame):
        mod = frame.module._abs_module(st.module, st.level)
        for a in st.names:
            frame.locals[a.asname or a.name] = self._wrap_static(self.repo.resolve_attr(mod, a.name))

    def s_FunctionDef(self, st, frame):
        frame.locals[st.name] = Closure(st, frame, st.name)

    def s_Return(self, st, frame):
        raise ReturnEx(self.eval(st.value, frame) if st.value is not None else None)

    def s_Break(self, st, frame):
        raise BreakEx()

    def s_Continue(self, st, frame):
        raise ContinueEx()

    def s_Assign(self, st, frame):
        v = self.eval(st.value, frame)
        for t in st.targets:
            self.assign(t, v, frame)

    def s_AnnAssign(self, st, frame):
        if st.value is not None:
            self.assign(st.target, self.eval(st.value, frame), frame)

    def s_AugAssign(self, st, frame):
        from . import npmodel

        cur = self.eval(_as_load(st.target), frame)
        rhs = self.eval(st.value, frame)
        if isinstance(cur, (Arr, Mat)) :
            # numpy in-place operator: writes through the existing cell
            if npmodel.inplace_binop(self, cur, st.op, rhs, frame, st):
                return
        if isinstance(cur, ListCell) and isinstance(st.op, ast.Add):
            npmodel.list_extend(self, cur, rhs)
            return
        v = self.binop(st.op, cur, rhs, frame, st)
        self.assign(st.target, v, frame)

    def assign(self, target, v, frame):
        from . import npmodel

        if isinstance(target, ast.Name):
            frame.locals[target.id] = v
        elif isinstance(target, ast.Attribute):
            self.setattr(self.eval(target.value, frame), target.attr, v, frame)
        elif isinstance(target, (ast.Tuple, ast.List)):
            items = npmodel.unpack(self, v, len(target.elts))
            for t, x in zip(target.elts, items):
                self.assign(t, x, frame)
        elif isinstance(target, ast.Subscript):
            base = self.eval(target.value, frame)
            idx = self.eval_index(target.slice, frame)
            npmodel.setitem(self, base, idx, v, frame, target)
        else:
            raise Unsupported(f"assignment target {type(target).__name__}")

    def s_If(self, st, frame):
        if self.truth(self.eval(st.test, frame)):
            self.exec_block(st.body, frame)
        else:
            self.exec_block(st.orelse, frame)

    def s_Assert(self, st, frame):
        cond = self.eval(st.test, frame)
        site = frame.site("assert", st)
        g = self.as_goal(cond)
        src = ast.unparse(st.test)
        if g is True:
            # decided by the path condition / structurally: recorded so that the assert counts as covered
            self.path.prove(True, site, kind="assert", desc=f"assert {src}", props=self.config.get("implicit_props"))
            return
        ok = self.path.prove(g, site, kind="assert", desc=f"assert {src}", props=self.config.get("implicit_props"))
        # continue under the assumption (obligation + continue, DESIGN §2.6)
        self.path.assume(g if not isinstance(g, bool) else g)

    def s_Raise(self, st, frame):
        if st.exc is None:
            cur = frame.locals.get("__current_exc__")
            fr = frame
            while cur is None and fr.parent is not None:
                fr = fr.parent
                cur = fr.locals.get("__current_exc__")
            if cur is None:
                raise Unsupported("bare raise outside handler")
            raise PyRaise(cur, origin=frame.site("raise", st))
        e = self.eval(st.exc, frame)
        if isinstance(e, ClassInfo) or (isinstance(e, type) and issubclass(e, BaseException)):
            e = self.call(e, [], {})
        if not isinstance(e, ExcVal):
            raise Unsupported(f"raise of non-exception {e!r}")
        if st.cause is not None:
            e.cause = self.eval(st.cause, frame)
        raise PyRaise(e, origin=frame.site("raise", st))

    def s_Try(self, st, frame):
        try:
            try:
                self.exec_block(st.body, frame)
            except PyRaise as pr:
                for h in st.handlers:
                    if self._handler_matches(h, pr.exc, frame):
                        if h.name:
                            frame.locals[h.name] = pr.exc
                        saved = frame.locals.get("__current_exc__")
                        frame.locals["__current_exc__"] = pr.exc
                        try:
                            self.exec_block(h.body, frame)
                        finally:
                            frame.locals["__current_exc__"] = saved
                        break
                else:
                    raise
            else:
                self.exec_block(st.orelse, frame)
        finally:
            if st.finalbody:
                self.exec_block(st.finalbody, frame)

    def _handler_matches(self, h, exc: ExcVal, frame):
        if h.type is None:
            return True
        t = self.eval(h.type, frame)
        ts = t if isinstance(t, tuple) else (t,)
        return any(exc.isinstance_of(x) for x in ts)

    def s_While(self, st, frame):
        site = frame.site("loop", st)
        spec = self.loop_specs.get(site)
        if spec is not None:
            if hasattr(spec, "sequence"):
                raise Unsupported(f"the loop contract registered for {site} describes a `for` loop, the code now has a `while` loop there (loop restructured: the contract does not apply)")
            return self._loop_with_invariant(st, frame, spec, site)
        n = 0
        while True:
            if not self.truth(self.eval(st.test, frame)):
                self.exec_block(st.orelse, frame)
                return
            n += 1
            if n > 200:
                raise Unsupported(f"while loop at {site} needs an invariant (200 iterations)")
            try:
                self.exec_block(st.body, frame)
            except BreakEx:
                return
            except ContinueEx:
                continue

    def s_For(self, st, frame):
        from . import npmodel

        site = frame.site("loop", st)
        spec = self.loop_specs.get(site)
        it = self.eval(st.iter, frame)
        if spec is not None:
            if not hasattr(spec, "sequence"):
                raise Unsupported(f"the loop contract registered for {site} describes a `while` loop, the code now has a `for` loop there (loop restructured: the contract does not apply)")
            return self._for_with_invariant(st, frame, spec, site, it)
        items = npmodel.iterate(self, it, site)
        for x in items:
            self.assign(st.target, x, frame)
            try:
                self.exec_block(st.body, frame)
            except BreakEx:
                return
            except ContinueEx:
                continue
        self.exec_block(st.orelse, frame)

    def _loop_with_invariant(self, st, frame, spec, site):
        """while-loop under a sidecar invariant: establish / havoc+assume / body once / preserve."""
        spec.establish(self, frame, site)
        # the body is explored from the havoc state once per configuration signature: later prologue
        # paths with the same signature only have to establish the invariant
        sig = (site, spec.signature(self, frame))
        done = self.path.ex.shared.setdefault("loops", {})
        here = tuple(self.path.decisions)
        if sig in done and done[sig] != here:
            raise PathEnd()
        done[sig] = here
        spec.havoc(self, frame, site)
        if not self.truth(self.eval(st.test, frame)):
            self.exec_block(st.orelse, frame)
            return
        try:
            self.exec_block(st.body, frame)
        except BreakEx:
            spec.at_break(self, frame, site)
            return
        except ContinueEx:
            pass
        spec.preserve(self, frame, site)
        raise PathEnd()

    def _for_with_invariant(self, st, frame, spec, site, it):
        """for-loop over a symbolic-length sequence under a sidecar invariant indexed by k."""
        seq = spec.sequence(self, frame, it)  # -> (n, item_at(k))
        n, item_at = seq
        spec.establish(self, frame, site, n)
        # arbitrary iteration k
        if self.path.choose(f"{site}:iter-or-exit"):
            k = self.path.int("k")
            self.path.index_term(k, n)
            self.path.assume(z3.And(k >= 0, k < n))
            spec.havoc(self, frame, site, k, n)
            self.assign(st.target, item_at(k), frame)
            try:
                self.exec_block(st.body, frame)
            except ContinueEx:
                pass
            except BreakEx:
                spec.at_break(self, frame, site, k, n)
                return
            spec.preserve(self, frame, site, k, n)
            raise PathEnd()
        else:
            spec.havoc(self, frame, site, n, n)
            self.exec_block(st.orelse, frame)

    # ------------------------------------------------------------------ truthiness
    def truth(self, v) -> bool:
        if isinstance(v, bool):
            return v
        if v is None:
            return False
        if isinstance(v, (QAll, QAny, QAnd, QOr)):
            return self.path.branch(v)
        if is_sym(v):
            if z3.is_bool(v):
                return self.path.branch(v)
            return self.path.branch(v != 0)
        if isinstance(v, (int, float)):
            return v != 0
        if isinstance(v, str):
            return len(v) > 0
        if isinstance(v, (list, tuple, dict, set)):
            return len(v) > 0
        if isinstance(v, ListCell):
            if isinstance(v.val, list):
                return len(v.val) > 0
            return self.path.branch(v.val.n > 0)
        if isinstance(v, (Inf,)):
            return True
        if isinstance(v, (Obj, BoundMethod, Closure, PyFunc, FuncInfo, ClassInfo, EnumVal, Opaque, Mat, LoggerVal, ExcVal, GenVal)):
            if isinstance(v, Opaque) and v.tag == "maybe-none":
                return self.path.choose("opaque-truth")
            return True
        raise Unsupported(f"truth value of {type(v).__name__}")

    def as_goal(self, v):
        """condition value -> goal (bool | z3 Bool | Q*)"""
        if isinstance(v, (bool, QAll, QAny, QAnd, QOr)):
            return v
        if v is None:
            return False
        if is_sym(v):
            return v if z3.is_bool(v) else (v != 0)
        if isinstance(v, (int, float)):
            return v != 0
        if isinstance(v, (Obj, Opaque, Mat, BoundMethod, Closure, EnumVal)):
            return True
        if isinstance(v, (tuple, list, str)):
            return len(v) > 0
        raise Unsupported(f"goal from {type(v).__name__}")

    # ------------------------------------------------------------------ expressions
    def eval(self, node, frame):
        m = getattr(self, "e_" + type(node).__name__, None)
        if m is None:
            raise Unsupported(f"expression {type(node).__name__} at {frame.name}:{getattr(node, 'lineno', '?')}")
        return m(node, frame)

    def e_Constant(self, node, frame):
        return node.value

    def e_Name(self, node, frame):
        return self.lookup(node.id, frame)

    def e_Attribute(self, node, frame):
        return self.getattr(self.eval(node.value, frame), node.attr, frame)

    def e_Tuple(self, node, frame):
        out = []
        for e in node.elts:
            if isinstance(e, ast.Starred):
                out.extend(self._iter_concrete(self.eval(e.value, frame)))
            else:
                out.append(self.eval(e, frame))
        return tuple(out)

    def e_List(self, node, frame):
        return ListCell([self.eval(e, frame) for e in node.elts])

    def e_Dict(self, node, frame):
        d = {}
        for k, v in zip(node.keys, node.values):
            d[self.eval(k, frame)] = self.eval(v, frame)
        return d

    def e_Set(self, node, frame):
        return set(self.eval(e, frame) for e in node.elts)

    def e_JoinedStr(self, node, frame):
        for v in node.values:
            if isinstance(v, ast.FormattedValue):
                self.eval(v.value, frame)
        return Opaque("str")

    def e_Lambda(self, node, frame):
        return Closure(node, frame)

    def e_IfExp(self, node, frame):
        if self.truth(self.eval(node.test, frame)):
            return self.eval(node.body, frame)
        return self.eval(node.orelse, frame)

    def e_BoolOp(self, node, frame):
        is_and = isinstance(node.op, ast.And)
        v = None
        for e in node.values:
            v = self.eval(e, frame)
            t = self.truth(v)
            if is_and and not t:
                return v if not _is_boolish(v) else False
            if not is_and and t:
                return v if not _is_boolish(v) else True
        return v if not _is_boolish(v) else is_and

    def e_UnaryOp(self, node, frame):
        from . import npmodel

        v = self.eval(node.operand, frame)
        if isinstance(node.op, ast.Not):
            if isinstance(v, (QAll, QAny, QAnd, QOr)):
                return qnot(v)
            if is_sym(v) and z3.is_bool(v):
                return z3.Not(v)
            return not self.truth(v)
        if isinstance(node.op, ast.USub):
            return npmodel.neg(self, v)
        if isinstance(node.op, ast.UAdd):
            return v
        if isinstance(node.op, ast.Invert):
            return npmodel.invert(self, v)
        raise Unsupported("unary op")

    def e_BinOp(self, node, frame):
        a = self.eval(node.left, frame)
        b = self.eval(node.right, frame)
        return self.binop(node.op, a, b, frame, node)

    def binop(self, op, a, b, frame, node):
        from . import npmodel

        return npmodel.binop(self, op, a, b, frame, node)

    def e_Compare(self, node, frame):
        from . import npmodel

        left = self.eval(node.left, frame)
        result = None
        for op, rn in zip(node.ops, node.comparators):
            right = self.eval(rn, frame)
            r = npmodel.compare(self, op, left, right)
            if result is None:
                result = r
            else:
                result = npmodel.logical_and(self, result, r)
            left = right
        return result

    def e_Subscript(self, node, frame):
        from . import npmodel

        base = self.eval(node.value, frame)
        idx = self.eval_index(node.slice, frame)
        return npmodel.getitem(self, base, idx, frame, node)

    def eval_index(self, s, frame):
        if isinstance(s, ast.Slice):
            return slice(
                self.eval(s.lower, frame) if s.lower is not None else None,
                self.eval(s.upper, frame) if s.upper is not None else None,
                self.eval(s.step, frame) if s.step is not None else None,
            )
        if isinstance(s, ast.Tuple):
            return tuple(self.eval_index(e, frame) for e in s.elts)
        return self.eval(s, frame)

    def e_Slice(self, node, frame):
        return self.eval_index(node, frame)

    def e_Starred(self, node, frame):
        raise Unsupported("starred expression")

    def e_Yield(self, node, frame):
        fr = frame
        while fr is not None and fr.gen is None:
            fr = fr.parent
        if fr is None:
            raise Unsupported("yield outside generator")
        v = self.eval(node.value, frame) if node.value is not None else None
        return fr.gen.do_yield(v)

    def e_ListComp(self, node, frame):
        from . import npmodel

        return npmodel.list_comp(self, node, frame)

    def e_GeneratorExp(self, node, frame):
        from . import npmodel

        return npmodel.GenExp(node, frame)

    def e_DictComp(self, node, frame):
        from . import npmodel

        if len(node.generators) != 1:
            raise Unsupported("dict comprehension")
        g = node.generators[0]
        it = self.eval(g.iter, frame)
        items = npmodel.iterate(self, it, "dictcomp")
        d = {}
        for x in items:
            fr = Frame(None, frame.module, parent=frame, name=frame.name)
            self.assign(g.target, x, fr)
            if all(self.truth(self.eval(c, fr)) for c in g.ifs):
                d[self.eval(node.key, fr)] = self.eval(node.value, fr)
        return d

    def e_Call(self, node, frame):
        from . import npmodel

        # super()
        if isinstance(node.func, ast.Name) and node.func.id == "super" and not node.args:
            fr = frame
            while fr is not None and fr.func is None:
                fr = fr.parent
            if fr is None or fr.func.cls is None:
                raise Unsupported("super() outside method")
            return SuperProxy(fr.self_obj, fr.func.cls)
        fn = self.eval(node.func, frame)
        args = []
        for a in node.args:
            if isinstance(a, ast.Starred):
                args.extend(self._iter_concrete(self.eval(a.value, frame)))
            else:
                args.append(self.eval(a, frame))
        kwargs = {}
        for k in node.keywords:
            if k.arg is None:
                d = self.eval(k.value, frame)
                if isinstance(d, dict):
                    kwargs.update({kk: vv for kk, vv in d.items() if kk != "__kwargs__"})
                else:
                    raise Unsupported("** of non-dict")
            else:
                kwargs[k.arg] = self.eval(k.value, frame)
        hook = self.hooks.get("call")
        if hook is not None:
            hook(self, fn, args, kwargs, node, frame)
        try:
            return self.call(fn, args, kwargs, node=node, frame=frame)
        except PyRaise as pr:
            if not pr.origin:
                pr.origin = frame.site("call", node)
            raise

    def _iter_concrete(self, v):
        if isinstance(v, (tuple, list)):
            return list(v)
        if isinstance(v, ListCell) and isinstance(v.val, list):
            return list(v.val)
        raise Unsupported("starred symbolic sequence")


def _enum_value(cls, name, depth=0):
    """value of a Flag/Enum member given by a constant expression (1 << k, A | B); None for auto()"""
    node = cls.class_attrs.get(name)

    def ev(n):
        if isinstance(n, ast.Constant):
            return n.value
        if isinstance(n, ast.Name) and n.id in cls.class_attrs and depth < 5:
            return _enum_value(cls, n.id, depth + 1)
        if isinstance(n, ast.BinOp):
            a, b = ev(n.left), ev(n.right)
            if a is None or b is None:
                return None
            if isinstance(n.op, ast.LShift):
                return a << b
            if isinstance(n.op, ast.BitOr):
                return a | b
            if isinstance(n.op, ast.BitAnd):
                return a & b
        return None

    return ev(node) if node is not None else None


def _is_boolish(v):
    return isinstance(v, bool) or (is_sym(v) and z3.is_bool(v)) or isinstance(v, (QAll, QAny, QAnd, QOr))


def _as_load(t):
    import copy

    t2 = copy.copy(t)
    t2.ctx = ast.Load()
    return t2


def _has_yield(fnode):
    for n in ast.walk(fnode):
        if isinstance(n, (ast.Yield, ast.YieldFrom)):
            return True
    return False


def _is_notimplemented(f: FuncInfo):
    body = [s for s in f.node.body if not (isinstance(s, ast.Expr) and isinstance(s.value, ast.Constant))]
    if len(body) == 1 and isinstance(body[0], ast.Raise) and body[0].exc is not None:
        d = ast.dump(body[0].exc)
        return "NotImplementedError" in d
    return False


def _assigned_in(frame: Frame, name):
    fr = frame
    while fr is not None and fr.func is None:
        fr = fr.parent
    if fr is None:
        return False
    for n in ast.walk(fr.func.node):
        if isinstance(n, ast.Name) and n.id == name and isinstance(n.ctx, ast.Store):
            return True
    return False
