"""Replay files: the failed obligation, the solver's counter-model and (where one exists) a concrete input
that makes the REAL code violate the contract."""
from __future__ import annotations

import hashlib
import json
import os
import sys


def write_replay(root, prop, full, d, unit_result, natives):
    h = hashlib.sha256(full.encode()).hexdigest()[:12]
    path = os.path.join(root, "replay", prop, f"{h}.json")
    doc = {"property": prop, "obligation": full, "goal": d.get("goal")}
    found = False
    if "native" in d:
        doc["kind"] = "native-counterexample"
        doc["input"] = d["native"].get("input")
        doc["observed"] = d["native"].get("observed")
        doc["unit"] = full.split("::")[0].replace("native:", "")
        doc["label"] = d["native"].get("label")
        found = True
    else:
        unit = full.split("::")[0]
        doc["kind"] = "failed-proof-obligation"
        doc["unit"] = unit
        doc["solver_model"] = d.get("model")
        doc["solver_model_values"] = d.get("model_values")
        doc["path"] = d.get("path")
        doc["functions"] = (unit_result or {}).get("functions")
        # replay: unit-specific replayer on the model, then the unit's bounded native sweep
        from . import native

        rp = native.REPLAYERS.get(unit)
        if rp is not None:
            try:
                w = rp(d.get("model_values") or {}, full.split("::", 1)[1])
                if w:
                    doc["replayed_input"] = w
                    found = True
            except Exception as e:  # replay failure is not a verdict
                doc["replay_error"] = f"{type(e).__name__}: {e}"
        if not found and natives:
            # a concrete failing run of the real code found by the bounded native sweeps of this property
            for nn, nat in natives.items():
                if nat and nat.get("failures"):
                    doc["replayed_input"] = dict(nat["failures"][0], native_check=nn)
                    found = True
                    break
        if not found:
            doc["note"] = "no-failing-input-found: the verifier's counter-model could not be turned into a concrete run of the real code"
    doc["failing_input_found"] = found
    with open(path, "w") as f:
        json.dump(doc, f, indent=1, default=str)
    return path, found


def main(path):
    with open(path) as f:
        doc = json.load(f)
    print(json.dumps({k: doc.get(k) for k in ("property", "obligation", "kind", "failing_input_found")}, indent=1))
    from .driver import load_contracts
    from . import native

    load_contracts()
    unit = doc.get("unit")
    inp = doc.get("input") or doc.get("replayed_input")
    fn = native.NATIVE.get(unit)
    if fn is None or inp is None:
        print("no native re-execution available for this replay file")
        return 0
    out = fn(tier="quick", seed=0, only=inp if "label" not in inp else inp.get("input"))
    print(json.dumps(out, indent=1, default=str)[:3000])
    return 1 if out.get("failures") else 0
