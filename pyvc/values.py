"""Symbolic value model (DESIGN §2.3): scalars are z3 terms / python numbers, vectors are closures index->term."""
from __future__ import annotations

from typing import Any, Callable, Optional

import z3

from .core import EngineError, Path, QAll, QAny, Unsupported, real_of_float, zbool, znot


class Inf:
    def __init__(self, sign=1):
        self.sign = sign

    def __repr__(self):
        return "+inf" if self.sign > 0 else "-inf"


class NaN:
    def __repr__(self):
        return "nan"


PINF, NINF, NAN = Inf(1), Inf(-1), NaN()


class Opaque:
    """A value the engine never looks into (format strings, rcond, handles...)."""

    def __init__(self, tag="opaque", payload=None):
        self.tag = tag
        self.payload = payload

    def __repr__(self):
        return f"<opaque {self.tag}>"


class EnumVal:
    def __init__(self, cls, name, value=None):
        self.cls = cls
        self.name = name
        self.value = value

    def __eq__(self, o):
        return isinstance(o, EnumVal) and o.cls is self.cls and o.name == self.name

    def __hash__(self):
        return hash((id(self.cls), self.name))

    def __repr__(self):
        return f"{self.cls.name}.{self.name}"


class Obj:
    """Instance of a package class: record of fields; identity = python identity."""

    _n = 0

    def __init__(self, cls, fields=None, tag=None):
        self.cls = cls
        self.fields = dict(fields or {})
        Obj._n += 1
        self.tag = tag or f"{cls.name if cls is not None else 'obj'}#{Obj._n}"
        self.region = "FRESH"

    def __repr__(self):
        return f"<{self.tag}>"


class ExcVal:
    def __init__(self, cls, args=(), cause=None):
        self.cls = cls  # ClassInfo or builtin exception type
        self.args = tuple(args)
        self.cause = cause
        self.fields = {}

    def isinstance_of(self, other) -> bool:
        from .repo import ClassInfo

        if isinstance(self.cls, ClassInfo):
            return self.cls.is_subclass_of(other)
        if isinstance(other, ClassInfo):
            return False
        return issubclass(self.cls, other)

    def name(self):
        return self.cls.name if hasattr(self.cls, "name") else self.cls.__name__

    def __repr__(self):
        return f"<exc {self.name()}{self.args if self.args else ''}>"


class PyRaise(Exception):
    """A Python-level exception travelling through the interpreted program."""

    def __init__(self, exc: ExcVal, origin=""):
        self.exc = exc
        self.origin = origin
        super().__init__(repr(exc))


# ----------------------------------------------------------------------------
# vectors


class Vec:
    """Immutable 1-D array value: length n (int or z3 Int) and element closure f(i)->term."""

    def __init__(self, n, f: Callable[[Any], Any], kind="real", arr=None, name=None):
        self.n = n
        self.f = f
        self.kind = kind  # real | int | bool
        self.arr = arr  # optional z3 Array term equal to this vector
        self.name = name

    def at(self, i):
        return self.f(i)

    def as_array(self):
        if self.arr is not None:
            return self.arr
        i = z3.Int("__li")
        body = self.f(i)
        body = lift(body, self.kind)
        try:
            sb = z3.simplify(body)
            if z3.is_select(sb) and z3.eq(sb.arg(1), i) and z3.is_const(sb.arg(0)):
                # the vector is, pointwise and syntactically, an existing array (e.g. 0*c + y): same array term,
                # so uninterpreted functions of the whole vector (dot, mv, mtv, norms) agree by congruence
                self.arr = sb.arg(0)
                return self.arr
            body = sb
        except Exception:  # noqa
            pass
        self.arr = z3.Lambda([i], body)
        return self.arr


def lift(v, kind="real"):
    """python number / bool -> z3 term of the given kind"""
    if isinstance(v, bool):
        return z3.BoolVal(v) if kind == "bool" else (z3.RealVal(int(v)) if kind == "real" else z3.IntVal(int(v)))
    if isinstance(v, int):
        return z3.RealVal(v) if kind == "real" else z3.IntVal(v)
    if isinstance(v, float):
        if kind == "int":
            raise EngineError("float into int vector")
        return real_of_float(v)
    if isinstance(v, (Inf, NaN)):
        raise Unsupported("infinite/NaN element inside a symbolic vector")
    if z3.is_fp(v):
        return v
    if kind == "real" and z3.is_int(v):
        return z3.ToReal(v)
    return v


class Cell:
    """Mutable storage of one allocation; carries the ownership region (DESIGN §2.6)."""

    _n = 0

    def __init__(self, val: Vec, region="FRESH", dtype="float"):
        self.val = val
        self.region = region
        self.writeable = True
        self.dtype = dtype  # float | int | bool
        Cell._n += 1
        self.id = Cell._n


class Arr:
    """A numpy 1-D array reference: (cell, offset, length) - slices share the cell."""

    def __init__(self, cell: Cell, lo=0, n=None, col2d=False):
        self.cell = cell
        self.lo = lo
        self.n = cell.val.n if n is None else n
        self.col2d = col2d  # an (n, 1) column view of the same data

    @staticmethod
    def new(vec: Vec, region="FRESH", dtype=None):
        if dtype is None:
            dtype = {"real": "float", "int": "int", "bool": "bool"}[vec.kind]
        return Arr(Cell(vec, region, dtype))

    @property
    def kind(self):
        return self.cell.val.kind

    @property
    def dtype(self):
        return self.cell.dtype

    def vec(self) -> Vec:
        v = self.cell.val
        if isinstance(self.lo, int) and self.lo == 0 and self.n is v.n:
            return v
        lo = self.lo
        return Vec(self.n, lambda i: v.f(i + lo), v.kind)

    def store_vec(self, new: Vec):
        """whole-range store through this reference"""
        old = self.cell.val
        lo, n = self.lo, self.n
        if isinstance(lo, int) and lo == 0 and n is old.n:
            self.cell.val = Vec(old.n, new.f, old.kind)
        else:
            self.cell.val = Vec(
                old.n, lambda i: z3.If(z3.And(i >= lo, i < lo + n), lift(new.f(i - lo), old.kind), lift(old.f(i), old.kind)), old.kind
            )


class Masked:
    """v[mask] kept as a view (DESIGN §2.12): same-mask element-wise ops stay pointwise."""

    def __init__(self, vec: Vec, mask: Vec):
        self.vec = vec
        self.mask = mask


class SymList:
    """Python list of symbolic length: elements by index closure (tuples of terms allowed)."""

    def __init__(self, n, f, name="list"):
        self.n = n
        self.f = f
        self.name = name


class ListCell:
    """mutable python list object (identity) whose value is a concrete python list or a SymList"""

    def __init__(self, val):
        self.val = val


# ----------------------------------------------------------------------------
# matrices (entry-wise) and abstract linear maps


class Mat:
    """Sparse/dense matrix value: entry closure e(i,j); `sym` optional uninterpreted tag for mv/mtv."""

    _n = 0

    def __init__(self, rows, cols, entry=None, name=None, region="FRESH", fmt="coo", coo=None, transposed_of=None):
        self.rows = rows
        self.cols = cols
        self.entry = entry
        Mat._n += 1
        self.name = name or f"M{Mat._n}"
        self.region = region
        self.fmt = fmt
        self.coo = coo  # optional (nnz, rowArr, colArr, dataArr)
        self.transposed_of = transposed_of
        self.data_cell = None


def is_sym(v):
    return isinstance(v, z3.ExprRef)


def is_num(v):
    return isinstance(v, (int, float)) and not isinstance(v, bool)
