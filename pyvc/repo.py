"""Locate the real source: parse /repo/pygradflow/** on every run, index classes/functions/imports."""
from __future__ import annotations

import ast
import os
from typing import Dict, Optional

from .core import EngineError, Unsupported, sha

REPO = os.environ.get("PYVC_REPO", "/repo")


class FuncInfo:
    def __init__(self, module: "ModuleInfo", node, cls: Optional["ClassInfo"] = None):
        self.module = module
        self.node = node
        self.cls = cls
        self.name = node.name
        self.decorators = [_dotted(d) for d in node.decorator_list]

    @property
    def qualname(self):
        if self.cls is not None:
            return f"{self.module.name}.{self.cls.name}.{self.name}"
        return f"{self.module.name}.{self.name}"

    @property
    def is_property(self):
        return "property" in self.decorators

    @property
    def is_cached_property(self):
        return any(d and d.endswith("cached_property") for d in self.decorators)

    @property
    def is_static(self):
        return "staticmethod" in self.decorators

    @property
    def is_abstract(self):
        return any(d and d.endswith("abstractmethod") for d in self.decorators)

    def source(self):
        return ast.get_source_segment(self.module.text, self.node) or ""

    def hash(self):
        return sha(self.source())

    def __repr__(self):
        return f"<func {self.qualname}>"


class ClassInfo:
    def __init__(self, module: "ModuleInfo", node: ast.ClassDef):
        self.module = module
        self.node = node
        self.name = node.name
        self.methods: Dict[str, FuncInfo] = {}
        self.class_attrs: Dict[str, ast.AST] = {}
        self.base_exprs = node.bases
        for st in node.body:
            if isinstance(st, ast.FunctionDef):
                self.methods[st.name] = FuncInfo(module, st, self)
            elif isinstance(st, ast.Assign) and len(st.targets) == 1 and isinstance(st.targets[0], ast.Name):
                self.class_attrs[st.targets[0].id] = st.value
            elif isinstance(st, ast.AnnAssign) and isinstance(st.target, ast.Name) and st.value is not None:
                self.class_attrs[st.target.id] = st.value
        self.is_enum = any(_dotted(b) in ("Enum", "Flag", "enum.Enum", "enum.Flag") for b in node.bases)
        self.is_dataclass = any(_dotted(d) in ("dataclass", "dataclasses.dataclass") for d in node.decorator_list)

    @property
    def qualname(self):
        return f"{self.module.name}.{self.name}"

    def bases(self):
        """Resolved base classes: ClassInfo for package classes, python type for builtins, None if unknown."""
        out = []
        for b in self.base_exprs:
            d = _dotted(b)
            r = self.module.resolve(d) if d else None
            if isinstance(r, ClassInfo):
                out.append(r)
            elif d in BUILTIN_EXC:
                out.append(BUILTIN_EXC[d])
            else:
                out.append(None)
        return out

    def mro(self):
        out = [self]
        for b in self.bases():
            if isinstance(b, ClassInfo):
                for c in b.mro():
                    if c not in out:
                        out.append(c)
        return out

    def builtin_base(self):
        for c in self.mro():
            for b in c.bases():
                if isinstance(b, type):
                    return b
        return None

    def lookup(self, name) -> Optional[FuncInfo]:
        for c in self.mro():
            if name in c.methods:
                return c.methods[name]
        return None

    def lookup_after(self, after_cls: "ClassInfo", name) -> Optional[FuncInfo]:
        m = self.mro()
        i = m.index(after_cls)
        for c in m[i + 1 :]:
            if name in c.methods:
                return c.methods[name]
        return None

    def is_subclass_of(self, other) -> bool:
        if isinstance(other, ClassInfo):
            return other in self.mro()
        bb = self.builtin_base()
        return bb is not None and isinstance(other, type) and issubclass(bb, other)

    def __repr__(self):
        return f"<class {self.qualname}>"


BUILTIN_EXC = {
    n: getattr(__import__("builtins"), n)
    for n in (
        "Exception",
        "ValueError",
        "RuntimeError",
        "AssertionError",
        "TypeError",
        "NotImplementedError",
        "StopIteration",
        "ZeroDivisionError",
        "KeyError",
        "IndexError",
        "ArithmeticError",
        "OverflowError",
        "BaseException",
        "AttributeError",
        "UnboundLocalError",
    )
}


def _dotted(node) -> Optional[str]:
    if isinstance(node, ast.Name):
        return node.id
    if isinstance(node, ast.Attribute):
        b = _dotted(node.value)
        return f"{b}.{node.attr}" if b else None
    if isinstance(node, ast.Call):
        return _dotted(node.func)
    return None


class ModuleInfo:
    def __init__(self, repo: "Repo", name: str, path: str):
        self.repo = repo
        self.name = name
        self.path = path
        with open(path) as f:
            self.text = f.read()
        self.tree = ast.parse(self.text, filename=path)
        self.functions: Dict[str, FuncInfo] = {}
        self.classes: Dict[str, ClassInfo] = {}
        self.imports: Dict[str, tuple] = {}  # local name -> ("module", dotted) | ("attr", module, attr)
        self.globals_: Dict[str, ast.AST] = {}
        self._scan(self.tree.body)

    def _scan(self, body):
        for st in body:
            if isinstance(st, ast.FunctionDef):
                self.functions[st.name] = FuncInfo(self, st)
            elif isinstance(st, ast.ClassDef):
                self.classes[st.name] = ClassInfo(self, st)
            elif isinstance(st, ast.Import):
                for a in st.names:
                    self.imports[a.asname or a.name.split(".")[0]] = ("module", a.name if a.asname else a.name.split(".")[0])
            elif isinstance(st, ast.ImportFrom):
                mod = self._abs_module(st.module, st.level)
                for a in st.names:
                    self.imports[a.asname or a.name] = ("attr", mod, a.name)
            elif isinstance(st, ast.Assign) and len(st.targets) == 1 and isinstance(st.targets[0], ast.Name):
                self.globals_[st.targets[0].id] = st.value
            elif isinstance(st, ast.If):
                # e.g. if typing.TYPE_CHECKING: imports - ignored
                pass

    def _abs_module(self, module, level):
        if level == 0:
            return module
        parts = self.name.split(".")
        is_pkg = os.path.basename(self.path) == "__init__.py"
        base = parts if is_pkg else parts[:-1]
        if level > 1:
            base = base[: len(base) - (level - 1)]
        return ".".join(base + ([module] if module else []))

    def resolve(self, dotted: str):
        """Resolve a (dotted) name used in this module to FuncInfo/ClassInfo/('lib', dotted)."""
        if dotted is None:
            return None
        head, _, rest = dotted.partition(".")
        if head in self.classes:
            r = self.classes[head]
        elif head in self.functions:
            r = self.functions[head]
        elif head in self.imports:
            imp = self.imports[head]
            if imp[0] == "module":
                r = ("lib", imp[1])
                m = self.repo.try_module(imp[1])
                if m is not None:
                    r = m
            else:
                r = self.repo.resolve_attr(imp[1], imp[2])
        elif head in self.globals_:
            r = ("global", self, head)
        else:
            return None
        for part in rest.split(".") if rest else []:
            r = self.repo.getattr_static(r, part)
        return r


class Repo:
    def __init__(self, root: str = None):
        self.root = root or REPO
        self.modules: Dict[str, ModuleInfo] = {}

    def try_module(self, name: str) -> Optional[ModuleInfo]:
        if not name or not name.startswith("pygradflow"):
            return None
        if name in self.modules:
            return self.modules[name]
        rel = name.replace(".", "/")
        for cand in (f"{self.root}/{rel}.py", f"{self.root}/{rel}/__init__.py"):
            if os.path.exists(cand):
                m = ModuleInfo(self, name, cand)
                self.modules[name] = m
                return m
        return None

    def module(self, name: str) -> ModuleInfo:
        m = self.try_module(name)
        if m is None:
            raise Unsupported(f"module {name} not found under {self.root}")
        return m

    def resolve_attr(self, module: str, attr: str):
        m = self.try_module(module)
        if m is None:
            return ("lib", f"{module}.{attr}")
        sub = self.try_module(f"{module}.{attr}")
        if attr in m.classes:
            return m.classes[attr]
        if attr in m.functions:
            return m.functions[attr]
        if attr in m.imports:
            return m.resolve(attr)
        if attr in m.globals_:
            return ("global", m, attr)
        if sub is not None:
            return sub
        raise Unsupported(f"cannot resolve {module}.{attr}")

    def getattr_static(self, r, part):
        if isinstance(r, ModuleInfo):
            return self.resolve_attr(r.name, part)
        if isinstance(r, tuple) and r[0] == "lib":
            return ("lib", f"{r[1]}.{part}")
        if isinstance(r, ClassInfo):
            return ("classattr", r, part)
        raise Unsupported(f"static getattr {r}.{part}")

    def lookup(self, qualname: str):
        """'pygradflow.penalty.DualNormUpdate.update' -> FuncInfo ; 'pygradflow.penalty.DualNormUpdate' -> ClassInfo"""
        parts = qualname.split(".")
        for k in range(len(parts), 0, -1):
            m = self.try_module(".".join(parts[:k]))
            if m is None:
                continue
            rest = parts[k:]
            if not rest:
                return m
            if rest[0] in m.classes:
                c = m.classes[rest[0]]
                if len(rest) == 1:
                    return c
                f = c.methods.get(rest[1])
                if f is None:
                    raise Unsupported(f"{qualname}: method not found (moved or renamed)")
                return f
            if rest[0] in m.functions and len(rest) == 1:
                return m.functions[rest[0]]
            if rest[0] in m.imports and len(rest) == 1:
                return m.resolve(rest[0])
            raise Unsupported(f"{qualname}: not found (moved or renamed)")
        raise Unsupported(f"{qualname}: module not found")

    def all_modules(self, exclude=("pygradflow.runners",)):
        out = []
        for dp, dn, fn in os.walk(f"{self.root}/pygradflow"):
            for f in sorted(fn):
                if f.endswith(".py"):
                    rel = os.path.relpath(os.path.join(dp, f), self.root)[:-3].replace("/", ".")
                    if rel.endswith(".__init__"):
                        rel = rel[: -len(".__init__")]
                    if any(rel.startswith(e) for e in exclude):
                        continue
                    out.append(self.module(rel))
        return out
