"""Proof units: a harness builds symbolic inputs satisfying `requires`, runs the real function through the
symbolic executor and states `ensures` / `raises` as obligations.  One harness run = one path."""
from __future__ import annotations

import time
import traceback
from typing import Any, Callable, Dict, List, Optional

import z3

from . import ops
from .core import EngineError, Explorer, Infeasible, Obligation, Path, QAll, QAnd, QAny, QOr, UFact, Unsupported, zbool
from .interp import BoundMethod, Closure, Interp, PathEnd, PyFunc
from .repo import ClassInfo, FuncInfo, Repo
from .values import Arr, Cell, EnumVal, ExcVal, ListCell, Mat, Obj, Opaque, PyRaise, SymList, Vec, lift

UNITS: Dict[str, "Unit"] = {}


class Unit:
    def __init__(self, name, props, functions, fn, config=None, tier="quick", doc=""):
        self.name = name
        self.props = props
        self.functions = functions  # qualnames under contract in this unit
        self.fn = fn
        self.config = config or {}
        self.tier = tier
        self.doc = doc


def unit(name, props, functions, config=None, tier="quick"):
    def deco(fn):
        UNITS[name] = Unit(name, props, functions, fn, config, tier, fn.__doc__ or "")
        return fn

    return deco


class U:
    """Helper handed to a harness (one per path)."""

    def __init__(self, path: Path, it: Interp, repo: Repo, unit: Unit):
        self.path = path
        self.p = path
        self.it = it
        self.repo = repo
        self.unit = unit

    # ---- symbols
    def real(self, n):
        return self.path.real(n)

    def int(self, n):
        return self.path.int(n)

    def bool(self, n):
        return self.path.bool(n)

    def assume(self, c):
        self.path.assume(c)

    def vec(self, name, n, kind="real", region="FRESH"):
        sort = {"real": z3.RealSort(), "int": z3.IntSort(), "bool": z3.BoolSort()}[kind]
        A = z3.Array(self.path.fresh_name(name), z3.IntSort(), sort)
        path = self.path
        v = Vec(n, lambda i: z3.Select(A, path.auto_index(i, n)), kind, arr=A, name=name)
        a = Arr.new(v, region=region)
        return a

    def fpvec(self, name, n, region="FRESH"):
        """array of IEEE doubles (FP mode units)"""
        A = z3.Array(self.path.fresh_name(name), z3.IntSort(), z3.Float64())
        path = self.path
        v = Vec(n, lambda i: z3.Select(A, path.auto_index(i, n)), "real", arr=A, name=name)
        return Arr.new(v, region=region)

    def cls(self, qualname) -> ClassInfo:
        c = self.repo.lookup(qualname)
        if not isinstance(c, ClassInfo):
            raise EngineError(f"{qualname} is not a class")
        return c

    def func(self, qualname) -> FuncInfo:
        f = self.repo.lookup(qualname)
        if not isinstance(f, FuncInfo):
            raise EngineError(f"{qualname} is not a function")
        return f

    def obj(self, qualname, **fields) -> Obj:
        c = self.cls(qualname) if qualname else None
        return Obj(c, fields)

    def enum(self, qualname, member) -> EnumVal:
        c = self.cls(qualname)
        if member not in c.class_attrs:
            raise Unsupported(f"enum member {qualname}.{member} missing")
        from .interp import _enum_value

        return EnumVal(c, member, _enum_value(c, member))

    def enum_members(self, qualname):
        c = self.cls(qualname)
        return [m for m in c.class_attrs]

    def construct(self, qualname, *args, **kwargs):
        return self.it.construct(self.cls(qualname), list(args), kwargs)

    def call(self, fn, *args, **kwargs):
        if isinstance(fn, str):
            fn = self.func(fn)
        return self.it.call(fn, list(args), kwargs)

    def method(self, obj, name, *args, **kwargs):
        m = self.it.getattr(obj, name)
        return self.it.call(m, list(args), kwargs)

    def get(self, obj, name):
        return self.it.getattr(obj, name)

    # ---- obligations
    def ensure(self, goal, label, kind="ensures", desc="", props=None):
        return self.path.prove(goal, f"{self.unit.name}:{label}", kind=kind, desc=desc, props=props)

    def cover(self, label):
        return self.path.cover(f"{self.unit.name}:cover:{label}")

    def canary(self, goal, label):
        """A deliberately false variant of a post-condition: must FAIL to discharge (vacuity guard)."""
        ob = Obligation(name=f"{self.unit.name}:canary:{label}", goal_desc="canary (must not be provable)", kind="canary", path_id=self.path.path_id())
        saved = list(self.path.idx_terms), list(self.path.idx_tags), set(self.path.idx_seen)
        try:
            f = self.path._goal_to_formula(goal)
            hyps = list(self.path.pc) + self.path._instances()
        finally:
            self.path.idx_terms, self.path.idx_tags, self.path.idx_seen = saved
        from .core import solve_valid

        res, backend, model = solve_valid(hyps, f, min(3000, self.path.ex.timeout_ms))  # "not provable quickly" suffices
        ob.backend = backend
        ob.status = "discharged" if res == "invalid" else ("failed" if res == "valid" else "unknown")
        if res == "invalid" and model:
            ob.model = model[0]
        self.path.ex.record(ob)

    def raised(self, thunk):
        """run thunk; return ('ok', value) or ('raise', ExcVal)"""
        try:
            return "ok", thunk()
        except PyRaise as pr:
            return "raise", pr


class UnitResult:
    def __init__(self, unit: Unit):
        self.unit = unit
        self.sites: Dict[str, dict] = {}
        self.status = "ok"  # ok | failed | unknown | unsupported | error
        self.message = ""
        self.paths = 0
        self.infeasible = 0
        self.time_s = 0.0
        self.func_hashes: Dict[str, str] = {}
        self.executed: list = []  # real bodies executed symbolically by this unit
        self.via_contract: list = []  # callees seen through a sidecar contract in this unit

    def to_json(self):
        return {
            "unit": self.unit.name,
            "props": self.unit.props,
            "status": self.status,
            "message": self.message,
            "paths": self.paths,
            "infeasible_paths": self.infeasible,
            "time_s": round(self.time_s, 3),
            "functions": self.func_hashes,
            "executed_bodies": self.executed,
            "seen_through_contract": self.via_contract,
            "sites": self.sites,
        }


def run_unit(unit: Unit, timeout_ms=None, repo_root=None) -> UnitResult:
    res = UnitResult(unit)
    t0 = time.time()
    repo = Repo(repo_root)
    if unit.config.get("timeout_ms"):
        timeout_ms = max(timeout_ms or 0, unit.config["timeout_ms"])
    ex = Explorer(timeout_ms=timeout_ms, max_paths=unit.config.get("max_paths", 3000))
    # locate functions, hash sources
    try:
        for q in unit.functions:
            f = repo.lookup(q)
            if isinstance(f, FuncInfo):
                res.func_hashes[q] = f.hash()
            elif isinstance(f, ClassInfo):
                from .core import sha
                import ast as _ast

                res.func_hashes[q] = sha(_ast.get_source_segment(f.module.text, f.node) or "")
    except Unsupported as e:
        res.status = "unsupported"
        res.message = str(e)
        res.time_s = time.time() - t0
        return res

    def harness(path: Path):
        it = Interp(path, repo, unit.config)
        u = U(path, it, repo, unit)
        try:
            unit.fn(u)
        except PathEnd:
            pass
        finally:
            it.finish()

    try:
        ex.run(harness)
    except Unsupported as e:
        res.status = "unsupported"
        res.message = f"{e}"
    except PyRaise as e:
        res.status = "error"
        res.message = f"uncaught interpreted exception in harness: {e.exc!r} from {e.origin}"
    except EngineError as e:
        res.status = "error"
        res.message = f"engine error: {e}"
    except Exception as e:  # checker crash
        res.status = "error"
        res.message = f"{type(e).__name__}: {e}\n{traceback.format_exc()[-1500:]}"
    res.paths = ex.paths
    res.infeasible = ex.infeasible
    cov = ex.shared.get("coverage", {})
    res.executed = sorted(cov.get("executed", ()))
    res.via_contract = sorted(cov.get("contract", ()))
    for name in ex.order:
        obs = ex.results[name]
        st = "discharged"
        if obs[0].kind == "canary":
            # a canary is fine as soon as one path shows it is NOT provable
            st = "failed" if all(o.status == "failed" for o in obs) else "discharged"  # unknown = not provable within budget
        elif obs[0].kind == "cover":
            # vacuity guard: only a *refuted* reachability (unsat) is an error; unknown is recorded
            st = "failed" if any(o.status == "failed" for o in obs) else ("discharged" if any(o.status == "discharged" for o in obs) else "unknown-cover")
        elif any(o.status == "failed" for o in obs):
            st = "failed"
        elif any(o.status != "discharged" for o in obs):
            st = "unknown"
        bad = next((o for o in obs if o.status == "failed"), None) or next((o for o in obs if o.status != "discharged"), None)
        res.sites[name] = {
            "status": st,
            "kind": obs[0].kind,
            "props": obs[0].props,
            "instances": len(obs),
            "goal": (bad.goal_desc if bad is not None else obs[0].goal_desc)[:300],
            "backends": sorted(set(o.backend for o in obs)),
            "time_s": round(sum(o.time_s for o in obs), 3),
            "model": (bad.model if bad is not None else None),
            "model_values": (bad.model_values if bad is not None else None),
            "path": (bad.path_id if bad is not None else None),
        }
    if res.status == "ok":
        if any(s["status"] == "failed" for s in res.sites.values()):
            res.status = "failed"
        elif any(s["status"] == "unknown" for s in res.sites.values()):
            res.status = "unknown"
        elif not any(s["kind"] not in ("cover", "canary") for s in res.sites.values()):
            res.status = "error"
            res.message = "unit produced zero proof obligations (vacuous)"
        elif not res.sites:
            res.status = "error"
            res.message = "unit produced zero obligations (vacuous)"
    res.time_s = time.time() - t0
    return res
