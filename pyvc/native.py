"""Native (CPython) execution of the real functions against the same contracts, on concrete inputs.

Three roles (DESIGN §2.8a, §2.9): replay driver for counter-models, cross-check of the engine, and the
*bounded stand-in* when a function is outside the symbolic subset.  Results are never counted as proved.
"""
from __future__ import annotations

import os
import sys

NATIVE = {}
NATIVE_PROPS = {}
REPLAYERS = {}


def native(unit_name, props):
    def deco(fn):
        NATIVE[unit_name] = fn
        NATIVE_PROPS[unit_name] = props
        return fn

    return deco


def replayer(unit_name):
    def deco(fn):
        REPLAYERS[unit_name] = fn
        return fn

    return deco


def use_repo():
    """import pygradflow from the tree under verification (PYVC_REPO or /repo)"""
    root = os.environ.get("PYVC_REPO", "/repo")
    if root not in sys.path:
        sys.path.insert(0, root)
    for k in list(sys.modules):
        if k == "pygradflow" or k.startswith("pygradflow."):
            f = getattr(sys.modules[k], "__file__", "") or ""
            if not f.startswith(root):
                del sys.modules[k]
    import logging

    logging.getLogger("gradflow").setLevel(logging.CRITICAL)


def result(cases, failures, bound, status=None, message=""):
    return {"status": status or ("failed" if failures else "ok"), "cases": cases, "failures": failures[:5], "bound": bound, "message": message}
