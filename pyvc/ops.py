"""Arithmetic / comparison semantics on the value model.  Floats are reals (assumption A1)."""
from __future__ import annotations

import z3

from .core import EngineError, QAll, QAny, Unsupported, real_of_float, zbool, znot
from .values import NAN, NINF, PINF, Arr, Inf, Masked, NaN, Vec, is_num, is_sym, lift


FP64 = z3.Float64()
RNE = z3.RNE()


def is_fp(v):
    return is_sym(v) and z3.is_fp(v)


def _fp(v):
    """operand of an IEEE double operation (FP mode: C05 / C16 re-posed in Float64)"""
    if is_fp(v):
        return v
    if isinstance(v, bool):
        return z3.FPVal(float(v), FP64)
    if isinstance(v, (int, float)):
        return z3.FPVal(float(v), FP64)
    if isinstance(v, Inf):
        return z3.fpPlusInfinity(FP64) if v.sign > 0 else z3.fpMinusInfinity(FP64)
    raise EngineError("mixing IEEE doubles with exact reals")


def to_term(v, prefer_real=True):
    if isinstance(v, bool):
        return z3.BoolVal(v)
    if isinstance(v, int):
        return z3.IntVal(v)
    if isinstance(v, float):
        return real_of_float(v)
    return v


def _real(v):
    if isinstance(v, bool):
        return z3.RealVal(int(v))
    if isinstance(v, int):
        return z3.RealVal(v)
    if isinstance(v, float):
        return real_of_float(v)
    if z3.is_int(v):
        return z3.ToReal(v)
    if z3.is_bool(v):
        return z3.If(v, z3.RealVal(1), z3.RealVal(0))
    return v


def _is_intlike(v):
    return (isinstance(v, int) and not isinstance(v, bool)) or (is_sym(v) and z3.is_int(v))


def _both_conc(a, b):
    return isinstance(a, (int, float, bool)) and isinstance(b, (int, float, bool))


def scalar_bin(op, a, b):
    """+ - * on scalars (python numbers, z3 terms, Inf/NaN)."""
    if is_fp(a) or is_fp(b):
        x, y = _fp(a), _fp(b)
        return {"+": z3.fpAdd, "-": z3.fpSub, "*": z3.fpMul}[op](RNE, x, y)
    if isinstance(a, (Inf, NaN)) or isinstance(b, (Inf, NaN)):
        return _special_bin(op, a, b)
    if _both_conc(a, b):
        if op == "+":
            return a + b
        if op == "-":
            return a - b
        if op == "*":
            return a * b
    if _is_intlike(a) and _is_intlike(b):
        x, y = to_term(a), to_term(b)
    else:
        x, y = _real(a), _real(b)
    if op == "+":
        return x + y
    if op == "-":
        return x - y
    if op == "*":
        return x * y
    raise EngineError(op)


def _sign_known(v):
    if isinstance(v, (int, float)):
        return (v > 0) - (v < 0)
    return None


def _special_bin(op, a, b):
    if isinstance(a, NaN) or isinstance(b, NaN):
        return NAN
    if op == "*":
        inf, other = (a, b) if isinstance(a, Inf) else (b, a)
        if isinstance(other, Inf):
            return Inf(inf.sign * other.sign)
        s = _sign_known(other)
        if s is None:
            raise Unsupported("inf * symbolic")
        if s == 0:
            return NAN
        return Inf(inf.sign * s)
    if op in "+-":
        if isinstance(a, Inf) and isinstance(b, Inf):
            sb = b.sign if op == "+" else -b.sign
            return a if a.sign == sb else NAN
        if isinstance(a, Inf):
            return a
        return Inf(b.sign if op == "+" else -b.sign)
    raise Unsupported(f"special {op}")


def scalar_neg(a):
    if is_fp(a):
        return z3.fpNeg(a)
    if isinstance(a, Inf):
        return Inf(-a.sign)
    if isinstance(a, NaN):
        return a
    if isinstance(a, (int, float)):
        return -a
    return -a


def scalar_cmp(op, a, b):
    """Comparison; returns python bool or z3 Bool."""
    if is_fp(a) or is_fp(b):
        x, y = _fp(a), _fp(b)
        return {"<": z3.fpLT, "<=": z3.fpLEQ, ">": z3.fpGT, ">=": z3.fpGEQ, "==": z3.fpEQ, "!=": z3.fpNEQ}[op](x, y)
    if isinstance(a, NaN) or isinstance(b, NaN):
        return op == "!="
    if isinstance(a, Inf) or isinstance(b, Inf):
        return _inf_cmp(op, a, b)
    if _both_conc(a, b):
        return {"<": a < b, "<=": a <= b, ">": a > b, ">=": a >= b, "==": a == b, "!=": a != b}[op]
    if is_sym(a) and z3.is_bool(a) or is_sym(b) and z3.is_bool(b):
        x, y = zbool(a) if isinstance(a, bool) else a, zbool(b) if isinstance(b, bool) else b
        if op == "==":
            return x == y
        if op == "!=":
            return x != y
        raise Unsupported("ordering on bools")
    if _is_intlike(a) and _is_intlike(b):
        x, y = to_term(a), to_term(b)
    else:
        x, y = _real(a), _real(b)
    if op == "<":
        return x < y
    if op == "<=":
        return x <= y
    if op == ">":
        return x > y
    if op == ">=":
        return x >= y
    if op == "==":
        return x == y
    if op == "!=":
        return x != y
    raise EngineError(op)


def _inf_cmp(op, a, b):
    def rank(v):
        if isinstance(v, Inf):
            return 2 * v.sign
        return 0  # any finite value

    ra, rb = rank(a), rank(b)
    if ra == rb and ra != 0:
        return op in ("<=", ">=", "==")
    return {"<": ra < rb, "<=": ra <= rb, ">": ra > rb, ">=": ra >= rb, "==": False, "!=": True}[op]


def zmax(a, b):
    if is_fp(a) or is_fp(b):
        x, y = _fp(a), _fp(b)
        return z3.If(z3.fpGEQ(x, y), x, y)
    if isinstance(a, Inf) or isinstance(b, Inf):
        if isinstance(a, Inf) and a.sign > 0 or isinstance(b, Inf) and b.sign > 0:
            return PINF
        return b if isinstance(a, Inf) else a
    if _both_conc(a, b):
        return max(a, b)
    if _is_intlike(a) and _is_intlike(b):
        x, y = to_term(a), to_term(b)
    else:
        x, y = _real(a), _real(b)
    return z3.If(x >= y, x, y)


def zmin(a, b):
    if is_fp(a) or is_fp(b):
        x, y = _fp(a), _fp(b)
        return z3.If(z3.fpLEQ(x, y), x, y)
    if isinstance(a, Inf) or isinstance(b, Inf):
        if isinstance(a, Inf) and a.sign < 0 or isinstance(b, Inf) and b.sign < 0:
            return NINF
        return b if isinstance(a, Inf) else a
    if _both_conc(a, b):
        return min(a, b)
    if _is_intlike(a) and _is_intlike(b):
        x, y = to_term(a), to_term(b)
    else:
        x, y = _real(a), _real(b)
    return z3.If(x <= y, x, y)


def zabs(a):
    if isinstance(a, Inf):
        return PINF
    if isinstance(a, (int, float)):
        return abs(a)
    return z3.If(a >= 0, a, -a)


def zand(*xs):
    xs = [x for x in xs if x is not True]
    if any(x is False for x in xs):
        return False
    if not xs:
        return True
    return z3.And(*[zbool(x) for x in xs]) if len(xs) > 1 else xs[0]


def zor(*xs):
    xs = [x for x in xs if x is not False]
    if any(x is True for x in xs):
        return True
    if not xs:
        return False
    return z3.Or(*[zbool(x) for x in xs]) if len(xs) > 1 else xs[0]


def zite(c, a, b):
    if isinstance(c, bool):
        return a if c else b
    if is_fp(a) or is_fp(b):
        return z3.If(c, _fp(a), _fp(b))
    if isinstance(a, (bool,)) or (is_sym(a) and z3.is_bool(a)):
        return z3.If(c, zbool(a) if isinstance(a, bool) else a, zbool(b) if isinstance(b, bool) else b)
    if _is_intlike(a) and _is_intlike(b):
        return z3.If(c, to_term(a), to_term(b))
    return z3.If(c, _real(a), _real(b))


def ztrunc(x):
    """C truncation toward zero of a real, as an Int term (numpy float->int store)."""
    if isinstance(x, (int, float)):
        return int(x)
    if z3.is_int(x):
        return x
    fl = z3.ToInt(x)
    return z3.If(x >= 0, fl, -z3.ToInt(-x))


# ----------------------------------------------------------------------------
# element-wise lifting


def as_vec(v):
    if isinstance(v, Arr):
        return v.vec()
    if isinstance(v, Vec):
        return v
    return None


SHAPE_HOOK = None  # set by the interpreter: called with the list of operand lengths of an element-wise operation


def broadcast_len(*vs):
    n = None
    lens = []
    for v in vs:
        if isinstance(v, Vec):
            lens.append(v.n)
            if n is None or (isinstance(n, int) and n == 1):
                n = v.n
    if SHAPE_HOOK is not None and len(lens) > 1:
        SHAPE_HOOK(lens)
    return n


def elementwise(fn, kind, *args):
    """Apply scalar fn pointwise over Vec/Arr/Masked/scalars. Result is Vec or Masked."""
    if any(isinstance(a, Masked) for a in args):
        mask = next(a.mask for a in args if isinstance(a, Masked))
        vs = []
        for a in args:
            if isinstance(a, Masked):
                if a.mask is not mask:
                    raise Unsupported("element-wise op on views with different masks")
                vs.append(a.vec)
            elif isinstance(a, (Arr, Vec)):
                raise Unsupported("mixing masked view with full array")
            else:
                vs.append(a)
        res = elementwise(fn, kind, *vs)
        return Masked(res, mask)
    col = any(isinstance(a, Arr) and a.col2d for a in args)
    vs = [as_vec(a) if isinstance(a, (Arr, Vec)) else a for a in args]
    n = broadcast_len(*vs)
    if n is None:
        return fn(*vs)

    def f(i, vs=vs):
        return fn(*[(v.f(i) if isinstance(v, Vec) else v) for v in vs])

    k = kind
    if k is None:
        kinds = [v.kind for v in vs if isinstance(v, Vec)]
        others = [v for v in vs if not isinstance(v, Vec)]
        k = "int" if all(x == "int" for x in kinds) and all(_is_intlike(o) for o in others) else "real"
        if all(x == "bool" for x in kinds) and not others:
            k = "bool"
    out = Vec(n, f, k)
    out.col2d = col
    return out
