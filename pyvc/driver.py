"""check driver: run the proof units of a property, reconcile with ledger / known findings, write evidence.

exit 0 held | 1 violation (VIOLATION line) | 2 undecided | 3 checker defect     (DESIGN §2.11)
"""
from __future__ import annotations

import argparse
import hashlib
import importlib
import json
import multiprocessing as mp
import os
import pkgutil
import sys
import time
import traceback

ROOT = os.path.dirname(os.path.dirname(os.path.abspath(__file__)))
sys.path.insert(0, ROOT)

from pyvc.harness import UNITS, run_unit  # noqa: E402

TRUSTED_BASE = [
    "pyvc symbolic executor (AST -> z3 VC generator, /verif/pyvc): Python semantics of the supported subset as stated in DESIGN.md §2.2-2.3",
    "A1: float/np.float64 arithmetic treated as exact real arithmetic (no rounding, overflow, NaN) except numpy-scalar division by zero",
    "A3: library contracts for numpy/scipy/math/time in pyvc/npmodel.py, pyvc/matmodel.py (sanity-checked natively, not proved)",
    "z3 5.1.0 (Python API, incremental; command-line build on the cone of influence), z3 4.8.12 (/usr/bin/z3: full query and a small-scope strengthening whose `sat` answers only are used), cvc5 1.0.3 (fallback on unknown); Lean 4.33 for the lemma files",
    "universal facts are ground-instantiated on index terms (sound, incomplete)",
]


def load_contracts():
    import contracts

    for m in pkgutil.iter_modules(contracts.__path__):
        importlib.import_module("contracts." + m.name)


class _Watchdog(Exception):
    pass


def _alarm_off():
    import signal

    signal.alarm(0)


def _alarm(sec):
    import signal

    def h(sig, frm):
        raise _Watchdog(f"watchdog: no result after {sec}s")

    signal.signal(signal.SIGALRM, h)
    signal.alarm(sec)


def _run_one(args):
    name, timeout_ms = args
    load_contracts()
    t0 = time.time()
    if os.environ.get("PYVC_SELFTEST_CRASH") == name:  # self-test of the pool: this worker dies abruptly
        os.kill(os.getpid(), 11)
    _alarm(600 if timeout_ms <= 20000 else 3600)
    try:
        r = run_unit(UNITS[name], timeout_ms=timeout_ms)
        return name, r.to_json()
    except _Watchdog as e:
        return name, {"unit": name, "status": "unsupported", "message": str(e), "sites": {}, "paths": 0, "time_s": time.time() - t0, "functions": {}, "props": UNITS[name].props}
    except BaseException as e:  # noqa
        return name, {"unit": name, "status": "error", "message": f"{type(e).__name__}: {e}\n{traceback.format_exc()[-1200:]}", "sites": {}, "paths": 0, "time_s": time.time() - t0, "functions": {}, "props": UNITS[name].props}
    finally:
        _alarm_off()


def _run_native(args):
    name, tier, seed = args
    load_contracts()
    from pyvc import native

    t0 = time.time()
    _alarm(600 if tier == "quick" else 3600)
    try:
        fn = native.NATIVE.get(name)
        if fn is None:
            return name, None
        out = fn(tier=tier, seed=seed)
        out["time_s"] = round(time.time() - t0, 2)
        return name, out
    except _Watchdog as e:
        return name, {"status": "timeout", "message": str(e), "cases": 0, "failures": [], "time_s": round(time.time() - t0, 2)}
    except BaseException as e:  # noqa
        return name, {"status": "error", "message": f"{type(e).__name__}: {e}\n{traceback.format_exc()[-1500:]}", "cases": 0, "failures": [], "time_s": round(time.time() - t0, 2)}
    finally:
        _alarm_off()


def _died(kind, name, why):
    if kind == "unit":
        return {"unit": name, "status": "error", "message": why, "sites": {}, "paths": 0, "time_s": 0.0, "functions": {}, "props": UNITS[name].props if name in UNITS else []}
    return {"status": "error", "message": why, "cases": 0, "failures": [], "time_s": 0.0}


def _kill_workers(ex):
    """shut the executor down without waiting for a stuck worker (its processes are killed)"""
    procs = list(getattr(ex, "_processes", {}).values()) if getattr(ex, "_processes", None) else []
    ex.shutdown(wait=False, cancel_futures=True)
    for p_ in procs:
        try:
            if p_.is_alive():
                p_.kill()
        except Exception:  # noqa
            pass


def _run_all(jobs, nat_jobs, tier):
    """all units and native checks in a process pool that cannot hang: a worker that dies (crash in a solver
    library, kill) breaks the pool instead of losing its task silently; whatever has no result then is re-run in
    isolation, one fresh process per task, and a second death is reported as a checker error for that task only.
    Every wait has a deadline beyond the per-task watchdog."""
    import concurrent.futures as cf

    tasks = [("unit", j[0], j) for j in jobs] + [("native", j[0], j) for j in nat_jobs]
    fn = {"unit": _run_one, "native": _run_native}
    out = {"unit": {}, "native": {}}
    limit = (700 if tier == "quick" else 3700)
    pending = list(tasks)

    def harvest(ex, futs, deadline):
        for fut, (kind, name, _) in futs.items():
            try:
                n_, r_ = fut.result(timeout=max(1.0, deadline - time.time()))
                out[kind][name] = r_
            except cf.TimeoutError:
                pass
            except Exception:  # BrokenProcessPool and friends: decided in the isolated re-run
                pass

    ex = cf.ProcessPoolExecutor(max_workers=max(1, min(16, len(tasks))))
    try:
        futs = {ex.submit(fn[k], j): (k, n, j) for (k, n, j) in pending}
        harvest(ex, futs, time.time() + limit + 60)
    finally:
        _kill_workers(ex)
    pending = [(k, n, j) for (k, n, j) in tasks if n not in out[k]]
    for (k, n, j) in pending:
        ex1 = cf.ProcessPoolExecutor(max_workers=1)
        try:
            fut = ex1.submit(fn[k], j)
            try:
                n_, r_ = fut.result(timeout=limit + 60)
                out[k][n] = r_
            except cf.TimeoutError:
                out[k][n] = _died(k, n, f"no result within {limit + 60}s (task abandoned)")
            except Exception as e:  # noqa
                out[k][n] = _died(k, n, f"worker process died while running this task ({type(e).__name__}: {e})")
        finally:
            _kill_workers(ex1)
    return out["unit"], out["native"]


def load_json(path, default):
    try:
        with open(path) as f:
            return json.load(f)
    except FileNotFoundError:
        return default


def main(argv=None):
    ap = argparse.ArgumentParser()
    ap.add_argument("prop")
    ap.add_argument("--tier", default=os.environ.get("VERIF_TIER", "quick"))
    ap.add_argument("--replay")
    ap.add_argument("--update-ledger", action="store_true")
    ap.add_argument("--units", default="")
    ap.add_argument("-v", action="store_true")
    a = ap.parse_args(argv)
    if a.replay:
        from pyvc import replay

        return replay.main(a.replay)
    t0 = time.time()
    seed = int(os.environ.get("VERIF_SEED", "0") or 0)
    tier = a.tier if a.tier in ("quick", "thorough") else "quick"
    timeout_ms = 20000 if tier == "quick" else 60000
    load_contracts()
    from pyvc import native

    prop = a.prop
    names = [n for n, un in UNITS.items() if prop in un.props and (tier == "thorough" or un.tier == "quick")]
    # C06 ("a status or a deliberate error, never an internal crash") owns the IMPLICIT obligations of every unit:
    # asserts, divisions, math domains, subscripts, operand lengths, format codes and reductions of possibly empty
    # arrays generated from whatever code a unit executes - also of units written for another property
    guests = set()
    if prop == "C06":
        guests = {n for n, un in UNITS.items() if prop not in un.props and un.tier == "quick" and "[bounded" not in n}
        names = names + sorted(guests)
    if tier == "thorough":
        # a thorough-only unit with a larger bound supersedes its quick counterpart
        sup = {n.split("[bounded")[0] for n in names if UNITS[n].tier == "thorough" and "[bounded" in n}
        names = [n for n in names if not (UNITS[n].tier == "quick" and "[bounded" in n and n.split("[bounded")[0] in sup)]
    if a.units:
        names = [n for n in names if a.units in n]
    if not names:
        print(f"no proof units registered for {prop}")
        return 3
    jobs = [(n, timeout_ms) for n in names]
    nat_names = [n for n in native.NATIVE if prop in native.NATIVE_PROPS.get(n, [])]
    results, natives = _run_all(jobs, [(n, tier, seed) for n in nat_names], tier)

    ledger = load_json(os.path.join(ROOT, "ledger.json"), {})
    known = load_json(os.path.join(ROOT, "known_findings.json"), {"findings": []})
    open_findings = [f for f in known.get("findings", []) if f.get("status") == "open" and f.get("property") == prop]

    violations, undecided, errors, known_hits = [], [], [], []
    bounded_sym = {}
    n_ob = n_dis = 0
    covers = {"sat": 0, "unknown": 0}
    canaries = 0
    solver_time = 0.0
    backends = set()
    samples = []
    functions = {}
    kinds_count = {}
    for n in names:
        r = results[n]
        functions.update(r.get("functions", {}))
        if r["status"] == "error":
            errors.append((n, r["message"]))
        elif r["status"] == "unsupported":
            undecided.append((n, "unsupported: " + r["message"]))
        for site, d in r["sites"].items():
            if n in guests:
                if d["kind"] not in IMPLICIT_KINDS:
                    continue  # a guest unit contributes its implicit obligations only
            elif d.get("props") is not None and prop not in d["props"]:
                continue  # obligation of a shared unit that serves other properties only
            solver_time += d["time_s"]
            backends.update(d["backends"])
            full = f"{n}::{site}"
            if d["kind"] == "cover":
                covers["sat" if d["status"] == "discharged" else "unknown"] += d["status"] != "failed"
                if d["status"] == "failed":
                    errors.append((full, "vacuous: precondition / path condition unsatisfiable"))
                continue
            if d["kind"] == "canary":
                canaries += 1
                if d["status"] == "failed":
                    errors.append((full, "canary was provable: the contract or engine is too weak / unsound"))
                continue
            is_bounded = "[bounded" in n
            if not is_bounded:
                kinds_count[d["kind"]] = kinds_count.get(d["kind"], 0) + 1
            if is_bounded:
                b = bounded_sym.setdefault(n, {"obligations": 0, "discharged": 0})
                b["obligations"] += 1
                b["discharged"] += d["status"] == "discharged"
            else:
                n_ob += 1
            if d["status"] == "discharged":
                n_dis += 0 if is_bounded else 1
                if len(samples) < 6:
                    samples.append({"obligation": full, "goal": d["goal"], "paths": d["instances"], "backend": d["backends"]})
            elif d["status"] == "failed":
                kf = next((f for f in open_findings if f.get("obligation") == full), None)
                if kf is not None:
                    known_hits.append((kf, d))
                    if not is_bounded:
                        n_ob -= 1  # refuted and listed as an open known finding: reported under its own key, not as an obligation claimed proved
                else:
                    violations.append((full, d, r))
            else:
                undecided.append((full, "solver returned unknown / timeout"))
        # obligations that silently disappeared
        for site, ent in ledger.get(n, {}).items():
            ent = ent if isinstance(ent, list) else [ent, None]
            st, pr = ent[0], ent[1]
            kd = ent[2] if len(ent) > 2 else None
            if n in guests or (pr is not None and prop not in pr):
                continue
            if kd in IMPLICIT_KINDS:
                # an obligation that exists only because the code contains a construct (an assert statement, a float
                # division, a subscript, an element-wise operation, a str.format call): when the construct is gone
                # there is nothing left to prove - not a sign of a check that silently stopped checking
                continue
            if site not in r["sites"] and r["status"] == "ok":
                undecided.append((f"{n}::{site}", "obligation present in the ledger was not generated on this run"))

    # native (bounded) stand-ins / replay sweeps
    bounded = {}
    for n, out in natives.items():
        if out is None:
            continue
        bounded[n] = {k: out.get(k) for k in ("status", "cases", "bound", "time_s", "message")}
        if out["status"] == "error":
            errors.append((f"native:{n}", out.get("message", "")))
        if out["status"] == "timeout":
            undecided.append((f"native:{n}", out.get("message", "")))
        for fl in out.get("failures", []):
            if str(fl.get("label", "")).startswith("lib:"):
                # an assumed library fact does not hold on the installed numpy / scipy: the models are wrong for this
                # environment - a defect of the checker's trusted base, not of the code under verification
                errors.append((f"native:{n}::{fl.get('label')}", f"assumed library fact does not hold here ({fl.get('observed', '')}): the proofs that use this model are void"))
                continue
            kf = next((f for f in open_findings if f.get("obligation") == f"native:{n}::{fl.get('label')}"), None)
            if kf is not None:
                known_hits.append((kf, {"model": json.dumps(fl.get("input"))[:300]}))
            else:
                violations.append((f"native:{n}::{fl.get('label')}", {"native": fl, "goal": fl.get("label"), "model": None}, None))

    # a finding listed as open that no longer fails is reported (it does not suppress anything)
    stale = [f for f in open_findings if not any(k[0] is f for k in known_hits)]

    os.makedirs(os.path.join(ROOT, "replay", prop), exist_ok=True)
    os.makedirs(os.path.join(ROOT, "evidence"), exist_ok=True)
    from pyvc import replay as rp

    vio_lines = []
    seen_v = set()
    for full, d, r in violations:
        base = full.split("::native-input")[0]
        if base in seen_v:
            continue
        seen_v.add(base)
        path, found = rp.write_replay(ROOT, prop, full, d, r, natives)
        line = f"VIOLATION property={prop} replay={path}"
        if not found:
            line += " no-failing-input-found"
        vio_lines.append(line)

    for kf, d in known_hits:
        print(f"KNOWN-FINDING: property={prop} {kf.get('what', kf.get('obligation'))}")
    for f in stale:
        print(f"note: open finding no longer reproduces: {f.get('obligation')}")
    for line in vio_lines:
        print(line)
    for full, why in undecided:
        print(f"UNDECIDED {full}: {why}")
    for full, why in errors:
        print(f"CHECKER-ERROR {full}: {why}")

    extra_cov = {}
    if tier == "thorough" and prop in ("C01", "C12", "C14"):
        extra_cov["lean_lemmas"] = lean_status()
    if prop == "C08":
        # the composition step of the prefix argument (core Lean, ~10 s, cached by file hash): every tier
        extra_cov["lean_prefix_lemma"] = lean_status("Prefix.lean", "prefix_of_unlimited / limited_run_is_prefix / deadline_run_returns_a_state_of_the_unlimited_run (composition of the loop contracts into 'limited run == prefix of the unlimited run')", timeout=300)
    if prop == "C06":
        extra_cov = assert_coverage(ledger)
    wall = time.time() - t0
    ev = {
        "property_id": prop,
        "tier": tier,
        "seed": seed,
        "level": "proof",
        "coverage": {
            "obligations": n_ob,
            "discharged": n_dis,
            "checker_cmd": f"./check {prop} --tier {tier}",
            "trusted_base": TRUSTED_BASE,
            "functions_under_contract": functions,
            "real_bodies_executed_symbolically": sorted({q for n in names for q in results[n].get("executed_bodies", [])}),
            "callees_seen_only_through_an_assumed_or_separately_proved_contract": sorted({q for n in names for q in results[n].get("seen_through_contract", [])}),
            "obligations_by_kind": kinds_count,
            "units": {n: {"status": results[n]["status"], "paths": results[n].get("paths"), "time_s": results[n].get("time_s"), "message": results[n].get("message", "")[:300]} for n in names},
            "backends": sorted(backends),
            "solver_time_s": round(solver_time, 2),
            "vacuity": {"covers_sat": covers["sat"], "covers_unknown": covers["unknown"], "canaries_checked": canaries},
            "bounded_stand_ins (NOT counted in discharged)": bounded,
            "bounded_symbolic_units (proved for the stated bound only, NOT counted in obligations/discharged)": bounded_sym,
            "known_findings_reproduced": [k[0].get("obligation") for k in known_hits],
            "obligations_refuted_and_listed_as_open_known_findings (NOT counted in obligations/discharged)": sorted({k[0].get("obligation") for k in known_hits if not str(k[0].get("obligation", "")).startswith("native:")}),
            "undecided": [u[0] for u in undecided],
            "samples": samples,
            **extra_cov,
        },
        "assumptions": assumptions_for(prop),
        "wall_s": round(wall, 2),
        "violations": len(vio_lines),
    }
    if not os.environ.get("PYVC_NO_EVIDENCE"):  # (set only by bin/seed_matrix.sh, which runs on scratch copies)
        with open(os.path.join(ROOT, "evidence", f"{prop}.json"), "w") as f:
            json.dump(ev, f, indent=1, default=str)

    if a.update_ledger:
        import fcntl

        # read-modify-write under a lock: several checks may update their own units at the same time
        with open(os.path.join(ROOT, ".ledger.lock"), "w") as lk:
            fcntl.flock(lk, fcntl.LOCK_EX)
            ledger = load_json(os.path.join(ROOT, "ledger.json"), {})
            for n in names:
                ledger[n] = {s: [d["status"], d.get("props"), d.get("kind")] for s, d in results[n]["sites"].items()}
            tmp = os.path.join(ROOT, "ledger.json.tmp")
            with open(tmp, "w") as f:
                json.dump(ledger, f, indent=1, sort_keys=True)
            os.replace(tmp, os.path.join(ROOT, "ledger.json"))

    print(f"{prop} [{tier}] units={len(names)} obligations={n_ob} discharged={n_dis} violations={len(vio_lines)} known={len(known_hits)} undecided={len(undecided)} errors={len(errors)} wall={wall:.1f}s")
    if vio_lines:
        return 1  # a named obligation failed (checker errors, if any, are printed above)
    if errors:
        return 3
    if undecided:
        return 2
    return 0


IMPLICIT_KINDS = {"assert", "zerodiv", "domain", "index", "shape", "format"}


def lean_status(fname="LA.lean", what="LA1-LA5", timeout=1500):
    """compile lean/<fname>; cached by file hash; a failing build means the lemmas are ASSUMED this run"""
    import subprocess

    src = os.path.join(ROOT, "lean", fname)
    h = hashlib.sha256(open(src, "rb").read()).hexdigest()[:16]
    cache = os.path.join(ROOT, "lean", ".cache_" + h)
    if os.path.exists(cache):
        return json.load(open(cache))
    t0 = time.time()
    try:
        p = subprocess.run(["lean", src], capture_output=True, text=True, timeout=timeout, cwd=os.path.join(ROOT, "lean"))
        ok = p.returncode == 0 and "error" not in p.stdout.lower() and "sorry" not in p.stdout.lower()
        out = {"file": "lean/" + fname, "sha": h, "built": ok, "seconds": round(time.time() - t0, 1), "output_tail": (p.stdout + p.stderr)[-400:],
               "status": f"{what} machine-checked by Lean 4 on this run" if ok else f"Lean build failed: {what} ASSUMED for this run"}
    except Exception as e:  # noqa
        out = {"file": "lean/" + fname, "sha": h, "built": False, "status": f"Lean not run ({type(e).__name__}): {what} ASSUMED for this run"}
    if out.get("built"):
        json.dump(out, open(cache, "w"))
    return out


def assert_coverage(ledger):
    """C06 class 1: which assert statements of the in-scope code are obligations of some unit (per the ledger)"""
    import ast

    from contracts.frames import in_scope_functions
    from pyvc.repo import Repo

    repo = Repo()
    covered = set()
    for unit_name, sites in ledger.items():
        for site, ent in sites.items():
            st = ent[0] if isinstance(ent, list) else ent
            if "/assert#" in site and st == "discharged":
                covered.add(site)
    total, unc = 0, []
    for f in in_scope_functions(repo):
        k = 0
        for n in ast.walk(f.node):
            if isinstance(n, ast.Assert):
                total += 1
                if f"{f.qualname}/assert#{k}" not in covered:
                    unc.append(f"{f.qualname}/assert#{k}: {ast.unparse(n.test)[:60]}")
                k += 1
    return {"assert_statements_in_scope": total, "assert_statements_discharged_in_some_unit": total - len(unc), "assert_statements_NOT_covered (assumed, not proved)": unc}


def assumptions_for(prop):
    from contracts import assumptions

    return assumptions.GLOBAL + assumptions.PER_PROP.get(prop, [])


if __name__ == "__main__":
    sys.exit(main())
