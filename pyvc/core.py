"""pyvc core: path exploration by decision replay, obligations, discharge with z3 (cvc5 fallback).

Every obligation is a formula   AND pc AND ground instances of universal facts  ==>  goal
generated while symbolically executing the *real* AST of a function in /repo.
"""
from __future__ import annotations

import hashlib
import itertools
import os
import subprocess
import tempfile
import time
from dataclasses import dataclass, field
from fractions import Fraction
from typing import Any, Callable, List, Optional

import z3

QUICK_TIMEOUT_MS = int(os.environ.get("PYVC_TIMEOUT_MS", "10000"))


class Unsupported(Exception):
    """Construct outside the supported subset: the unit becomes *undecided* (exit 2)."""


class EngineError(Exception):
    """Checker defect / contract misuse (exit 3)."""


class Infeasible(Exception):
    """Raised to abandon a path whose path condition became unsatisfiable."""


# ----------------------------------------------------------------------------
# universally quantified facts, instantiated on ground index terms


@dataclass
class UFact:
    """forall i_1..i_k. guard(i) -> body(i); fn returns a z3 Bool for given index terms.
    `bounds` is a list of (lo, hi) half-open ranges, one per index (hi may be a z3 Int)."""

    arity: int
    fn: Callable[..., Any]
    bounds: list
    label: str = ""

    def instance(self, *idx):
        guards = []
        for t, (lo, hi) in zip(idx, self.bounds):
            if lo is not None:
                guards.append(t >= lo)
            if hi is not None:
                guards.append(t < hi)
        body = self.fn(*idx)
        if body is True:
            return None
        if body is False:
            body = z3.BoolVal(False)
        g = z3.And(*guards) if guards else z3.BoolVal(True)
        return z3.Implies(g, body)


@dataclass
class QAll:
    """Symbolic 'for all i in [0,n): fn(i)' (result of (vec).all(), np.all, all(...))."""

    n: Any
    fn: Callable[[Any], Any]
    lo: Any = 0

    def negate(self):
        return QAny(self.n, lambda i: znot(self.fn(i)), self.lo)


@dataclass
class QAny:
    n: Any
    fn: Callable[[Any], Any]
    lo: Any = 0

    def negate(self):
        return QAll(self.n, lambda i: znot(self.fn(i)), self.lo)


@dataclass
class QAnd:
    parts: list

    def negate(self):
        return QOr([qnot(p) for p in self.parts])


@dataclass
class QOr:
    parts: list

    def negate(self):
        return QAnd([qnot(p) for p in self.parts])


def qnot(g):
    if isinstance(g, (QAll, QAny, QAnd, QOr)):
        return g.negate()
    return znot(g)


def _tagkey(tag):
    if tag is None:
        return None
    if isinstance(tag, int):
        return ("c", tag)
    try:
        t = z3.simplify(tag)
        # lengths that differ by an integer constant belong to the same container family (append / slice by one)
        if z3.is_add(t):
            ch = [c for c in t.children() if not z3.is_int_value(c)]
            if len(ch) == 1:
                t = ch[0]
            elif len(ch) > 1 and len(ch) < len(t.children()):
                t = z3.simplify(z3.Sum(ch))
        return t.get_id()
    except Exception:
        return None


def znot(b):
    if isinstance(b, bool):
        return not b
    return z3.Not(b)


def zbool(b):
    if isinstance(b, bool):
        return z3.BoolVal(b)
    return b


def is_concrete_bool(b):
    return isinstance(b, bool)


@dataclass
class Obligation:
    name: str  # stable site name  Cxx? unit/func/kind#ordinal:label
    goal_desc: str
    status: str = "open"  # discharged | failed | unknown
    backend: str = ""
    time_s: float = 0.0
    model: Optional[str] = None
    path_id: str = ""
    detail: str = ""
    kind: str = "ensures"
    props: Optional[list] = None
    model_values: Optional[dict] = None


class Path:
    """One execution path.  Created afresh for each replay; all state is per path."""

    def __init__(self, explorer: "Explorer", decisions: list):
        self.ex = explorer
        self.prefix = list(decisions)
        self.decisions: list = []
        self.pc: list = []
        self.ufacts: List[UFact] = []
        self.idx_terms: list = []
        self.idx_tags: list = []
        self.idx_seen: set = set()
        self.counters: dict = {}
        self.obligations: List[Obligation] = []
        self.npscalar: dict = {}  # term id -> term (the reference keeps the id from being reused)
        self.notes: list = []
        self.ghost: dict = {}
        self._solver = None
        self.n_branch_checks = 0

    # -- fresh symbols -------------------------------------------------
    def fresh_name(self, base):
        k = self.counters.get(base, 0)
        self.counters[base] = k + 1
        return base if k == 0 else f"{base}!{k}"

    def real(self, base):
        return z3.Real(self.fresh_name(base))

    def int(self, base):
        return z3.Int(self.fresh_name(base))

    def bool(self, base):
        return z3.Bool(self.fresh_name(base))

    def func(self, base, *sorts):
        return z3.Function(self.fresh_name(base), *sorts)

    def index_term(self, t, tag=None):
        """register an index term for ground instantiation; `tag` = length of the container it indexes
        (universal facts are instantiated only on terms of their own container, or untagged ones)"""
        if isinstance(t, int):
            t = z3.IntVal(t)
        tk = _tagkey(tag)
        key = (t.get_id(), tk)
        if key not in self.idx_seen:
            self.idx_seen.add(key)
            self.idx_terms.append(t)
            self.idx_tags.append(tk)
        return t

    def auto_index(self, i, n):
        """reading a base array at a symbolic index makes that index an instantiation term for the universal facts
        about arrays of that length"""
        if isinstance(i, int):
            return z3.IntVal(i)
        if z3.is_const(i) and i.decl().kind() == z3.Z3_OP_UNINTERPRETED and i.decl().name().startswith("__"):
            return i  # bound variable of a lambda
        if not z3.is_int_value(i):
            self.index_term(i, n)
        return i

    # -- assumptions -----------------------------------------------------
    def assume(self, cond):
        if isinstance(cond, bool):
            if not cond:
                raise Infeasible()
            return
        if isinstance(cond, QAll):
            self.add_ufact(UFact(1, cond.fn, [(cond.lo, cond.n)], "assume"))
            return
        if isinstance(cond, QAnd):
            for p in cond.parts:
                self.assume(p)
            return
        if isinstance(cond, QAny):
            w = self.int("wit")
            self.index_term(w, cond.n)
            self.pc.append(z3.And(w >= cond.lo, w < cond.n))
            self.assume(cond.fn(w))
            return
        if isinstance(cond, QOr):
            raise Unsupported("assume of quantified disjunction")
        self.pc.append(cond)

    def add_ufact(self, uf: UFact):
        self.ufacts.append(uf)

    # -- branching by decision replay -------------------------------------
    def _feasible(self, cond) -> bool:
        self.n_branch_checks += 1
        s = self._solver_synced()
        s.set("timeout", 2000)
        s.push()
        try:
            s.add(cond)
            r = s.check()
        finally:
            s.pop()
        return r != z3.unsat

    def branch(self, cond) -> bool:
        """Decide a (possibly symbolic) condition; explores both sides across replays."""
        if isinstance(cond, bool):
            return cond
        if isinstance(cond, (QAll, QAny, QAnd, QOr)):
            return self._branch_q(cond)
        cond = z3.simplify(cond)
        if z3.is_true(cond):
            return True
        if z3.is_false(cond):
            return False
        k = len(self.decisions)
        if k < len(self.prefix):
            d = self.prefix[k]
        else:
            ft = self._feasible(cond)
            ff = self._feasible(z3.Not(cond))
            if ft and ff:
                self.ex.push(self.decisions + [False])
                d = True
            elif ft:
                d = True
            elif ff:
                d = False
            else:
                raise Infeasible()
        self.decisions.append(d)
        self.pc.append(cond if d else z3.Not(cond))
        return d

    def _branch_q(self, q) -> bool:
        k = len(self.decisions)
        if k < len(self.prefix):
            d = self.prefix[k]
        else:
            self.ex.push(self.decisions + [False])
            d = True
        self.decisions.append(d)
        self.assume(q if d else qnot(q))
        return d

    def choose(self, label="choice") -> bool:
        """Non-deterministic boolean (e.g. 'callee raises here')."""
        k = len(self.decisions)
        if k < len(self.prefix):
            d = self.prefix[k]
        else:
            self.ex.push(self.decisions + [False])
            d = True
        self.decisions.append(d)
        return d

    def choose_n(self, n, label="choice") -> int:
        for i in range(n - 1):
            if self.choose(label):
                return i
        return n - 1

    # -- obligations --------------------------------------------------------
    def _instances(self, extra_terms=()):
        """ground instances of all universal facts on all index terms (memoised per (fact, terms))"""
        cache = self.__dict__.setdefault("_inst_cache", {})
        out = []
        terms = list(zip(self.idx_terms, self.idx_tags))
        for ui, uf in enumerate(self.ufacts):
            tks = [_tagkey(b[1]) for b in uf.bounds]
            per_pos = [[t for (t, tg) in terms if tg is None or tk is None or tg == tk] for tk in tks]
            if uf.arity == 1:
                combos = [(t,) for t in per_pos[0]]
            else:
                combos = itertools.product(*per_pos)
            for c in combos:
                key = (ui,) + tuple(t.get_id() for t in c)
                if key in cache:
                    inst = cache[key]
                else:
                    inst = uf.instance(*c)
                    cache[key] = inst
                if inst is not None:
                    out.append(inst)
        return out

    def _solver_synced(self):
        """persistent incremental solver holding pc + instances on the permanent index terms"""
        st = self.__dict__.setdefault("_inc", {"s": None, "npc": 0, "ninst": set()})
        if st["s"] is None:
            st["s"] = z3.Solver()
        s = st["s"]
        for c in self.pc[st["npc"]:]:
            s.add(c)
        st["npc"] = len(self.pc)
        for inst in self._instances():
            k = inst.get_id()
            if k not in st["ninst"]:
                st["ninst"].add(k)
                s.add(inst)
        return s

    def path_id(self):
        return "".join("T" if d else "F" for d in self.decisions) or "-"

    def prove(self, goal, name, kind="ensures", desc="", props=None):
        """Emit + discharge the obligation  pc AND ufacts ==> goal  at this point of the path."""
        ob = Obligation(name=name, goal_desc=desc, kind=kind, path_id=self.path_id(), props=props)
        self.obligations.append(ob)
        if name in self.ex.shared.setdefault("failed_sites", set()):
            return False  # this site already failed on another path: one counter-model is enough
        if isinstance(goal, bool):
            # structural (python-level) obligation: decided without the solver
            ob.status = "discharged" if goal else "failed"
            ob.backend = "structural"
            if not ob.goal_desc:
                ob.goal_desc = "structural check"
            if not goal:
                self.ex.shared["failed_sites"].add(name)
            self.ex.record(ob)
            return goal
        # the state at this point is a function of the decision prefix: an obligation already decided for the
        # same (site, prefix, occurrence) on an earlier replay is not discharged again
        occ = self.counters.get(("ob", name, len(self.decisions)), 0)
        self.counters[("ob", name, len(self.decisions))] = occ + 1
        key = (name, tuple(self.decisions), occ)
        memo = self.ex.shared.setdefault("proved", {})
        if key in memo:
            st = memo[key]
            if st == "discharged":
                return True
            if st in ("failed", "unknown"):
                return False
        t0 = time.time()
        try:
            self._discharge(ob, goal)
        finally:
            ob.time_s = time.time() - t0
        memo[key] = ob.status
        if ob.status in ("failed", "unknown"):
            # one counter-model / one timeout per site is enough: the site is not discharged anyway
            self.ex.shared["failed_sites"].add(name)
        if not ob.goal_desc and (ob.status != "discharged" or name not in self.ex.results):
            ob.goal_desc = _short(goal)
        self.ex.record(ob)
        return ob.status == "discharged"

    def _goal_to_formula(self, goal):
        """Skolemise a quantified goal; returns z3 Bool (registering Skolem index terms)."""
        if isinstance(goal, bool):
            return z3.BoolVal(goal)
        if isinstance(goal, QAll):
            k = self.int("sk")
            self.index_term(k, goal.n)
            inner = self._goal_to_formula(goal.fn(k))
            return z3.Implies(z3.And(k >= goal.lo, k < goal.n), inner)
        if isinstance(goal, QAnd):
            return z3.And(*[self._goal_to_formula(p) for p in goal.parts])
        if isinstance(goal, QOr):
            return z3.Or(*[self._goal_to_formula(p) for p in goal.parts])
        if isinstance(goal, QAny):
            # existential goal: try witnesses among the known index terms
            gk = _tagkey(goal.n)
            cands = [t for t, tg in zip(self.idx_terms, self.idx_tags) if tg is None or gk is None or tg == gk]
            if not cands:
                return z3.BoolVal(False)
            return z3.Or(*[z3.And(t >= goal.lo, t < goal.n, zbool(goal.fn(t))) for t in cands])
        return goal

    def _discharge(self, ob: Obligation, goal):
        saved_terms = list(self.idx_terms)
        saved_tags = list(self.idx_tags)
        saved_seen = set(self.idx_seen)
        try:
            f = self._goal_to_formula(goal)
            # a second pass lets existential goals see index terms created by Skolemisation
            if _has_qany(goal):
                f = self._goal_to_formula(goal)
            n_perm = len(saved_terms)
            perm_ids = set(i.get_id() for i in self._instances()) if False else None
            extra = [i for i in self._instances()]
        finally:
            self.idx_terms = saved_terms
            self.idx_tags = saved_tags
            self.idx_seen = saved_seen
        s = self._solver_synced()
        have = self._inc["ninst"]
        s.push()
        try:
            for inst in extra:
                if inst.get_id() not in have:
                    s.add(inst)
            if os.environ.get("PYVC_DUMP") and os.environ["PYVC_DUMP"] in ob.name:
                s.push()
                s.add(z3.Not(f))
                open("/tmp/pyvc_dump.smt2", "w").write(s.to_smt2())
                s.pop()
            res, backend, model = solve_valid_inc(s, f, self.ex.timeout_ms)
            # model-guided instantiation: a counter-model found with PARTIALLY instantiated universal facts is
            # re-checked after instantiating every fact at the integer values the model gives to the index terms
            rounds = 0
            while res == "invalid" and model and model[1] and self.ufacts and rounds < 3:
                rounds += 1
                ints = _model_ints(model[1])
                added = 0
                for ui, uf in enumerate(self.ufacts):
                    import itertools as _it

                    combos = [(z3.IntVal(v),) for v in ints] if uf.arity == 1 else [tuple(z3.IntVal(v) for v in c) for c in _it.product(ints[:8], repeat=uf.arity)]
                    for c in combos:
                        inst = uf.instance(*c)
                        if inst is not None:
                            s.add(inst)
                            added += 1
                if not added:
                    break
                s.set("timeout", 2500)
                r2 = s.check()
                md2 = None
                if r2 == z3.sat:
                    md2 = _model_to_dict(s.model())
                elif r2 != z3.unsat:
                    smt2_ = s.to_smt2()
                    rc, mraw = _z3cli_first(_z3cli_start(smt2_, self.ex.timeout_ms), _z3cli_start(_small_scope(smt2_, list(s.assertions())), self.ex.timeout_ms), self.ex.timeout_ms)
                    if rc == "unsat":
                        r2 = z3.unsat
                    elif rc == "sat":
                        r2, md2 = z3.sat, {"__raw__": mraw[:4000]}
                    else:
                        # the counter-model came from (or needs) the value table of pow2: re-establish it the same way
                        rr_ = _refute_with_pow2_table(list(s.assertions()), min(self.ex.timeout_ms, 10000))
                        if rr_ is not None:
                            r2, md2 = z3.sat, rr_[1]
                if r2 == z3.unsat:
                    res, backend, model = "valid", backend + "+mbqi", None
                elif r2 == z3.sat:
                    model = ("; ".join(f"{k}={v}" for k, v in sorted(md2.items()) if len(v) < 80)[:2000] or md2.get("__raw__", "")[:2000], md2)
                else:
                    # the counter-model could not be re-established after instantiating at its integer values
                    res, backend, model = "unknown", backend + "+mbqi", None
        finally:
            s.pop()
        ob.backend = backend
        if res == "valid":
            ob.status = "discharged"
        elif res == "invalid":
            ob.status = "failed"
            ob.model = model[0] if model else None
            ob.model_values = model[1] if model else None
        else:
            ob.status = "unknown"

    def cover(self, name):
        """Vacuity guard: the path condition reaching this point must be satisfiable."""
        ob = Obligation(name=name, goal_desc="reachable (pc satisfiable)", kind="cover", path_id=self.path_id())
        memo = self.ex.shared.setdefault("covered", set())
        if name in memo:
            return True
        s = self._solver_synced()
        s.set("timeout", min(self.ex.timeout_ms, 3000))
        r = s.check()
        ob.backend = "z3"
        if r == z3.unknown:
            smt2 = s.to_smt2()
            budget = max(3000, min(self.ex.timeout_ms, 10000))
            r1, _ = _z3cli_first(_z3cli_start(smt2, budget), _z3cli_start(_small_scope(smt2, list(s.assertions())), budget), budget)
            if r1 in ("sat", "unsat"):
                r = z3.sat if r1 == "sat" else z3.unsat
                ob.backend = "z3-4.8.12(cli)"
        ob.status = "discharged" if r == z3.sat else ("failed" if r == z3.unsat else "unknown")
        if ob.status == "discharged":
            memo.add(name)
        self.ex.record(ob)
        return ob.status == "discharged"


def _has_qany(g):
    if isinstance(g, QAny):
        return True
    if isinstance(g, (QAnd, QOr)):
        return any(_has_qany(p) for p in g.parts)
    if isinstance(g, QAll):
        return True  # unknown body; cheap to redo
    return False


def _short(goal):
    s = str(goal)
    s = " ".join(s.split())
    return s[:300]


def _model_to_dict(m):
    out = {}
    for d in m.decls():
        try:
            v = m[d]
            out[d.name()] = str(v)
        except Exception:
            pass
    return out


def _model_ints(md, limit=24):
    """integer values occurring in a model (candidates for index instantiation)"""
    import re

    vals = set()
    for k, v in md.items():
        for tok in re.findall(r"(?<![\w/.])-?\d+(?![\w/.])", v):
            try:
                n = int(tok)
            except ValueError:
                continue
            if -2 <= n <= 64:
                vals.add(n)
    out = sorted(vals)
    return out[:limit]


def solve_valid_inc(s, goal, timeout_ms):
    """like solve_valid but on a prepared incremental solver (caller does push/pop)"""
    s.set("timeout", min(timeout_ms, 2500))  # the incremental core first, briefly; then a fresh solver on the cone
    s.add(z3.Not(goal))
    r = s.check()
    if r == z3.unsat:
        return "valid", "z3", None
    if r == z3.sat:
        m = s.model()
        md = _model_to_dict(m)
        ms = "; ".join(f"{k}={v}" for k, v in sorted(md.items()) if len(v) < 80)[:2000]
        return "invalid", "z3", (ms, md)
    # cone-of-influence slice on a fresh (non-incremental) solver: hypotheses that share no uninterpreted symbol
    # (transitively) with the goal are dropped.  unsat(cone) => valid.  sat(cone) => the counter-model extends to
    # the full hypothesis set whenever the dropped part is satisfiable on its own (it is the rest of a path
    # condition that the branch pruning did not refute).
    asserts = list(s.assertions())
    cone, rest = cone_of_influence(asserts[:-1], asserts[-1])
    # the second, independent z3 build (Debian's 4.8.12 CLI: different heuristics decide many queries - notably
    # satisfiable non-linear ones - that the 5.1 API leaves open) runs CONCURRENTLY with the cone check
    smt2 = s.to_smt2()
    if os.environ.get("PYVC_DUMP_SMT"):
        with open(os.path.join(os.environ["PYVC_DUMP_SMT"], f"q{int(time.time()*1000)}.smt2"), "w") as f_:
            f_.write(smt2)
    cli = _z3cli_start(smt2, max(3000, timeout_ms))
    # SMALL-SCOPE REFUTATION, also concurrent: the same query with every free integer constant confined to [0, 2].
    # The extra constraints only strengthen the hypotheses, so a model found there is a genuine counter-model of the
    # obligation (never used to prove anything); it makes refutations cheap when lengths / indices are symbolic.
    cli_small = _z3cli_start(_small_scope(smt2, asserts), max(3000, timeout_ms))
    # the cone-of-influence slice goes to a THIRD process (the z3 5.1 command-line build): no threads, no shared
    # solver context - whichever of the three processes answers first decides
    s2 = z3.Solver()
    for a in cone:
        s2.add(a)
    s2.add(asserts[-1])
    cli_cone = _z3cli_start(s2.to_smt2(), max(3000, timeout_ms), exe=_Z3_NEW)
    del s2
    budget = max(3000, timeout_ms)
    live = {"cone": cli_cone, "full": cli, "small": cli_small}
    t_end = time.time() + budget / 1000 + 2
    verdict = None
    while live and time.time() < t_end and verdict is None:
        for k_ in list(live):
            h_ = live[k_]
            if h_ is None:
                live.pop(k_)
                continue
            if h_[0].poll() is None:
                continue
            live.pop(k_)
            r_, m_ = _z3cli_finish(h_, budget)
            if r_ == "unsat" and k_ in ("cone", "full"):
                verdict = ("valid", "z3-cone(cli)" if k_ == "cone" else "z3-4.8.12(cli)", None)
            elif r_ == "sat" and k_ in ("full", "small"):
                verdict = ("invalid", "z3-4.8.12(cli)" if k_ == "full" else "z3-4.8.12(cli, small scope)", (m_[:2000], {"__raw__": m_[:4000]}))
            elif r_ == "sat" and k_ == "cone":
                # a counter-model of the cone extends to the full hypothesis set when the dropped part is satisfiable
                s3 = z3.Solver()
                s3.set("timeout", min(timeout_ms, 5000))
                for a in rest:
                    s3.add(a)
                if s3.check() != z3.unsat:
                    verdict = ("invalid", "z3-cone(cli)", (m_[:2000], {"__raw__": m_[:4000]}))
            if verdict is not None:
                break
        if verdict is None and live:
            time.sleep(0.02)
    for h_ in live.values():
        _z3cli_kill(h_)
    if verdict is not None:
        return verdict
    # none of the three processes decided: the cone once more, in-process (the API build with its own tactic
    # defaults decides some non-linear queries that the command-line run of the same version leaves open)
    s2 = z3.Solver()
    s2.set("timeout", timeout_ms)
    for a in cone:
        s2.add(a)
    s2.add(asserts[-1])
    r = s2.check()
    if r == z3.unsat:
        return "valid", "z3-cone", None
    if r == z3.sat:
        md = _model_to_dict(s2.model())
        ms = "; ".join(f"{k}={v}" for k, v in sorted(md.items()) if len(v) < 80)[:2000]
        s3 = z3.Solver()
        s3.set("timeout", min(timeout_ms, 5000))
        for a in rest:
            s3.add(a)
        if s3.check() != z3.unsat:
            return "invalid", "z3-cone", (ms, md)
    try:
        r2 = _cvc5_check(smt2, max(3000, timeout_ms // 2))
    except Exception:
        r2 = "unknown"
    if r2 == "unsat":
        return "valid", "cvc5", None
    if r2 == "sat":
        return "invalid", "cvc5", ("(cvc5 sat; no model extracted)", {})
    # REFUTE rendering for the uninterpreted pow2: add its TRUE values on a small exponent range and restrict the
    # exponents to that range.  This only strengthens the hypotheses with facts that hold for 2^k, so a model is a
    # genuine counter-model of the obligation (never used to prove anything).
    rr = _refute_with_pow2_table(asserts, min(timeout_ms // 2, 10000))
    if rr is not None:
        return "invalid", "z3-refute(pow2 table)", rr
    return "unknown", "z3+cvc5", None


def _pow2_apps(es):
    out = {}
    stack = list(es)
    seen = set()
    while stack:
        t = stack.pop()
        if t.get_id() in seen:
            continue
        seen.add(t.get_id())
        if z3.is_quantifier(t):
            stack.append(t.body())
            continue
        if z3.is_app(t):
            if t.decl().kind() == z3.Z3_OP_UNINTERPRETED and t.decl().name() == "pow2" and t.num_args() == 1:
                out[t.get_id()] = t
            stack.extend(t.children())
    return list(out.values())


def _refute_with_pow2_table(asserts, timeout_ms, rng=2):
    apps = _pow2_apps(asserts)
    if not apps:
        return None
    s = z3.Solver()
    s.set("timeout", timeout_ms)
    for a in asserts:
        s.add(a)
    for t in apps:
        e = t.arg(0)
        if z3.is_var(e) or not z3.is_int(e):
            continue
        table = z3.RealVal(2) ** 0
        val = None
        for k in range(rng, -rng - 1, -1):
            from fractions import Fraction

            fr = Fraction(2) ** k
            v = z3.RealVal(f"{fr.numerator}/{fr.denominator}")
            val = v if val is None else z3.If(e == k, v, val)
        s.add(e >= -rng, e <= rng, t == val)
    if s.check() == z3.sat:
        md = _model_to_dict(s.model())
        ms = "; ".join(f"{k}={v}" for k, v in sorted(md.items()) if len(v) < 80)[:2000]
        return (ms, md)
    return None


def _symbols(e, cache):
    k = e.get_id()
    if k in cache:
        return cache[k][1]
    out = set()
    stack = [e]
    seen = set()
    while stack:
        t = stack.pop()
        i = t.get_id()
        if i in seen:
            continue
        seen.add(i)
        if z3.is_quantifier(t):
            stack.append(t.body())
            continue
        if z3.is_app(t):
            d = t.decl()
            if d.kind() == z3.Z3_OP_UNINTERPRETED:
                out.add(d.name())
            stack.extend(t.children())
    cache[k] = (e, out)  # keep the term alive: z3 reuses ids of freed terms
    return out


_SYM_CACHE: dict = {}


def cone_of_influence(hyps, neg_goal):
    goal_syms = set(_symbols(neg_goal, _SYM_CACHE))
    hs = [(h, _symbols(h, _SYM_CACHE)) for h in hyps]
    cone_syms = set(goal_syms)
    in_cone = [False] * len(hs)
    changed = True
    while changed:
        changed = False
        for i, (h, sy) in enumerate(hs):
            if not in_cone[i] and (sy & cone_syms):
                in_cone[i] = True
                if not sy <= cone_syms:
                    cone_syms |= sy
                changed = True
    cone = [h for i, (h, _) in enumerate(hs) if in_cone[i]]
    rest = [h for i, (h, sy) in enumerate(hs) if not in_cone[i]]
    return cone, rest


def solve_valid(hyps, goal, timeout_ms):
    """Return ('valid'|'invalid'|'unknown', backend, (model_str, model_dict))."""
    s = z3.Solver()
    s.set("timeout", timeout_ms)
    for h in hyps:
        s.add(h)
    s.add(z3.Not(goal))
    r = s.check()
    if r == z3.unsat:
        return "valid", "z3", None
    if r == z3.sat:
        m = s.model()
        md = _model_to_dict(m)
        ms = "; ".join(f"{k}={v}" for k, v in sorted(md.items()) if len(v) < 80)[:2000]
        return "invalid", "z3", (ms, md)
    # unknown: try cvc5 on the SMT-LIB rendering
    try:
        r2 = _cvc5_check(s.to_smt2(), timeout_ms)
    except Exception:
        r2 = "unknown"
    if r2 == "unsat":
        return "valid", "cvc5", None
    if r2 == "sat":
        return "invalid", "cvc5", ("(cvc5 sat; no model extracted)", {})
    return "unknown", "z3+cvc5", None


_Z3_NEW = next((p_ for p_ in ("/usr/local/bin/z3-new", "/opt/veriftools/pyvenv/bin/z3") if os.path.exists(p_)), None)


def _z3cli_start(smt2: str, timeout_ms: int, exe="/usr/bin/z3"):
    if exe is None or not os.path.exists(exe):
        return None
    try:
        f = tempfile.NamedTemporaryFile("w", suffix=".smt2", delete=False)
        f.write(smt2 + "\n(get-model)\n")
        f.close()
        p = subprocess.Popen([exe, f"-T:{max(1, timeout_ms // 1000)}", f.name], stdout=subprocess.PIPE, stderr=subprocess.DEVNULL, text=True)
        return (p, f.name, time.time())
    except Exception:
        return None


def _z3cli_kill(h):
    if h is None:
        return
    p, fn, _ = h
    try:
        p.kill()
        p.communicate(timeout=5)
    except Exception:
        pass
    try:
        os.unlink(fn)
    except OSError:
        pass


def _z3cli_finish(h, timeout_ms: int):
    """wait for the CLI run started earlier (its budget counts from its start)"""
    if h is None:
        return "unknown", ""
    p, fn, t0 = h
    try:
        left = max(0.5, timeout_ms / 1000 + 2 - (time.time() - t0))
        out, _ = p.communicate(timeout=left)
        out = (out or "").strip()
        head = out.splitlines()[0].strip() if out else "unknown"
        if head in ("sat", "unsat"):
            return head, (" ".join(out.split()[1:]) if head == "sat" else "")
        return "unknown", ""
    except Exception:
        try:
            p.kill()
        except Exception:
            pass
        return "unknown", ""
    finally:
        try:
            os.unlink(fn)
        except OSError:
            pass


def _has_var(e) -> bool:
    stack = [e]
    while stack:
        t = stack.pop()
        if z3.is_var(t):
            return True
        if z3.is_app(t):
            stack.extend(t.children())
    return False


def _small_scope(smt2: str, asserts) -> str:
    """the query plus 0 <= c <= 2 for every free Int constant (sound for `sat` answers only)"""
    names = set()
    seen = set()
    stack = list(asserts)
    while stack:
        t = stack.pop()
        i = t.get_id()
        if i in seen:
            continue
        seen.add(i)
        if z3.is_quantifier(t):
            stack.append(t.body())
            continue
        if z3.is_app(t):
            if t.num_args() == 0 and t.decl().kind() == z3.Z3_OP_UNINTERPRETED and z3.is_int(t):
                names.add(t.sexpr())
            stack.extend(t.children())
    extra = "".join(f"(assert (and (<= 0 {n}) (<= {n} 2)))\n" for n in sorted(names))
    # ... and the TRUE values of the uninterpreted pow2 on exponents in [-2, 2] (exponents confined to that range):
    # again only a strengthening with facts that hold for 2^k
    try:
        seen_e = set()
        for t in _pow2_apps(asserts):
            e = t.arg(0)
            if z3.is_var(e) or not z3.is_int(e) or _has_var(e):
                continue
            es = e.sexpr().replace("\n", " ")
            if es in seen_e:
                continue
            seen_e.add(es)
            extra += (f"(assert (and (<= (- 2) {es}) (<= {es} 2) (= (pow2 {es}) (ite (= {es} 2) 4.0 (ite (= {es} 1) 2.0 "
                      f"(ite (= {es} 0) 1.0 (ite (= {es} (- 1)) 0.5 0.25)))))))\n")
    except Exception:  # noqa  (the helper run is optional)
        pass
    k = smt2.rfind("(check-sat)")
    return smt2[:k] + extra + smt2[k:] if k >= 0 else smt2 + extra


def _z3cli_first(full, small, timeout_ms: int):
    """wait for the full query and its small-scope strengthening together: `unsat` counts only from the full query,
    `sat` from either (whichever answers first)"""
    if small is None:
        return _z3cli_finish(full, timeout_ms)
    if full is None:
        r, m = _z3cli_finish(small, timeout_ms)
        return (r, m) if r == "sat" else ("unknown", "")
    t0 = full[2]
    deadline = t0 + timeout_ms / 1000 + 2
    done_small = False
    while time.time() < deadline:
        if full[0].poll() is not None:
            r, m = _z3cli_finish(full, timeout_ms)
            if r in ("sat", "unsat") or done_small:
                if not done_small:
                    _z3cli_kill(small)
                return r, m
            full = None
            break
        if not done_small and small[0].poll() is not None:
            done_small = True
            r, m = _z3cli_finish(small, timeout_ms)
            if r == "sat":
                _z3cli_kill(full)
                return "sat", m
        time.sleep(0.02)
    if full is not None:
        r, m = _z3cli_finish(full, timeout_ms)
        if r in ("sat", "unsat"):
            if not done_small:
                _z3cli_kill(small)
            return r, m
    if not done_small:
        r, m = _z3cli_finish(small, timeout_ms)
        if r == "sat":
            return "sat", m
    return "unknown", ""


def _z3cli_check(smt2: str, timeout_ms: int):
    exe = "/usr/bin/z3"
    if not os.path.exists(exe):
        return "unknown", ""
    with tempfile.NamedTemporaryFile("w", suffix=".smt2", delete=False) as f:
        f.write(smt2 + "\n(get-model)\n")
        fn = f.name
    try:
        p = subprocess.run([exe, f"-T:{max(1, timeout_ms // 1000)}", fn], capture_output=True, text=True, timeout=timeout_ms / 1000 + 5)
        out = p.stdout.strip()
        head = out.splitlines()[0].strip() if out else "unknown"
        if head in ("sat", "unsat"):
            model = " ".join(out.split()[1:]) if head == "sat" else ""
            return head, model
        return "unknown", ""
    except Exception:
        return "unknown", ""
    finally:
        os.unlink(fn)


def _cvc5_check(smt2: str, timeout_ms: int) -> str:
    exe = "/usr/bin/cvc5"
    if not os.path.exists(exe):
        return "unknown"
    with tempfile.NamedTemporaryFile("w", suffix=".smt2", delete=False) as f:
        f.write("(set-logic ALL)\n" + smt2)
        fn = f.name
    try:
        p = subprocess.run(
            [exe, f"--tlimit={timeout_ms}", fn], capture_output=True, text=True, timeout=timeout_ms / 1000 + 5
        )
        out = p.stdout.strip().splitlines()
        return out[0] if out else "unknown"
    except Exception:
        return "unknown"
    finally:
        os.unlink(fn)


class Explorer:
    """Runs a harness once per feasible path (depth-first over recorded decisions)."""

    def __init__(self, timeout_ms=None, max_paths=4000):
        self.work: list = [[]]
        self.results: dict = {}  # obligation name -> list of Obligation (one per path)
        self.timeout_ms = timeout_ms or QUICK_TIMEOUT_MS
        self.max_paths = max_paths
        self.paths = 0
        self.infeasible = 0
        self.order: list = []
        self.shared: dict = {}

    def push(self, decisions):
        self.work.append(list(decisions))

    def record(self, ob: Obligation):
        if ob.name not in self.results:
            self.results[ob.name] = []
            self.order.append(ob.name)
        self.results[ob.name].append(ob)

    def run(self, harness: Callable[[Path], None]):
        while self.work:
            if self.paths >= self.max_paths:
                raise Unsupported(f"path budget exceeded ({self.max_paths})")
            dec = self.work.pop()
            p = Path(self, dec)
            try:
                harness(p)
                self.paths += 1
            except Infeasible:
                self.infeasible += 1
        return self.results


def real_of_float(x: float):
    if x != x or x in (float("inf"), float("-inf")):
        raise Unsupported("a non-finite float (inf / nan) reached real arithmetic: no encoding over the reals")
    fr = Fraction(repr(x)) if isinstance(x, float) else Fraction(x)
    return z3.RealVal(f"{fr.numerator}/{fr.denominator}")


def sha(text: str) -> str:
    return hashlib.sha256(text.encode()).hexdigest()[:16]
