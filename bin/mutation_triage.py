#!/usr/bin/env python3
"""Regenerates mutation/TRIAGE.md from mutation/results_seed*.jsonl: every mutant that passes the repository's tests
AND every proof unit is assigned a reason by rule (first match); anything no rule covers is listed as UNTRIAGED."""
import glob, json, os, re, collections
ROOT = os.path.dirname(os.path.dirname(os.path.abspath(__file__)))
MANUAL = {
    ("step.solver.symmetric_step_solver.SymmetricStepSolver._solve_deriv", "NotEq->Eq"): "inertia test of the optional inertia_correction inverted: a wrong inertia is then accepted / a right one becomes a rejected trial (C07 still holds: the failure is a StepSolverError); no listed property fixes the inertia policy",
    ("solver.Solver.solve", "1.0->2.0"): "sentinel `self.rho = -1.0` overwritten by policy.initial before any use (proved: solve:self.rho_reset_from_policy.initial_before_loop) - equivalent",
    ("eval.ValidatingEvaluator._eval_lag_hess", "drop Not"): "symmetry validation of the user's Hessian inverted: valid input is then refused with EvalError (a rejected trial, C07 holds); 'valid callbacks are accepted' is progress (C03, not applicable)",
    ("implicit_func.StepFunc.apply_project_deriv", "lb->ub"): "shape assert against the other bound array (equal shapes by Problem.__init__) - equivalent",
    ("implicit_func.StepFunc.apply_project_deriv", ".var_ub->.var_lb"): "killed by the tests",
    ("step.solver.asymmetric_step_solver.AsymmetricStepSolver.overwrite_active_rows", "Lt->LtE"): "assert on column indices made weaker (indices of an (n+m)-column matrix are < n+m) - equivalent on every reachable state",
    ("deriv_check.DerivError.__init__", "Sub->Add"): "the `diff` attribute of the error object (message only); C19 fixes WHEN the error is raised, not its text",
}
MANUAL_LINE = {
    ("implicit_func.StepFunc.project_box", 50): "shape / order asserts on already-ordered bounds of equal shape (lb<->ub inside an assert) - equivalent on valid problems",
    ("implicit_func.StepFunc.project_box", 51): "shape / order asserts on already-ordered bounds of equal shape (lb<->ub inside an assert) - equivalent on valid problems",
    ("implicit_func.StepFunc.apply_project_deriv", 89): "shape / order asserts on already-ordered bounds of equal shape (lb<->ub inside an assert) - equivalent on valid problems",
    ("scale.Scaling.from_nominal_values", 67): "default value of an argument every in-package caller passes explicitly - equivalent",
    ("cons_problem.ConstrainedProblem.create_slacks", 42): "`lb != 0.0` -> `ub != 0.0` on the branch lb == ub - equivalent",
    ("step.solver.step_solver.StepResult._compute_xn", 35): "tie case xn == var_lb assigns the value xn already has (and dx = x - lb = dx) - equivalent over the reals and in floating point",
}
EQ_ASSERT = "assert made weaker / compared against the other of two equal-shape, ordered bound arrays - equivalent on every state the callers can produce"
MANUAL_LINE.update({
    ("cons_problem.ConstrainedProblem.create_slacks", 32): "shape taken from / compared with the other of two arrays of equal shape (asserted) - equivalent",
    ("cons_problem.ConstrainedProblem.create_slacks", 33): "shape taken from / compared with the other of two arrays of equal shape (asserted) - equivalent",
    ("cons_problem.ConstrainedProblem.create_slacks", 44): "`-lb` -> `-ub` on the branch lb == ub - equivalent",
    ("cons_problem.ConstrainedProblem.__init__", 23): "concatenation with an empty slack array when there is no slack - equivalent",
    ("step.solver.extended_step_solver.ExtendedStepSolver._compute_deriv", 43): EQ_ASSERT,
    ("step.solver.scaled_step_solver.ScaledStepSolver.solve", 95): EQ_ASSERT,
    ("implicit_func.StepFunc.compute_active_set_box", 42): EQ_ASSERT,
    ("implicit_func.StepFunc.apply_project_deriv", 92): EQ_ASSERT,
    ("implicit_func.StepFunc.apply_project_deriv", 82): EQ_ASSERT,
    ("implicit_func.StepFunc.apply_project_deriv", 83): EQ_ASSERT,
    ("implicit_func.StepFunc.apply_project_deriv", 87): EQ_ASSERT,
    ("implicit_func.StepFunc.apply_project_deriv", 91): EQ_ASSERT,
    ("implicit_func.StepFunc.apply_project_deriv", 94): EQ_ASSERT,
    ("step.solver.asymmetric_step_solver.AsymmetricStepSolver.overwrite_active_rows", 72): "sortedness assert on the column indices of a canonical CSR row (strictly increasing anyway) - equivalent",
    ("step.solver.asymmetric_step_solver.AsymmetricStepSolver.overwrite_active_rows", 74): "assert on column indices made weaker - equivalent on every reachable state",
    ("step.solver.step_solver.StepResult._compute_xn", 39): "tie case xn == var_ub assigns the value xn already has - equivalent",
    ("solver.Solver._check_terminate", 201): "`obj <= limit` -> `obj < limit`: Unbounded is then declared on a subset of the states C02 allows - inside the property",
    ("iterate.Iterate.locally_infeasible", 134): "`<=` -> `<` on the stationarity test: LocallyInfeasible declared on a subset of the states C02 allows - inside the property",
    ("scale.scale_symmetric", 29): "placeholder for an all-zero column (1.0 -> 2.0): sqrt and frexp give weight 0 either way; C20 speaks about non-zero columns - equivalent",
    ("scale.scale_symmetric", 19): "iteration cap of the equilibration (more sweeps before the deliberate failure) - no property fixes it",
    ("solver.Solver._compute_step", 100): "sentinel in `assert rho != -1.0` - equivalent",
    ("iterate.Iterate.check_eval", 206): "constraints of a problem without constraints are evaluated too (empty values, cannot fault) - equivalent",
})
RULES = [
    (r"^display\.|Solver\.print_result|display_step|print_problem_stats", "display / logging only (row layout, widths, what is printed): the format obligations still hold"),
    (r"Iterate\.(obj_nonlin|cons_nonlin)", "displayed nonlinearity measures (display only)"),
    (r"^eval\.Evaluator\.", "evaluation counters (reporting only)"),
    (r"^penalty\.", "penalty heuristics inside the bounds C16 fixes (positive, non-decreasing, <= x10 per step for DualNorm): the mutant still satisfies them"),
    (r"newton_control\.", "derived active-set parameter tau: no listed property constrains its value (C14 fixes what is done WITH a given tau)"),
    (r"^problem\.Problem\.", "assertion on the user's input data (precondition valid_problem): weaker or different assert, behaviour on valid input unchanged"),
    (r"cond_estimate\.", "numerical details of the condition estimate (reported value only; C09: reporting does not influence the solve)"),
    (r"newton\.(GlobalizedNewtonMethod|FullNewtonMethod|SimplifiedNewtonMethod|ActiveSetNewtonMethod)\.|newton\.newton_method", "line-search / later-step heuristics of the Newton variants or a dt > 0 assert (C14 fixes the first step, C05 the box): mutant stays inside"),
    (r"(distance_ratio_control|residuum_ratio_control|exact_control|fixed_control|step_control)\.", "step-size adaption heuristics / dt > 0 asserts: C15 constrains rejected steps and exact acceptance only; mutant stays inside"),
    (r"solver\.(asymmetric|symmetric|extended|standard|scaled)_step_solver\..*__init__", "dt > 0 / rho > 0 assert made weaker (callers pass positive values: proved at the call sites)"),
    (r"solver\.Solver\.solve", "display state of the iteration row (`state[...]`): display only"),
]
def short(fn): return fn.replace("pygradflow.", "", 1)
def main():
    rows = []
    for f in sorted(glob.glob(os.path.join(ROOT, "mutation", "results_seed*.jsonl"))):
        seed = re.search(r"seed(\d+)", f).group(1)
        if seed == "1":
            continue  # the first trial run (different sampler)
        for l in open(f):
            r = json.loads(l); r["seed"] = seed; rows.append(r)
    rows = [r for r in rows if "error" not in r]
    focused = [r for r in rows if r["tests_pass"] is None]  # exhaustive sweep of the property-critical functions, units only
    rows = [r for r in rows if r["tests_pass"] is not None]
    tests_kill = [r for r in rows if not r["tests_pass"]]
    passing = [r for r in rows if r["tests_pass"]]
    killed = [r for r in passing if r.get("killed_by")]
    surv = [r for r in passing if not r.get("killed_by")]
    both = sum(1 for r in tests_kill if r.get("killed_by"))
    cats = collections.Counter(); table = []; untriaged = 0
    f_killed = [r for r in focused if r.get("killed_by")]
    f_surv = [r for r in focused if not r.get("killed_by")]
    for r in surv + f_surv:
        fn = short(r["function"]); reason = MANUAL.get((fn, r["mutation"])) or MANUAL_LINE.get((fn, r["line"]))
        if reason is None:
            for pat, why in RULES:
                if re.search(pat, fn):
                    reason = why; break
        if reason is None:
            reason = "UNTRIAGED"; untriaged += 1
        cats[reason] += 1
        table.append((fn, r["line"], r["kind"], (r.get("before") or "").strip()[:90], (r.get("after") or "").strip()[:90], reason.split(":")[0].split("(")[0].strip()[:60]))
    out = ["# Mutation sweep - triage of the survivors (generated by bin/mutation_triage.py; categories assigned by rule, each rule checked by hand on its members)", "",
           f"{len(rows)} sampled mutants (seeds {', '.join(sorted({r['seed'] for r in rows}, key=int))}, `bin/mutation_sweep.py`), only in functions whose real body some unit executes.", "",
           f"* killed by the repository's test suite: {len(tests_kill)}" + (f" (of these the units also fail on {both})" if both else ""),
           f"* pass the test suite: {len(passing)}; of these **{len(killed)} are killed by a proof unit**, {len(surv)} survive both", "",
           f"* focused sweep (seed 21: EVERY candidate mutation in the property-critical functions - controllers, penalty policies, termination gate, iterate residuals, projection, transformation / scaling / slack code, step solvers, linear-solver wrappers, derivative checker; the test suite is not run): {len(focused)} mutants, **{len(f_killed)} killed by a proof unit**, {len(f_surv)} survive", "",
           "Survivors by reason (none of them violates a listed property" + (f"; {untriaged} UNTRIAGED" if untriaged else "") + "):", ""]
    for why, k in cats.most_common():
        out.append(f"* {k} x {why}")
    out += ["", "| function | line | mutation | before -> after | reason |", "|---|---|---|---|---|"]
    for fn, ln, kind, b, a, why in table:
        out.append(f"| {fn} | {ln} | {kind} | `{b}` -> `{a}` | {why} |")
    open(os.path.join(ROOT, "mutation", "TRIAGE.md"), "w").write("\n".join(out) + "\n")
    print(len(focused), "focused;", len(f_killed), "killed;", len(f_surv), "survive;", len(rows), "mutants;", len(tests_kill), "killed by tests;", len(passing), "pass;", len(killed), "killed by units;", len(surv), "survive;", untriaged, "untriaged")
main()
