#!/usr/bin/env python3
"""Regenerates MANIFEST.json from the table below (kept in one place so it stays valid)."""
import json, os
ROOT = os.path.dirname(os.path.dirname(os.path.abspath(__file__)))
TECH_EXTRA = {
    "C01": "; linear-algebra lemmas LA1b/LA2/LA3d and the slack-enumeration induction as lemma units / Lean theorems; one open known finding (integration solver) reported as KNOWN-FINDING",
    "C04": "; loop invariants over the real triplet / slack loops, ghost functions with an induction lemma unit (any number of rows)",
    "C05": "; plus IEEE float64 re-posing of the projection (z3 FP) and a monotone-rounding model for single precision",
    "C06": "; implicit obligations (assert, division, domain, index, shape, format) generated from every executed construct",
    "C08": "; composition of the loop contracts into the prefix statement machine-checked in Lean (lean/Prefix.lean, every run)",
    "C12": "; loop invariant with ghost history; triangle lemma LA5 in Lean (thorough tier)",
    "C14": "; entrywise assembly proofs incl. raw-CSR row surgery (loop invariant over data/indices/indptr); block-elimination lemma LA4 in Lean (thorough tier)",
}
TECH = "contract-based deductive verification: VCs generated from the real AST by /verif/pyvc (symbolic execution / weakest-precondition style), discharged by z3 (cvc5 fallback)"
CLAIMS = {
 "C16": ("post-conditions of every penalty policy's update/initial (next_rho >= rho > 0, Constant unchanged, DualNorm bounds) proved for all inputs over the reals from the real source; solve-loop invariant on rho",
         "A1 (reals), library contracts for numpy norm/dot; the penalty_strategy objects are symbolic records of their fields", "§4/C16"),
 "C18": ("representation invariant ND(entries) and the exact post-condition of PenaltyFilter.filter_insert/update proved for lists of unbounded length (order-preserving index map for the comprehension)",
         "A1; list comprehension / any() semantics as encoded in pyvc/npmodel.py (filter = increasing index map with inverse); entries are finite reals (no NaN)", "§4/C18"),
}
NOT_YET = {}
NA = {"C03": "convergence (liveness + numerical analysis) of the homotopy method for a problem class: no per-call contract, invariant or variant within reach of an SMT-discharged obligation expresses it (DESIGN §5)"}
def main():
    props = [json.loads(l)["id"] for l in open(os.path.join(ROOT, "properties.jsonl"))]
    extra = json.load(open(os.path.join(ROOT, "bin", "claims.json"))) if os.path.exists(os.path.join(ROOT, "bin", "claims.json")) else {}
    claims = dict(CLAIMS); claims.update({k: tuple(v) for k, v in extra.get("claims", {}).items()})
    na = dict(NA); na.update(extra.get("not_applicable", {}))
    checks = []
    for p in props:
        if p in claims:
            text, note, ref = claims[p]
            checks.append({"property_id": p, "quick_cmd": f"./check {p} --tier quick", "thorough_cmd": f"./check {p} --tier thorough",
                           "evidence_file": f"/verif/evidence/{p}.json", "replay_cmd_template": "./check --replay {path}", "engine": "pyvc",
                           "level_claimed": {"category": "proof", "text": text, "design_ref": ref}, "level_note": note, "technique": TECH + TECH_EXTRA.get(p, "")})
    nal = [{"property_id": p, "reason": na.get(p, "no check built yet in this round (the design in DESIGN.md §4 applies; not claimed until the obligations are generated and discharged)")} for p in props if p not in claims]
    man = {"version": 1, "setup_cmd": "./bin/setup.sh",
           "hooks": {"guard": "PYGRADFLOW_VERIF", "enable": "no hooks: contracts are sidecar files under /verif/contracts, the verifier reads /repo's source", "baseline_off_cmd": "cd /repo && /venv/bin/python -m pytest -ra -q -p no:cacheprovider --timeout=900 --continue-on-collection-errors", "source_commits": [], "add_only": True},
           "engines": [{"name": "pyvc", "path": "/verif/pyvc", "serves_properties": sorted(claims), "kind_free_text": "AST->z3 verification-condition generator with sidecar contracts, loop invariants, exception-flow and frame obligations; native replay"}],
           "checks": checks, "not_applicable": nal,
           "notes": "exit codes of ./check: 0 held, 1 violation (VIOLATION line), 2 undecided (unsupported syntax / solver unknown), 3 checker defect. Known findings: /verif/known_findings.json"}
    json.dump(man, open(os.path.join(ROOT, "MANIFEST.json"), "w"), indent=1)
    print("claimed:", sorted(claims), "not claimed:", [x["property_id"] for x in nal])
main()
