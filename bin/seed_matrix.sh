#!/bin/sh
# runs the quick check of each seed's property on a scratch copy of /repo with the seed applied; writes seeded/<id>/detection.json
# usage: seed_matrix.sh [prefix] [jobs]   (jobs seeds in parallel, default 4)
cd /verif
if [ "$1" = "--one" ]; then
  d=seeded/$2/; id=$2; prop=$(echo $id | cut -d- -f1)
  W=/tmp/seedrun_$id; rm -rf $W; mkdir -p $W && cp -r /repo/pygradflow $W/
  if ! (cd $W && patch -p1 -s < /verif/$d/patch.diff) >/dev/null 2>&1; then echo "$id: patch does not apply"; rm -rf $W; exit 0; fi
  out=$(PYVC_REPO=$W PYVC_NO_EVIDENCE=1 ./check $prop --tier quick 2>&1); rc=$?
  nv=$(echo "$out" | grep -c "^VIOLATION"); nu=$(echo "$out" | grep -c "^UNDECIDED"); nf=$(echo "$out" | grep "^VIOLATION" | grep -vc "no-failing-input-found")
  first=$(echo "$out" | grep "^VIOLATION" | head -1 | sed 's/.*replay=//' | awk '{print $1}')
  ob=""; [ -n "$first" ] && ob=$(/verif/.venv/bin/python -c "import json,sys; print(json.load(open('$first')).get('obligation',''))" 2>/dev/null)
  echo "$id: exit=$rc violations=$nv with_input=$nf undecided=$nu first=$ob"
  printf '{"seed": "%s", "property": "%s", "check_exit": %s, "violation_lines": %s, "with_failing_input": %s, "undecided": %s, "first_failed_obligation": "%s"}\n' "$id" "$prop" "$rc" "$nv" "$nf" "$nu" "$ob" > $d/detection.json
  rm -rf $W
  exit 0
fi
ls -d seeded/${1:-}*/ | xargs -n1 basename | xargs -P ${2:-4} -n1 /verif/bin/seed_matrix.sh --one
