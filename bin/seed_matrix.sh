#!/bin/sh
# runs the quick check of each seed's property on a scratch copy of /repo with the seed applied; writes seeded/<id>/detection.json
# usage: seed_matrix.sh [prefix] [jobs]   (jobs seeds in parallel, default 4)
cd /verif
if [ "$1" = "--one" ]; then
  d=seeded/$2/; id=$2; prop=$(echo $id | cut -d- -f1)
  W=/tmp/seedrun_$id; rm -rf $W; mkdir -p $W && cp -r /repo/pygradflow $W/
  if ! (cd $W && patch -p1 -s < /verif/$d/patch.diff) >/dev/null 2>&1; then echo "$id: patch does not apply"; rm -rf $W; exit 0; fi
  out=$(PYVC_REPO=$W PYVC_NO_EVIDENCE=1 ./check $prop --tier quick 2>&1); rc=$?
  nv=$(echo "$out" | grep -c "^VIOLATION"); nu=$(echo "$out" | grep -c "^UNDECIDED"); nf=$(echo "$out" | grep "^VIOLATION" | grep -vc "no-failing-input-found")
  first=$(echo "$out" | grep "^VIOLATION" | head -1 | sed 's/.*replay=//' | awk '{print $1}')
  ob=""; [ -n "$first" ] && ob=$(/verif/.venv/bin/python -c "import json,sys; print(json.load(open('$first')).get('obligation',''))" 2>/dev/null)
  files=$(echo "$out" | grep "^VIOLATION" | sed 's/.*replay=//' | awk '{print $1}')
  nn=0; nun=0; firstunit=""
  for f in $files; do o=$(/verif/.venv/bin/python -c "import json,sys; print(json.load(open('$f')).get('obligation',''))" 2>/dev/null); case "$o" in native:*) nn=$((nn+1));; *) nun=$((nun+1)); [ -z "$firstunit" ] && firstunit="$o";; esac; done
  echo "$id: exit=$rc violations=$nv (units=$nun natives=$nn) with_input=$nf undecided=$nu first=$ob"
  printf '{"seed": "%s", "property": "%s", "check_exit": %s, "violation_lines": %s, "failed_proof_obligations": %s, "failed_native_checks": %s, "with_failing_input": %s, "undecided": %s, "first_failed_obligation": "%s", "first_failed_proof_obligation": "%s"}\n' "$id" "$prop" "$rc" "$nv" "$nun" "$nn" "$nf" "$nu" "$ob" "$firstunit" > $d/detection.json
  rm -rf $W
  exit 0
fi
ls -d seeded/${1:-}*/ | xargs -n1 basename | xargs -P ${2:-4} -n1 /verif/bin/seed_matrix.sh --one
