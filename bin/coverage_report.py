#!/usr/bin/env python3
"""Which functions of the in-scope modules have their REAL body executed symbolically by at least one unit, which are
only ever seen through a contract, and which are touched by no unit at all (the blind spots).  Runs every unit."""
import sys, os, json, importlib, pkgutil, multiprocessing as mp
ROOT = os.path.dirname(os.path.dirname(os.path.abspath(__file__)))
sys.path.insert(0, ROOT)
import contracts
for m in pkgutil.iter_modules(contracts.__path__):
    importlib.import_module("contracts." + m.name)
from pyvc.harness import UNITS, run_unit


def one(name):
    r = run_unit(UNITS[name], timeout_ms=10000)
    return name, r.status, r.executed, r.via_contract


if __name__ == "__main__":
    from contracts.frames import in_scope_functions
    from pyvc.repo import Repo

    with mp.Pool(16) as pool:
        out = pool.map(one, list(UNITS), chunksize=1)
    executed, contract = {}, {}
    for name, st, ex, vc in out:
        for q in ex:
            executed.setdefault(q, []).append(name)
        for q in vc:
            contract.setdefault(q, []).append(name)
    repo = Repo()
    scope = sorted(f.qualname for f in in_scope_functions(repo))
    rep = {"executed": {}, "contract_only": {}, "untouched": [], "units_executing": {q: sorted(v) for q, v in executed.items()}}
    for q in scope:
        if q in executed:
            rep["executed"][q] = len(executed[q])
        elif q in contract:
            rep["contract_only"][q] = contract[q][:3]
        else:
            rep["untouched"].append(q)
    json.dump(rep, open(os.path.join(ROOT, "coverage.json"), "w"), indent=1)
    print(f"in-scope functions: {len(scope)}; real body executed by some unit: {len(rep['executed'])}; contract only: {len(rep['contract_only'])}; untouched: {len(rep['untouched'])}")
    for q in rep["contract_only"]:
        print("  contract-only:", q)
    for q in rep["untouched"]:
        print("  untouched:", q)
