#!/bin/sh
# applies every behaviour-preserving patch of refactorings/ to a scratch copy of /repo and runs all quick checks on it:
# every check must stay green (no VIOLATION, no UNDECIDED, no CHECKER-ERROR; C01 keeps its KNOWN-FINDING lines)
cd /verif
W=/tmp/refprobe_$$; rm -rf $W; mkdir -p $W && cp -r /repo/pygradflow $W/
for d in refactorings/r*.diff; do (cd $W && patch -p1 -s < /verif/$d) || echo "$d does not apply"; done
bad=0
for p in $(/verif/.venv/bin/python -c "import json; print(' '.join(c['property_id'] for c in json.load(open('/verif/MANIFEST.json'))['checks']))" 2>/dev/null); do
  out=$(PYVC_REPO=$W PYVC_NO_EVIDENCE=1 ./check $p --tier quick 2>&1); rc=$?
  echo "$out" | grep -E "^(VIOLATION|UNDECIDED|CHECKER-ERROR)" | cut -c1-220
  echo "$out" | grep -E "^C[0-9]+ \[" 
  [ $rc -ne 0 ] && bad=1
done
rm -rf $W
[ $bad -eq 0 ] && echo "refactoring probe: all checks green" || echo "refactoring probe: NOT green"
exit $bad
