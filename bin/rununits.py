import sys, json, importlib, time
sys.path.insert(0, '/verif')
import pkgutil, contracts; mods = ['contracts.'+m.name for m in pkgutil.iter_modules(contracts.__path__)]
for m in mods: importlib.import_module(m)
from pyvc.harness import UNITS, run_unit
pat = sys.argv[1] if len(sys.argv) > 1 else ""
exact = pat.startswith("=")
pat = pat[1:] if exact else pat
for name, un in UNITS.items():
    if pat and ((name != pat) if exact else (pat not in name)): continue
    r = run_unit(un)
    print(f"== {name}: {r.status} paths={r.paths} infeasible={r.infeasible} t={r.time_s:.2f}s {r.message[:1500]}")
    for s, d in r.sites.items():
        flag = '' if d['status']=='discharged' else '   <<<<<<'
        print(f"   {d['status']:11s} {d['kind']:8s} x{d['instances']:<3d} {s}{flag}" + (f"  [{d.get('time_s')}s {','.join(d.get('backends', []))}]" if d.get('time_s', 0) > 1 else ""))
        if d['status']!='discharged': print("        goal:", d['goal'][:300]); print("        model:", (d.get('model') or '')[:300])
