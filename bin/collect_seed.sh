#!/bin/sh
# usage: collect_seed.sh <seed-id> <worktree>  - copies <worktree>/_seed into seeded/<seed-id>, removes the worktree, verifies the seed
ID=$1; W=$2
[ -f $W/_seed/patch.diff ] || { echo "no seed in $W"; exit 1; }
mkdir -p /verif/seeded/$ID && cp $W/_seed/patch.diff /verif/seeded/$ID/patch.diff && cp $W/_seed/demo.py /verif/seeded/$ID/demo.py && cp $W/_seed/demo.py /verif/seeded/$ID/demonstration.py && cp $W/_seed/meta.json /verif/seeded/$ID/meta.json
git -C /repo worktree remove --force $W
/verif/bin/verify_seed.sh /verif/seeded/$ID
