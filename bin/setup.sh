#!/bin/sh
# Build /verif/.venv offline: /venv's python + wheelhouse z3-solver/cvc5 + .pth to /venv's site-packages.
set -e
cd "$(dirname "$0")/.."
if [ ! -x .venv/bin/python ] || ! .venv/bin/python -c "import z3, numpy, scipy" 2>/dev/null; then
  rm -rf .venv
  /venv/bin/python -m venv .venv
  PIP_NO_INDEX=1 .venv/bin/python -m pip install -q --no-index --find-links /opt/veriftools/wheels z3-solver cvc5 jsonschema >/dev/null
  SP=$(.venv/bin/python -c "import site; print(site.getsitepackages()[0])")
  echo "import site; site.addsitedir('/venv/lib/python3.12/site-packages')" > "$SP/_venv_overlay.pth"
fi
.venv/bin/python -c "import z3, numpy, scipy; print('setup ok: z3', z3.get_version_string(), 'numpy', numpy.__version__, 'scipy', scipy.__version__)"
