#!/bin/sh
# usage: verify_seed.sh <seed_dir>   (contains patch.diff, demo.py, meta.json)
# Confirms in a scratch worktree: suite 209 pass with patch; demo fails with patch; demo passes without.
S=$(realpath "$1"); ID=$(basename "$S")
W=$(mktemp -d /tmp/vseed_XXXX)
git -C /repo worktree add -q --detach "$W/wt" HEAD || exit 3
cd "$W/wt"
mkdir -p _seed && cp "$S/demo.py" _seed/
/venv/bin/python _seed/demo.py >"$W/clean.log" 2>&1; CLEAN=$?
git apply "$S/patch.diff" || { echo "$ID: patch does not apply"; git -C /repo worktree remove --force "$W/wt"; rm -rf "$W"; exit 3; }
/venv/bin/python _seed/demo.py >"$W/mut.log" 2>&1; MUT=$?
/venv/bin/python -m pytest -q -p no:cacheprovider --timeout=900 tests >"$W/tests.log" 2>&1
TL=$(grep -E "[0-9]+ passed" "$W/tests.log" | tail -1 | tr -d "=")
echo "$ID: demo_clean_exit=$CLEAN demo_mutant_exit=$MUT tests: $TL"
echo "{\"demo_clean_exit\": $CLEAN, \"demo_mutant_exit\": $MUT, \"tests_tail\": \"$TL\", \"mutant_demo_tail\": $(tail -3 "$W/mut.log" | /venv/bin/python -c 'import sys,json; print(json.dumps(sys.stdin.read()[-600:]))')}" > "$S/verified.json"
cd /; git -C /repo worktree remove --force "$W/wt"; rm -rf "$W"
