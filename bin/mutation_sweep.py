#!/usr/bin/env python3
"""Systematic mutation sweep (self-assessment of the proof units, not a registered check).

For a random sample of small AST mutations in the functions whose real body some unit executes:
  1. does the repository's own test suite still pass (same outcome as the baseline)?   -> the mutant 'survives the tests'
  2. do the proof units that execute that function still discharge everything?        -> 'killed by a unit' otherwise
Writes mutation/results.jsonl (one line per mutant) and prints the kill matrix.  Needs coverage.json
(bin/coverage_report.py).  Usage: mutation_sweep.py <count> [seed] [jobs]"""
import ast, copy, json, os, random, re, shutil, subprocess, sys, tempfile, time
from concurrent.futures import ThreadPoolExecutor

ROOT = os.path.dirname(os.path.dirname(os.path.abspath(__file__)))
REPO = os.environ.get("PYVC_REPO", "/repo")
KNOWN_FAIL = None


class Site:
    def __init__(self, file, qual, lineno, col, kind, detail):
        self.file, self.qual, self.lineno, self.col, self.kind, self.detail = file, qual, lineno, col, kind, detail


CMP = {ast.Lt: ast.LtE, ast.LtE: ast.Lt, ast.Gt: ast.GtE, ast.GtE: ast.Gt, ast.Eq: ast.NotEq, ast.NotEq: ast.Eq}
BIN = {ast.Add: ast.Sub, ast.Sub: ast.Add, ast.Mult: ast.Div, ast.Div: ast.Mult}


def candidates(tree, modname):
    out = []

    def visit(node, qual):
        for ch in ast.iter_child_nodes(node):
            q = qual
            if isinstance(ch, (ast.FunctionDef, ast.ClassDef)):
                q = qual + "." + ch.name
            if isinstance(ch, ast.Compare) and len(ch.ops) == 1 and type(ch.ops[0]) in CMP:
                out.append((q, ch, "cmp"))
            if isinstance(ch, ast.BinOp) and type(ch.op) in BIN:
                out.append((q, ch, "binop"))
            if isinstance(ch, ast.BoolOp):
                out.append((q, ch, "boolop"))
            if isinstance(ch, ast.UnaryOp) and isinstance(ch.op, (ast.Not, ast.USub)):
                out.append((q, ch, "unary"))
            if isinstance(ch, ast.Constant) and isinstance(ch.value, (int, float)) and not isinstance(ch.value, bool) and ch.value not in (0,):
                out.append((q, ch, "const"))
            if isinstance(ch, ast.Call) and isinstance(ch.func, ast.Attribute) and ch.func.attr in ("maximum", "minimum", "max", "min"):
                out.append((q, ch, "minmax"))
            if isinstance(ch, ast.Name) and isinstance(ch.ctx, ast.Load) and ch.id in ("lb", "ub", "var_lb", "var_ub", "cons_lb", "cons_ub", "at_lower", "at_upper"):
                out.append((q, ch, "swapname"))
            if isinstance(ch, ast.Attribute) and isinstance(ch.ctx, ast.Load) and ch.attr in ("var_lb", "var_ub", "cons_lb", "cons_ub", "at_lower", "at_upper"):
                out.append((q, ch, "swapattr"))
            visit(ch, q)

    visit(tree, modname)
    return out


SWAP = {"lb": "ub", "ub": "lb", "var_lb": "var_ub", "var_ub": "var_lb", "cons_lb": "cons_ub", "cons_ub": "cons_lb", "at_lower": "at_upper", "at_upper": "at_lower"}


def mutate(node, kind, rng):
    if kind == "cmp":
        old = type(node.ops[0]).__name__
        node.ops[0] = CMP[type(node.ops[0])]()
        return f"{old}->{type(node.ops[0]).__name__}"
    if kind == "binop":
        old = type(node.op).__name__
        node.op = BIN[type(node.op)]()
        return f"{old}->{type(node.op).__name__}"
    if kind == "boolop":
        old = type(node.op).__name__
        node.op = ast.Or() if isinstance(node.op, ast.And) else ast.And()
        return f"{old}->{type(node.op).__name__}"
    if kind == "unary":
        # drop the operator: replace by a no-op UAdd for USub, identity for Not via double negation removal
        old = type(node.op).__name__
        node.op = ast.UAdd() if isinstance(node.op, ast.USub) else ast.Not()
        if old == "Not":
            node.operand = ast.UnaryOp(op=ast.Not(), operand=node.operand)
        return f"drop {old}"
    if kind == "const":
        old = node.value
        node.value = {1: 2, 2: 1, 10: 100, 10.0: 100.0, 0.5: 2.0, 2.0: 0.5, 1.0: 2.0}.get(old, old * 2 if isinstance(old, (int, float)) else old)
        return f"{old}->{node.value}"
    if kind == "minmax":
        old = node.func.attr
        node.func.attr = {"maximum": "minimum", "minimum": "maximum", "max": "min", "min": "max"}[old]
        return f"{old}->{node.func.attr}"
    if kind == "swapname":
        old = node.id
        node.id = SWAP[old]
        return f"{old}->{node.id}"
    if kind == "swapattr":
        old = node.attr
        node.attr = SWAP[old]
        return f".{old}->.{node.attr}"


def baseline_failures():
    global KNOWN_FAIL
    if KNOWN_FAIL is None:
        b = json.load(open("/root/.vp/BASELINE.json"))
        KNOWN_FAIL = True
    return KNOWN_FAIL


def run_mutant(args):
    idx, relfile, qual, kind, pick, units = args
    W = tempfile.mkdtemp(prefix="mut_", dir="/tmp")
    try:
        shutil.copytree(os.path.join(REPO, "pygradflow"), os.path.join(W, "pygradflow"))
        shutil.copytree(os.path.join(REPO, "tests"), os.path.join(W, "tests"))
        for f in ("pyproject.toml", "setup.cfg", "conftest.py", "pytest.ini"):
            if os.path.exists(os.path.join(REPO, f)):
                shutil.copy(os.path.join(REPO, f), W)
        path = os.path.join(W, relfile)
        src = open(path).read()
        tree = ast.parse(src)
        modname = relfile[:-3].replace("/", ".")
        cands = [c for c in candidates(tree, modname) if c[0] == qual and c[2] == kind]
        if pick >= len(cands):
            return None
        node = cands[pick][1]
        line = getattr(node, "lineno", 0)
        before = ast.unparse(node)
        what = mutate(node, kind, None)
        after = ast.unparse(node)
        # textual replacement on the source line keeps the rest of the file byte-identical
        lines = src.split("\n")
        seg = ast.get_source_segment(src, cands[pick][1]) if False else None
        open(path, "w").write(ast.unparse(tree) + "\n")
        t0 = time.time()
        if os.environ.get("MUT_SKIP_TESTS"):
            tests_pass = None  # focused sweep: only the proof units are asked
        else:
            p = subprocess.run(["/venv/bin/python", "-m", "pytest", "-q", "-x", "-p", "no:cacheprovider", "--timeout=600", "tests"] + DESELECT, cwd=W, capture_output=True, text=True, timeout=1500)
            tests_pass = p.returncode == 0
        t_tests = time.time() - t0
        t0 = time.time()
        env = dict(os.environ, PYVC_REPO=W, PYTHONPATH=W)
        killed_by = []
        for un in units:
            q = subprocess.run([os.path.join(ROOT, ".venv/bin/python"), os.path.join(ROOT, "bin/rununits.py"), "=" + un], cwd=ROOT, env=env, capture_output=True, text=True, timeout=1200)
            head = [l for l in q.stdout.split("\n") if l.startswith("== ")]
            if head and not head[0].split(": ", 1)[1].startswith("ok"):
                killed_by.append((un, head[0].split(": ", 1)[1].split(" ")[0]))
        return dict(idx=idx, file=relfile, function=qual, line=line, kind=kind, mutation=what, before=before[:120], after=after[:120], tests_pass=tests_pass, units=units, killed_by=killed_by, t_tests=round(t_tests, 1), t_units=round(time.time() - t0, 1))
    except Exception as e:  # noqa
        return dict(idx=idx, file=relfile, function=qual, kind=kind, error=repr(e)[:300])
    finally:
        shutil.rmtree(W, ignore_errors=True)


DESELECT = []


def main():
    count = int(sys.argv[1]) if len(sys.argv) > 1 else 40
    seed = int(sys.argv[2]) if len(sys.argv) > 2 else 1
    jobs = int(sys.argv[3]) if len(sys.argv) > 3 else 4
    cov = json.load(open(os.path.join(ROOT, "coverage.json")))
    ue = cov["units_executing"]
    # the 9 tests that fail on the unchanged tree (optional dependencies)
    if not os.environ.get("MUT_SKIP_TESTS"):
        p = subprocess.run(["/venv/bin/python", "-m", "pytest", "-q", "-p", "no:cacheprovider", "--timeout=600", "tests"], cwd=REPO, capture_output=True, text=True)
        for l in p.stdout.split("\n"):
            if l.startswith("FAILED "):
                DESELECT.extend(["--deselect", l.split(" ")[1]])
    print("baseline failing tests deselected:", len(DESELECT) // 2, flush=True)
    rng = random.Random(seed)
    pool = []
    for root, _, files in os.walk(os.path.join(REPO, "pygradflow")):
        for f in files:
            if not f.endswith(".py"):
                continue
            rel = os.path.relpath(os.path.join(root, f), REPO)
            if any(x in rel for x in ("integration/", "runners/", "cutest", "opti_control", "box_control", "ma57", "mumps", "cyipopt")):
                continue
            tree = ast.parse(open(os.path.join(REPO, rel)).read())
            modname = rel[:-3].replace("/", ".")
            seen = {}
            for q, node, kind in candidates(tree, modname):
                if q not in ue:
                    continue
                if os.environ.get("MUT_ONLY") and not re.search(os.environ["MUT_ONLY"], q):
                    continue
                k = seen.get((q, kind), 0)
                seen[(q, kind)] = k + 1
                pool.append((rel, q, kind, k))
    rng.shuffle(pool)
    sample = pool[:count]
    print(f"{len(pool)} candidate mutations in functions executed by some unit; sampling {len(sample)}", flush=True)
    os.makedirs(os.path.join(ROOT, "mutation"), exist_ok=True)
    out = open(os.path.join(ROOT, "mutation", f"results_seed{seed}.jsonl"), "w")
    jobs_ = [(i, rel, q, kind, k, [u for u in ue[q] if "[bounded" not in u][:int(os.environ.get("MUT_MAX_UNITS", "6"))]) for i, (rel, q, kind, k) in enumerate(sample)]
    with ThreadPoolExecutor(jobs) as ex:
        for r in ex.map(run_mutant, jobs_):
            if r is None:
                continue
            out.write(json.dumps(r) + "\n")
            out.flush()
            if "error" in r:
                print(r["idx"], "ERROR", r["error"], flush=True)
            else:
                print(r["idx"], r["function"].split("pygradflow.")[-1], r["kind"], r["mutation"], "| tests", "-" if r["tests_pass"] is None else ("pass" if r["tests_pass"] else "FAIL"), "| units", "KILL " + ",".join(k[0] for k in r["killed_by"]) if r["killed_by"] else "| units survive", flush=True)


if __name__ == "__main__":
    main()
