#!/bin/sh
# usage: try_seed.sh <seed-id> <prop> [more check args]  - applies the seed to a scratch copy and runs ./check on it
S=/verif/seeded/$1; P=$2; shift 2
W=/tmp/tryseed_$$; mkdir -p $W && cp -r /repo/pygradflow $W/ && (cd $W && git init -q . 2>/dev/null; patch -p1 -s < $S/patch.diff) || { echo "patch failed"; rm -rf $W; exit 9; }
PYVC_REPO=$W PYVC_NO_EVIDENCE=1 /verif/check $P "$@" 2>&1 | grep -v "^WARNING" | tail -8
echo "exit=$?"; rm -rf $W
