"""C14 - all step-solver choices compute the same Newton step.

1. hand-over contracts of update_derivs (written from the statement: 'the solution of the linearised residual
   equation'): a StandardStepSolver holds J and H(x, y + rho c) + rho J^T J; a ScaledStepSolver
   (Extended / Symmetric / Asymmetric) must hold J and H0 = H(x, y + rho c) - the Hessian for which the block
   elimination (lemma LA4) reproduces the standard step;
2. ScaledStepSolver.solve: lamb = 1/dt, fact = 1/(1 + lamb rho) > 0, b2t = fact*b2, dx = sx, dy = fact*(sy - rho*b2)
   around an abstract solve_scaled (the three matrix assemblies are outside the subset: bounded native oracle);
3. Newton variants: Simplified, Full and ActiveSet all solve their FIRST step with derivatives of orig_iterate and the
   active set computed at orig_iterate.
"""
from __future__ import annotations

import z3

from pyvc import matmodel, ops
from pyvc.core import QAll
from pyvc.harness import unit
from pyvc.interp import PyFunc
from pyvc.values import Arr, Mat, Obj, Opaque

from .common import mk_iterate, mk_params, mk_problem
from .models import _fresh_vec, mk_evaluator
from .spec import V

SOL = "pygradflow.step.solver."


def _hess_logger(u, problem, calls):
    def lag_hess(it, self_, x, lag):
        calls.append((x, lag))
        # the evaluator hands out the user's own matrix object (astype is the identity in double precision)
        return Mat(problem.fields["__n__"], problem.fields["__n__"], None, name=it.path.fresh_name("H"), region="USER", fmt=it.path.ghost.get("__user_fmt__", "coo"))

    u.it.abstract["pygradflow.eval.Evaluator.lag_hess"] = lag_hess


def update_derivs_unit(name, qual, standard, owner=None):
    @unit(f"C14.update_derivs.{name}", ["C14", "C11"], [(owner or qual) + ".update_derivs", "pygradflow.iterate.Iterate.aug_lag_deriv_xx", "pygradflow.iterate.Iterate.aug_lag_deriv_xy"], config={"max_paths": 50})
    def ud(u):
        params = mk_params(u)
        problem = mk_problem(u)
        ev = mk_evaluator(u, problem)
        orig = mk_iterate(u, problem, params, "orig", in_box=True)
        orig.fields["eval"] = ev
        cur = mk_iterate(u, problem, params, "cur", in_box=True)
        cur.fields["eval"] = ev
        dt, rho = u.real("dt"), u.real("rho")
        u.assume(dt > 0)
        u.assume(rho > 0)
        u.it.abstract["pygradflow.implicit_func.ScaledImplicitFunc.__init__"] = lambda it, s, p, i, d: None
        ss = u.construct(qual, problem, params, orig, dt, rho)
        calls = []
        _hess_logger(u, problem, calls)
        # C11: the Jacobian / Hessian objects belong to the caller (cached callbacks return them again and again)
        from .c04_transform import StoreLog

        fmt = ["coo", "csr", "csc"][u.path.choose_n(3, "format of the user's matrices")]
        u.path.ghost["__user_fmt__"] = fmt
        cur.fields["cons_jac"].region = "USER"
        cur.fields["cons_jac"].fmt = fmt
        slog = StoreLog(u)
        u.method(ss, "update_derivs", cur)
        slog.check()
        n, m = problem.fields["__n__"], problem.fields["num_cons"]
        J = cur.fields["cons_jac"]
        jac = ss.fields["_jac"]
        u.ensure(jac is J or getattr(jac, "copy_of", None) is J or getattr(jac, "name", None) == J.name, "holds_the_Jacobian_of_the_given_iterate")
        u.ensure(len(calls) == 1 and calls[0][0] is cur.fields["x"], "Hessian_evaluated_once_at_the_given_iterate")
        if calls:
            lv, yv, cv = V(calls[0][1]), V(cur.fields["y"]), V(cur.fields["cons"])
            u.ensure(QAll(m, lambda i: lv.f(i) == yv.f(i) + rho * cv.f(i)), "Hessian_multiplier==y+rho*c")
        H = ss.fields["_hess"]
        base = getattr(H, "copy_of", H)
        if standard:
            so = getattr(base, "sum_of", None)
            ok = so is not None and so[2] == 1 and getattr(so[1], "scaled", None) is not None and getattr(so[1].scaled[1], "factors", (None, None))[1] is J
            u.ensure(ok, "standard:holds_H+rho*J^T*J")
            if ok:
                u.ensure(so[1].scaled[0] == rho, "standard:penalty_term_scaled_by_rho")
        else:
            u.ensure(getattr(base, "sum_of", None) is None, "scaled:holds_the_plain_Hessian_H0(no_rho*J^T*J_term:eliminated_by_the_(2,2)_block)")
        u.ensure(ss.fields.get("solver") is None and (ss.fields.get("_deriv") is None if not standard else ss.fields.get("deriv") is None), "cached_factorisation_and_matrix_reset")
        u.cover("end")

    return ud


update_derivs_unit("Standard", SOL + "standard_step_solver.StandardStepSolver", True)
update_derivs_unit("Extended", SOL + "extended_step_solver.ExtendedStepSolver", False, SOL + "scaled_step_solver.ScaledStepSolver")
update_derivs_unit("Symmetric", SOL + "symmetric_step_solver.SymmetricStepSolver", False)
update_derivs_unit("Asymmetric", SOL + "asymmetric_step_solver.AsymmetricStepSolver", False)


@unit("C14.ScaledStepSolver.solve", ["C14", "C06"], [SOL + "scaled_step_solver.ScaledStepSolver.solve"], config={"max_paths": 50, "implicit_props": ["C06", "C14"]})
def scaled_solve(u):
    params = mk_params(u)
    problem = mk_problem(u)
    n, m = problem.fields["__n__"], problem.fields["num_cons"]
    orig = mk_iterate(u, problem, params, "orig", in_box=True)
    dt, rho = u.real("dt"), u.real("rho")
    u.assume(dt > 0)
    u.assume(rho > 0)
    u.it.abstract["pygradflow.implicit_func.ScaledImplicitFunc.__init__"] = lambda it, s, p, i, d: None
    ss = u.construct(SOL + "extended_step_solver.ExtendedStepSolver", problem, params, orig, dt, rho)
    ss.fields["_active_set"] = u.vec("active_set", n, kind="bool")
    na, ni = u.int("nact"), u.int("ninact")
    u.assume(z3.And(na >= 0, ni >= 0, na + ni == n))
    b0, b1, b2 = _fresh_vec(u.it, "b0", na), _fresh_vec(u.it, "b1", ni), _fresh_vec(u.it, "b2", m)
    u.it.abstract[SOL + "scaled_step_solver.ScaledStepSolver.initial_rhs"] = lambda it, s, i: (b0, b1, b2)
    got = {}
    sx, sy = _fresh_vec(u.it, "sx", n), _fresh_vec(u.it, "sy", m)

    def solve_scaled(it, s, a0, a1, a2t):
        got["args"] = (a0, a1, a2t)
        return (sx, sy, None)

    u.it.abstract[SOL + "extended_step_solver.ExtendedStepSolver.solve_scaled"] = solve_scaled
    res = u.method(ss, "solve", orig)
    lam = 1 / dt
    fact = 1 / (1 + lam * rho)
    a0, a1, a2t = got["args"]
    u.ensure(a0 is b0 and a1 is b1, "solve_scaled_receives_b0,b1_unchanged")
    u.ensure(QAll(m, lambda i: V(a2t).f(i) == fact * V(b2).f(i)), "b2t==b2/(1+lamb*rho)")
    dx, dy = V(res.fields["dx"]), V(res.fields["dy"])
    lb, ub, x = V(problem.fields["var_lb"]), V(problem.fields["var_ub"]), V(orig.fields["x"])
    u.ensure(QAll(m, lambda i: dy.f(i) == fact * (V(sy).f(i) - rho * V(b2).f(i))), "dy==(sy-rho*b2)/(1+lamb*rho)")
    clip = lambda t, lo, hi: ops.zmin(ops.zmax(t, lo), hi)
    u.ensure(QAll(n, lambda j: x.f(j) - dx.f(j) == clip(x.f(j) - V(sx).f(j), lb.f(j), ub.f(j))), "dx==sx_up_to_the_box_projection_of_StepResult")
    u.ensure(res.fields["orig_iterate"] is orig and res.fields["active_set"] is ss.fields["_active_set"], "StepResult_for_the_given_iterate_and_active_set")
    u.cover("end")


def newton_variant_unit(variant):
    @unit(f"C14.newton.{variant}", ["C14"], [f"pygradflow.newton.{variant}NewtonMethod.__init__", f"pygradflow.newton.{variant}NewtonMethod.step", "pygradflow.newton.newton_method"], config={"max_paths": 50})
    def nv(u):
        params = mk_params(u, newton_type=u.enum("pygradflow.params.NewtonType", variant))
        problem = mk_problem(u)
        orig = mk_iterate(u, problem, params, "orig", in_box=True)
        dt, rho = u.real("dt"), u.real("rho")
        u.assume(dt > 0)
        u.assume(rho > 0)
        log = []
        func = u.obj("pygradflow.implicit_func.ImplicitFunc", problem=problem, orig_iterate=orig, dt=dt)
        ssolver = u.obj(SOL + "standard_step_solver.StandardStepSolver", problem=problem, params=params, _func=func)
        A = u.it.abstract
        A["pygradflow.step.solver.step_solver"] = lambda it, p, pa, i, d, r: (log.append(("make", i, d, r)), ssolver)[1]
        A[SOL + "standard_step_solver.StandardStepSolver.update_derivs"] = lambda it, s, i: log.append(("derivs", i))
        A[SOL + "standard_step_solver.StandardStepSolver.update_active_set"] = lambda it, s, a: log.append(("active", a))
        acts = {}

        def cas(it, s, i, rho_, tau=None):
            a = u.vec(f"act{len(acts)}", problem.fields["__n__"], kind="bool")
            acts[id(a)] = (i, rho_, tau)
            return a

        A["pygradflow.implicit_func.StepFunc.compute_active_set"] = cas
        A[SOL + "standard_step_solver.StandardStepSolver.solve"] = lambda it, s, i: (log.append(("solve", i)), Opaque("step"))[1]
        tau = u.real("tau") if u.path.choose("explicit tau") else None
        meth = u.call("pygradflow.newton.newton_method", problem, params, orig, dt, rho, tau)
        u.ensure(meth.cls.name == f"{variant}NewtonMethod", "dispatch")
        r = u.method(meth, "step", orig)
        k = [i for i, e in enumerate(log) if e[0] == "solve"]
        u.ensure(len(k) == 1 and log[k[0]][1] is orig, "first_step_solves_at_orig_iterate")
        before = log[: k[0]] if k else []
        d = [e for e in before if e[0] == "derivs"]
        a = [e for e in before if e[0] == "active"]
        u.ensure(d and d[-1][1] is orig, "first_step_uses_derivatives_of_orig_iterate")
        u.ensure(bool(a) and acts.get(id(a[-1][1]), (None,))[0] is orig and acts[id(a[-1][1])][1] is rho, "first_step_uses_the_active_set_computed_at_orig_iterate")
        u.ensure(bool(a) and acts.get(id(a[-1][1]), (None, None, 0))[2] is tau, "first_step_active_set_uses_the_given_tau(same_rule_for_every_variant)")
        u.ensure(log[0][0] == "make" and log[0][1] is orig and log[0][2] is dt and log[0][3] is rho, "step_solver_built_for(orig,dt,rho)")
        u.cover("end")

    return nv


for _v in ("Simplified", "Full", "ActiveSet"):
    newton_variant_unit(_v)


@unit("C14.Extended.assembly", ["C14", "C11"], [SOL + "extended_step_solver.ExtendedStepSolver._compute_deriv", SOL + "extended_step_solver.ExtendedStepSolver.extract_rows"], config={"max_paths": 20})
def extended_assembly(u):
    """The system assembled by the extended step solver is, entry by entry, the system of the abstract solve_scaled
    contract: rows for the active components are unit rows, rows for the inactive components are the rows of
    [H0 + lamb I | J^T], the last m rows are [J | -lamb/(1+lamb rho) I]."""
    params = mk_params(u)
    problem = mk_problem(u)
    n, m = problem.fields["__n__"], problem.fields["num_cons"]
    orig = mk_iterate(u, problem, params, "orig", in_box=True)
    dt, rho = u.real("dt"), u.real("rho")
    u.assume(dt > 0)
    u.assume(rho > 0)
    u.it.abstract["pygradflow.implicit_func.ScaledImplicitFunc.__init__"] = lambda it, s, p, i, d: None
    ss = u.construct(SOL + "extended_step_solver.ExtendedStepSolver", problem, params, orig, dt, rho)
    act = u.vec("active_set", n, kind="bool")
    ss.fields["_active_set"] = act
    J, H = Mat(m, n, None, name="J"), Mat(n, n, None, name="H0")
    ss.fields["_jac"], ss.fields["_hess"] = J, H
    from .c04_transform import StoreLog

    for M_ in (J, H):
        M_.region, M_.container_region = "USER", "FRESH"  # shallow copies of the caller's matrices (C11)
    slog = StoreLog(u)
    u.method(ss, "_compute_deriv")
    slog.check()
    D = ss.fields["_deriv"]
    e = matmodel.entry_fn(u.it, D)
    eJ, eH = matmodel.entry_fn(u.it, J), matmodel.entry_fn(u.it, H)
    counts = list(u.path.ghost.get("__where_counts__", {}).values())
    u.ensure(len(counts) == 2, "active_and_inactive_index_sets_computed")
    a = counts[0][1]
    av = V(act)
    lam = 1 / dt
    i, j = u.int("i"), u.int("j")
    u.assume(z3.And(i >= 0, j >= 0, i < n + m, j < n + m))
    u.path.index_term(i, a)
    u.path.index_term(i - a, counts[1][1])
    # index maps of np.where (increasing enumerations of the active / inactive components)
    idxA = [v for v in u.path.ghost["__where_counts__"].values()]
    u.ensure((D.rows == n + m) if not isinstance(D.rows, int) else True, "system_is_(n+m)x(n+m)")
    # rows of active components: unit rows; the row index i < a corresponds to the i-th active component
    kron = lambda p, q: z3.If(p == q, z3.RealVal(1), z3.RealVal(0))
    # the increasing enumerations of the active / inactive components (np.where), independent of how the blocks
    # are put together: row t < a is the t-th active component, row a + t the t-th inactive one
    cache = list(u.path.ghost.get("__where_cache__", {}).values())
    encA = next((v for (v, m_) in cache if getattr(m_, "neg_of", None) is None), None)
    encI = next((v for (v, m_) in cache if getattr(m_, "neg_of", None) is not None), None)
    u.ensure(encA is not None and encI is not None, "enumerations_of_the_active_set_and_of_its_complement_computed")
    if encA is None or encI is None:
        return
    colA = encA
    u.ensure(z3.Implies(i < a, z3.And(av.f(colA.f(i)), e(i, j) == z3.If(j < n, kron(j, colA.f(i)), 0))), "active_rows_are_unit_rows_e_act(i)")
    r = encI.f(i - a)
    u.ensure(z3.Implies(z3.And(i >= a, i < n), z3.And(z3.Not(av.f(r)), e(i, j) == z3.If(j < n, eH(r, j) + lam * kron(r, j), eJ(j - n, r)))), "inactive_rows_are_rows_of[H0+lamb*I|J^T]")
    c = i - n
    u.ensure(z3.Implies(i >= n, e(i, j) == z3.If(j < n, eJ(c, j), -(lam / (1 + lam * rho)) * kron(c, j - n))), "constraint_rows_are[J|-lamb/(1+lamb*rho)*I]")
    u.cover("end")


@unit("C14.Symmetric.assembly", ["C14"], [SOL + "symmetric_step_solver.SymmetricStepSolver._compute_deriv", SOL + "symmetric_step_solver.SymmetricStepSolver.compute_hess_jac", SOL + "symmetric_step_solver.SymmetricStepSolver.compute_rhs", SOL + "symmetric_step_solver.SymmetricStepSolver.solve_scaled"], config={"max_paths": 40})
def symmetric_assembly(u):
    """The reduced symmetric system: [ (H0+lamb I)[I,I]  J[:,I]^T ; J[:,I]  -lamb/(1+lamb rho) I ] over the inactive
    components I, right-hand side (b1 - (H0+lamb I)[I,A] b0 , b2t - J[:,A] b0), and the solution is scattered back:
    dx[I] = s[:|I|], dx[A] = b0, dy = s[|I|:]."""
    params = mk_params(u)
    problem = mk_problem(u)
    n, m = problem.fields["__n__"], problem.fields["num_cons"]
    orig = mk_iterate(u, problem, params, "orig", in_box=True)
    dt, rho = u.real("dt"), u.real("rho")
    u.assume(dt > 0)
    u.assume(rho > 0)
    u.it.abstract["pygradflow.implicit_func.ScaledImplicitFunc.__init__"] = lambda it, s, p, i, d: None
    ss = u.construct(SOL + "symmetric_step_solver.SymmetricStepSolver", problem, params, orig, dt, rho)
    act = u.vec("active_set", n, kind="bool")
    av = V(act)
    ss.fields["_active_set"] = act
    J, H = Mat(m, n, None, name="J"), Mat(n, n, None, name="H0")
    ss.fields["_jac"], ss.fields["_hess"] = J, H
    ss.fields["hess_rows"] = None
    eJ, eH = matmodel.entry_fn(u.it, J), matmodel.entry_fn(u.it, H)
    lam = 1 / dt
    kron = lambda p, q: z3.If(p == q, z3.RealVal(1), z3.RealVal(0))
    sol_holder = {}

    def solve_active(it, self_, active_set, rhs):
        D = it.call(it.getattr(self_, "_compute_deriv"), [active_set], {})
        sol_holder["D"], sol_holder["rhs"] = D, rhs
        sol_holder["s"] = _fresh_vec(it, "s", rhs.n)
        return sol_holder["s"]

    u.it.abstract[SOL + "symmetric_step_solver.SymmetricStepSolver._solve_active_set"] = solve_active
    from pyvc import npmodel as _np

    (actidx,) = _np.np_where(u.it, act)  # the enumeration the code will obtain from np.where(self.active_set)
    na = actidx.n
    b0 = _fresh_vec(u.it, "b0", na)
    b1 = _fresh_vec(u.it, "b1", n - na)
    b2t = _fresh_vec(u.it, "b2t", m)
    products = []
    u.it.hooks["mv"] = lambda it, mat, x, r: products.append((mat, x, r))
    dx, dy, rcond = u.method(ss, "solve_scaled", b0, b1, b2t)
    u.it.hooks.pop("mv", None)
    counts = list(u.path.ghost.get("__where_counts__", {}).values())
    # np.where(active) is called first, np.where(not active) second (several times: the enumerations of one mask are
    # the same function; only the first pair is used for the index maps below)
    D = sol_holder["D"]
    e = matmodel.entry_fn(u.it, D)
    # the increasing enumeration of the inactive components (np.where(~active_set)): rows and columns of the reduced
    # system are numbered by it - independently of how the code extracts / assembles the blocks
    cache = list(u.path.ghost.get("__where_cache__", {}).values())
    encI = next((v for (v, m_) in cache if getattr(m_, "neg_of", None) is not None), None)
    u.ensure(encI is not None, "enumeration_of_the_inactive_components_computed")
    if encI is None:
        return
    inact = ci = encI
    ni = inact.n
    i, j = u.int("i"), u.int("j")
    u.assume(z3.And(i >= 0, j >= 0, i < ni + m, j < ni + m))
    u.path.index_term(i, ni)
    u.path.index_term(j, ni)
    ri, cj = inact.f(i), ci.f(j)
    u.ensure(z3.Implies(z3.And(i < ni, j < ni), z3.And(z3.Not(av.f(ri)), z3.Not(av.f(cj)), e(i, j) == eH(ri, cj) + lam * kron(ri, cj))), "block11==(H0+lamb*I)[inactive,inactive]")
    u.ensure(z3.Implies(z3.And(i < ni, j >= ni), e(i, j) == eJ(j - ni, ci.f(i))), "block12==J[:,inactive]^T")
    u.ensure(z3.Implies(z3.And(i >= ni, j < ni), e(i, j) == eJ(i - ni, cj)), "block21==J[:,inactive]")
    u.ensure(z3.Implies(z3.And(i >= ni, j >= ni), e(i, j) == -(lam / (1 + lam * rho)) * kron(i, j)), "block22==-lamb/(1+lamb*rho)*I")
    # solution scattered back
    s = V(sol_holder["s"])
    dxv = V(dx)
    k = u.int("k")
    u.path.index_term(k, n)
    u.assume(z3.And(k >= 0, k < n))
    u.ensure(QAll(m, lambda q: V(dy).f(q) == s.f(q + ni)), "dy==s[|I|:]")
    ai = actidx.vec()
    u.ensure(QAll(ni, lambda t: dxv.f(inact.f(t)) == s.f(t)), "dx[inactive]==s[:|I|]")
    u.ensure(QAll(na, lambda t: dxv.f(ai.f(t)) == V(b0).f(t)), "dx[active]==b0")
    # right-hand side: (b1 - (H0+lamb I)[I,A] b0, b2t - J[:,A] b0) with the products taken with the gathered blocks
    rhs = sol_holder["rhs"]
    u.ensure((rhs.n == ni + m) if not isinstance(rhs.n, int) else True, "rhs_has_length|I|+m")
    # ... its VALUES: two products with b0 are formed, one with the gathered block (H0+lamb I)[I,A] and one with
    # J[:,A] (entrywise statements about the very matrices the code multiplies with), and they are SUBTRACTED
    withb0 = [(mat, r) for (mat, x, r) in products if x is b0 or (hasattr(x, "cell") and x.cell is b0.cell)]
    ok = u.ensure(len(withb0) == 2, "rhs:exactly_two_products_with_b0", desc=f"{len(withb0)} products with b0")
    if ok:
        (XH, rH), (XJ, rJ) = withb0
        eXH, eXJ = matmodel.entry_fn(u.it, XH), matmodel.entry_fn(u.it, XJ)
        t, a_, q = u.int("t"), u.int("a"), u.int("q")
        u.path.index_term(t, ni)
        u.path.index_term(a_, na)
        u.path.index_term(q, m)
        u.path.index_term(ni + q, ni + m)
        rng = z3.And(t >= 0, t < ni, a_ >= 0, a_ < na, q >= 0, q < m)
        u.ensure(z3.Implies(rng, eXH(t, a_) == eH(inact.f(t), ai.f(a_)) + lam * kron(inact.f(t), ai.f(a_))), "rhs:first_factor==(H0+lamb*I)[inactive,active]")
        u.ensure(z3.Implies(rng, eXJ(q, a_) == eJ(q, ai.f(a_))), "rhs:second_factor==J[:,active]")
        rv = V(rhs)
        u.ensure(z3.Implies(rng, rv.f(t) == V(b1).f(t) - V(rH).f(t)), "rhs[:|I|]==b1-(H0+lamb*I)[I,A]@b0")
        u.ensure(z3.Implies(rng, rv.f(ni + q) == V(b2t).f(q) - V(rJ).f(q)), "rhs[|I|:]==b2t-J[:,A]@b0")
    u.cover("end")


@unit("C14.factories.dispatch", ["C14", "C06"], ["pygradflow.newton.newton_method", "pygradflow.step.solver.step_solver", "pygradflow.newton.GlobalizedNewtonMethod.__init__", "pygradflow.newton.NewtonMethod.__init__"], config={"max_paths": 100})
def factories_dispatch(u):
    """the two factories are total on their enums and hand out the class the parameters ask for (a wrong branch or a
    failing internal assert would surface as an internal error inside solve, C06): newton_method over all four
    NewtonType values incl. Globalized, step_solver over all four StepSolverType values and a user-supplied factory"""
    problem = mk_problem(u)
    dt, rho = u.real("dt"), u.real("rho")
    u.assume(dt > 0)
    u.assume(rho > 0)
    which = u.path.choose("step_solver factory (else newton_method)")
    A = u.it.abstract
    if which:
        names = ["Standard", "Extended", "Symmetric", "Asymmetric"]
        k = u.path.choose_n(4, "step solver type")
        custom = u.path.choose("params.step_solver factory given")
        params = mk_params(u, step_solver_type=u.enum("pygradflow.params.StepSolverType", names[k]))
        orig = mk_iterate(u, problem, params, "orig", in_box=True)
        built = []
        mods = {"Standard": "standard_step_solver", "Extended": "extended_step_solver", "Symmetric": "symmetric_step_solver", "Asymmetric": "asymmetric_step_solver"}
        for nm, mod in mods.items():
            A[SOL + f"{mod}.{nm}StepSolver"] = (lambda nm_: lambda it, *a: (built.append((nm_, a)), Opaque("solver:" + nm_))[1])(nm)
        user_made = []
        params.fields["step_solver"] = PyFunc(lambda it, *a: (user_made.append(a), Opaque("solver:user"))[1], "user_step_solver_factory") if custom else None
        factory = u.repo.module("pygradflow.step.solver").functions["step_solver"]  # (the package also has a MODULE of that name)
        kind, val = u.raised(lambda: u.call(factory, problem, params, orig, dt, rho))
        u.ensure(kind == "ok", f"step_solver:{names[k]}:no-raise", desc=f"escaping {val!r}" if kind != "ok" else "")
        if kind != "ok":
            return
        if custom:
            u.ensure(isinstance(val, Opaque) and val.tag == "solver:user" and len(user_made) == 1 and not built, "step_solver:user_factory_used_when_given")
            u.ensure(len(user_made) == 1 and user_made[0][0] is problem and user_made[0][1] is params and user_made[0][2] is orig and user_made[0][3] is dt and user_made[0][4] is rho, "step_solver:user_factory_called_with(problem,params,iterate,dt,rho)")
        else:
            u.ensure(isinstance(val, Opaque) and val.tag == "solver:" + names[k] and len(built) == 1, f"step_solver:{names[k]}:class")
            u.ensure(len(built) == 1 and built[0][1][0] is problem and built[0][1][1] is params and built[0][1][2] is orig and built[0][1][3] is dt and built[0][1][4] is rho, "step_solver:constructed_with(problem,params,iterate,dt,rho)")
    else:
        names = ["Simplified", "Full", "ActiveSet", "Globalized"]
        k = u.path.choose_n(4, "newton type")
        params = mk_params(u, newton_type=u.enum("pygradflow.params.NewtonType", names[k]))
        orig = mk_iterate(u, problem, params, "orig", in_box=True)
        func = u.obj("pygradflow.implicit_func.ImplicitFunc", problem=problem, orig_iterate=orig, dt=dt)
        ssolver = u.obj(SOL + "standard_step_solver.StandardStepSolver", problem=problem, params=params, _func=func)
        made = []
        A["pygradflow.step.solver.step_solver"] = lambda it, p, pa, i, d, r: (made.append((p, pa, i, d, r)), ssolver)[1]
        A[SOL + "standard_step_solver.StandardStepSolver.update_derivs"] = lambda it, s, i: None
        A[SOL + "standard_step_solver.StandardStepSolver.update_active_set"] = lambda it, s, a: None
        A["pygradflow.implicit_func.StepFunc.compute_active_set"] = lambda it, s, i, rho_, tau=None: u.vec("act", problem.fields["__n__"], kind="bool")
        tau = u.real("tau") if u.path.choose("explicit tau") else None
        kind, val = u.raised(lambda: u.call("pygradflow.newton.newton_method", problem, params, orig, dt, rho, tau))
        u.ensure(kind == "ok", f"newton_method:{names[k]}:no-raise", desc=f"escaping {val!r}" if kind != "ok" else "")
        if kind != "ok":
            return
        u.ensure(val.cls.name == f"{names[k]}NewtonMethod", f"newton_method:{names[k]}:class")
        u.ensure(len(made) == 1 and made[0][2] is orig and made[0][3] is dt and made[0][4] is rho, "newton_method:step_solver_built_for(orig,dt,rho)")
        u.ensure(val.fields.get("step_solver") is ssolver, "newton_method:method_owns_that_step_solver")
    u.cover("end")
