"""C01 - Optimal => KKT conditions of the USER's problem (transfer through slack + scaling).

Hypotheses = what the gate gives for the internal iterate (proved in unit C02._check_terminate: Optimal => ...):
    the internal iterate is inside the internal box (loop invariant), |c_int_i| <= tol,
    |g_int_j + (J_int^T y_int)_j + d_int_j| <= tol  with d_int the bound multipliers of the internal iterate.
Conclusion (written from the property statement, in the user's units, x, y, d = restore_sol(...)):
    lb <= x <= ub exactly;  cl_i - tol P(-cw_i) <= c_i(x) <= cu_i + tol P(-cw_i);
    |g_j + (J^T y)_j + d_j| <= tol P(vw_j - ow);
    on rows with cl_i < cu_i:  y_i >  tol P(cw_i-ow) => |c_i - cu_i| <= (tol+atol) P(-cw_i)
                               y_i < -tol P(cw_i-ow) => |c_i - cl_i| <= (tol+atol) P(-cw_i);
    d_j > 0 => |ub_j - x_j| <= atol P(-vw_j);   d_j < 0 => |x_j - lb_j| <= atol P(-vw_j).
BOUNDED in the number of constraint rows (m <= 2, every row-kind pattern): J^T y is expanded by its definition
over the rows; unbounded in n and in all values.  ScaledProblem.cons_jac is used through its entrywise contract
(triplet-wise proof in C04.ScaledProblem.cons_jac + lemma LA1: scaling every stored entry scales the implied sums).
"""
from __future__ import annotations

import z3

from pyvc import matmodel, ops
from pyvc.core import QAll, UFact
from pyvc.harness import unit
from pyvc.npmodel import pow2_at
from pyvc.values import Arr, Mat, Obj, Opaque, Vec

from .c04_transform import SC, UserProblem, mk_scaling
from .common import mk_params, mk_problem
from .spec import V

def kkt_predicate(n, m, x, y, d, g, c, eJ, lb, ub, cl, cu, tol_c, tol_s, tol_y, act_c, act_x):
    """The KKT conditions 'to tolerance' of a problem (values g, c, eJ of its callbacks at x); the tolerances are
    functions of the row / column so that the same predicate serves the scaled and the user's problem."""

    def JTy(j):
        acc = z3.RealVal(0)
        for i in range(m):
            acc = acc + ops._real(eJ(i, j)) * y.f(i)
        return acc

    out = [("variable_bounds_hold_exactly", QAll(n, lambda j: z3.And(lb.f(j) <= x.f(j), x.f(j) <= ub.f(j))))]
    for i in range(m):
        out.append((f"row{i}:cl-tol<=c<=cu+tol", z3.And(cl.f(i) - tol_c(i) <= c.f(i), c.f(i) <= cu.f(i) + tol_c(i))))
    out.append(("|g+J^Ty+d|_j<=tol", QAll(n, lambda j: ops.zabs(g.f(j) + JTy(j) + d.f(j)) <= tol_s(j))))
    for i in range(m):
        ranged = cl.f(i) < cu.f(i)
        out.append((f"row{i}:y>tol=>c_at_upper", z3.Implies(z3.And(ranged, y.f(i) > tol_y(i)), ops.zabs(c.f(i) - cu.f(i)) <= act_c(i))))
        out.append((f"row{i}:y<-tol=>c_at_lower", z3.Implies(z3.And(ranged, y.f(i) < -tol_y(i)), ops.zabs(c.f(i) - cl.f(i)) <= act_c(i))))
    out.append(("d_j>0=>x_j_at_upper", QAll(n, lambda j: z3.Implies(d.f(j) > 0, ops.zabs(ub.f(j) - x.f(j)) <= act_x(j)))))
    out.append(("d_j<0=>x_j_at_lower", QAll(n, lambda j: z3.Implies(d.f(j) < 0, ops.zabs(x.f(j) - lb.f(j)) <= act_x(j)))))
    return out



M_BOUND = 2


@unit("C01.transfer.slack[bounded m<=2]", ["C01"], ["pygradflow.transform.Transformation.restore_sol", "pygradflow.cons_problem.ConstrainedProblem.cons", "pygradflow.cons_problem.ConstrainedProblem.cons_jac", "pygradflow.cons_problem.ConstrainedProblem.obj_grad", "pygradflow.cons_problem.ConstrainedProblem.restore_sol", SC + "ScaledProblem.cons", SC + "ScaledProblem.obj_grad", "pygradflow.iterate.Iterate.bounds_dual", "pygradflow.active_set.ActiveSet.__init__"], config={"max_paths": 800, "expand_mtv": True}, tier="thorough")
def transfer(u):
    scaled = False  # the scaling layer is unit C01.transfer.scaling (same KKT predicate, composed by transitivity)
    m = u.path.choose_n(M_BOUND + 1, "number of constraints")
    user = mk_problem(u, m=m, name="user")
    n = user.fields["__n__"]
    up = UserProblem(u, user)
    params = mk_params(u)
    P = lambda e: pow2_at(u.it, e)
    sc = None
    if scaled:
        sc, vw_a, cw_a, ow = mk_scaling(u, n, m)
        params.fields["scaling"] = sc
        params.fields["scaling_type"] = u.enum("pygradflow.params.ScalingType", "Custom")
        vw, cw = V(vw_a), V(cw_a)
        PV = lambda j, s=1: P(s * vw.f(j))
        # entrywise contract of ScaledProblem.cons_jac (C04 + LA1)
        def scaled_jac(it, self_, xs):
            Ju = it.call(it.getattr(self_.fields["problem"], "cons_jac"), [it.call(it.getattr(self_, "_orig_x"), [xs], {})], {})
            e = matmodel.entry_fn(it, Ju)
            return Mat(m, n, lambda i, j: ops._real(e(i, j)) * P(cw.f(i) - vw.f(j)), name=it.path.fresh_name("Js"))

        u.it.abstract[SC + "ScaledProblem.cons_jac"] = scaled_jac
    else:
        ow = 0
    u.it.abstract["pygradflow.eval.create_evaluator"] = lambda it, problem, params_: Opaque("evaluator")
    tr = u.construct("pygradflow.transform.Transformation", user, params)
    tp = tr.fields["trans_problem"]
    k = tp.fields["slack_positions"].n
    pos = [V(tp.fields["slack_positions"]).f(t).as_long() if hasattr(V(tp.fields["slack_positions"]).f(t), "as_long") else V(tp.fields["slack_positions"]).f(t) for t in range(k)]
    N = n + k if k else n
    tol, atol = params.fields["opt_tol"], params.fields["active_tol"]
    # internal iterate (in the internal box - loop invariant), evaluated through the real wrapper stack
    xi = u.vec("x_int", N)
    yi = u.vec("y_int", m)
    tlb, tub = V(tp.fields["var_lb"]), V(tp.fields["var_ub"])
    xv, yv = V(xi), V(yi)
    u.path.add_ufact(UFact(1, lambda j: z3.And(tlb.f(j) <= xv.f(j), xv.f(j) <= tub.f(j)), [(0, N)], "in_box(internal iterate)"))
    c_int = u.method(tp, "cons", xi)
    g_int = u.method(tp, "obj_grad", xi)
    J_int = u.method(tp, "cons_jac", xi)
    itx = u.obj("pygradflow.iterate.Iterate", x=xi, y=yi, params=params, problem=tp, eval=Opaque("evaluator"), obj=u.real("f_int"), obj_grad=g_int, cons=c_int, cons_jac=J_int)
    d_int = u.get(itx, "bounds_dual")
    cv, gv, dv = V(c_int), V(g_int), V(d_int)
    Jty = V(matmodel.mtv(u.it, J_int, yi))
    # gate facts (Optimal)
    for i in range(m):
        u.assume(ops.zabs(cv.f(i)) <= tol)
    u.path.add_ufact(UFact(1, lambda j: ops.zabs(gv.f(j) + Jty.f(j) + dv.f(j)) <= tol, [(0, N)], "stationarity(internal)"))
    for t in range(k):
        u.assume(ops.zabs(gv.f(n + t) + Jty.f(n + t) + dv.f(n + t)) <= tol)
        u.assume(z3.And(tlb.f(n + t) <= xv.f(n + t), xv.f(n + t) <= tub.f(n + t)))
    # returned solution
    xr, yr, dr = u.method(tr, "restore_sol", xi, yi, d_int)
    x, y, d = V(xr), V(yr), V(dr)
    ulb, uub, ucl, ucu = V(user.fields["var_lb"]), V(user.fields["var_ub"]), V(user.fields["cons_lb"]), V(user.fields["cons_ub"])
    # the user's functions were evaluated at the returned x
    for call in up.calls:
        av = V(call[1])
        u.ensure(QAll(n, lambda j: av.f(j) == x.f(j)), f"user_{call[0]}_was_evaluated_at_the_returned_x")
    g_u = up.ret0.get("obj_grad") or V(up.ret["obj_grad"])
    eJ = matmodel.entry_fn(u.it, up.ret["cons_jac"]) if "cons_jac" in up.ret else (lambda i, j: z3.RealVal(0))
    c_u = up.ret0["cons"] if m else None
    CW = (lambda i, s=1: P(s * cw.f(i))) if scaled else (lambda i, s=1: 1)
    VW = (lambda j, s=1: P(s * vw.f(j))) if scaled else (lambda j, s=1: 1)
    YW = (lambda i: P(cw.f(i) - ow)) if scaled else (lambda i: 1)
    SW = (lambda j: P(vw.f(j) - ow)) if scaled else (lambda j: 1)
    concl = kkt_predicate(n, m, x, y, d, g_u, c_u, eJ, ulb, uub, ucl, ucu, lambda i: tol * CW(i, -1), lambda j: tol * SW(j), lambda i: tol * YW(i), lambda i: (tol + atol) * CW(i, -1), lambda j: atol * VW(j, -1))
    for label, goal in concl:
        u.ensure(goal, "KKT(inner):" + label)
    # vacuity: the conclusion is not provable with the multiplier sign convention flipped
    if m:
        u.canary(z3.Implies(z3.And(ucl.f(0) < ucu.f(0), y.f(0) > tol), ops.zabs(c_u.f(0) - ucl.f(0)) <= tol + atol), "y>tol=>c_at_LOWER_bound")
    u.cover("end")


@unit("C01.transfer.scaling[bounded m<=2]", ["C01"], [SC + "ScaledProblem.obj_grad", SC + "ScaledProblem.cons", SC + "ScaledProblem.__init__", SC + "Scaling.unscale_primal", SC + "Scaling.unscale_dual", SC + "Scaling.unscale_bounds_dual"], config={"max_paths": 100}, tier="thorough")
def transfer_scaling(u):
    """KKT_tol of ScaledProblem(user) at (x_s, y_s, d_s)  =>  KKT of the user's problem at the unscaled point with
    each tolerance multiplied by the corresponding power-of-two scale factor."""
    m = u.path.choose_n(M_BOUND + 1, "number of constraints")
    user = mk_problem(u, m=m, name="user")
    n = user.fields["__n__"]
    up = UserProblem(u, user)
    params = mk_params(u)
    tol, atol = params.fields["opt_tol"], params.fields["active_tol"]
    P = lambda e: pow2_at(u.it, e)
    sc, vw_a, cw_a, ow = mk_scaling(u, n, m)
    vw, cw = V(vw_a), V(cw_a)
    sp = u.construct(SC + "ScaledProblem", user, sc)
    xs, ys, ds = u.vec("x_s", n), u.vec("y_s", m), u.vec("d_s", n)
    g_s = V(u.method(sp, "obj_grad", xs))
    c_s = V(u.method(sp, "cons", xs)) if m else None
    eJu = matmodel.entry_fn(u.it, Mat(m, n, None, name="J_user"))
    eJs = lambda i, j: ops._real(eJu(i, j)) * P(cw.f(i) - vw.f(j))  # entrywise contract of ScaledProblem.cons_jac (C04 + LA1)
    hyp = kkt_predicate(n, m, V(xs), V(ys), V(ds), g_s, c_s, eJs, V(sp.fields["var_lb"]), V(sp.fields["var_ub"]), V(sp.fields["cons_lb"]), V(sp.fields["cons_ub"]),
                        lambda i: tol, lambda j: tol, lambda i: tol, lambda i: tol + atol, lambda j: atol)
    for label, h in hyp:
        u.assume(h)
    x, y, d = V(u.method(sc, "unscale_primal", xs)), V(u.method(sc, "unscale_dual", ys)), V(u.method(sc, "unscale_bounds_dual", ds))
    g_u = up.ret0.get("obj_grad") or V(up.ret["obj_grad"])
    c_u = up.ret0["cons"] if m else None
    for call in up.calls:
        av = V(call[1])
        u.ensure(QAll(n, lambda j: av.f(j) == x.f(j)), f"user_{call[0]}_was_evaluated_at_the_unscaled_x")
    concl = kkt_predicate(n, m, x, y, d, g_u, c_u, eJu, V(user.fields["var_lb"]), V(user.fields["var_ub"]), V(user.fields["cons_lb"]), V(user.fields["cons_ub"]),
                          lambda i: tol * P(-cw.f(i)), lambda j: tol * P(vw.f(j) - ow), lambda i: tol * P(cw.f(i) - ow), lambda i: (tol + atol) * P(-cw.f(i)), lambda j: atol * P(-vw.f(j)))
    for label, goal in concl:
        u.ensure(goal, "KKT(user):" + label)
    u.cover("end")


# ----------------------------------------------------------------------------------------------------
# any number of rows: J^T y stays the (uninterpreted) transposed product of the USER's Jacobian; the block and
# one-hot structure that the real cons_jac builds is resolved by lemmas LA2 / LA3 (lean/LA.lean)


def kkt_predicate_any_m(n, m, x, y, d, g, c, JTy, lb, ub, cl, cu, tol_c, tol_s, tol_y, act_c, act_x):
    """the same KKT predicate with the rows universally quantified; JTy(j) is (J^T y)_j as a spec-level term"""
    out = [("variable_bounds_hold_exactly", QAll(n, lambda j: z3.And(lb.f(j) <= x.f(j), x.f(j) <= ub.f(j))))]
    out.append(("rows:cl-tol<=c<=cu+tol", QAll(m, lambda i: z3.And(cl.f(i) - tol_c(i) <= c.f(i), c.f(i) <= cu.f(i) + tol_c(i)))))
    out.append(("|g+J^Ty+d|_j<=tol", QAll(n, lambda j: ops.zabs(g.f(j) + JTy(j) + d.f(j)) <= tol_s(j))))
    out.append(("rows:y>tol=>c_at_upper", QAll(m, lambda i: z3.Implies(z3.And(cl.f(i) < cu.f(i), y.f(i) > tol_y(i)), ops.zabs(c.f(i) - cu.f(i)) <= act_c(i)))))
    out.append(("rows:y<-tol=>c_at_lower", QAll(m, lambda i: z3.Implies(z3.And(cl.f(i) < cu.f(i), y.f(i) < -tol_y(i)), ops.zabs(c.f(i) - cl.f(i)) <= act_c(i)))))
    out.append(("d_j>0=>x_j_at_upper", QAll(n, lambda j: z3.Implies(d.f(j) > 0, ops.zabs(ub.f(j) - x.f(j)) <= act_x(j)))))
    out.append(("d_j<0=>x_j_at_lower", QAll(n, lambda j: z3.Implies(d.f(j) < 0, ops.zabs(x.f(j) - lb.f(j)) <= act_x(j)))))
    return out


@unit("C01.transfer.slack[any m]", ["C01"], ["pygradflow.transform.Transformation.restore_sol", "pygradflow.transform.Transformation.trans_problem", "pygradflow.cons_problem.ConstrainedProblem.cons", "pygradflow.cons_problem.ConstrainedProblem.cons_jac", "pygradflow.cons_problem.ConstrainedProblem.obj_grad", "pygradflow.cons_problem.ConstrainedProblem.restore_sol", "pygradflow.iterate.Iterate.bounds_dual", "pygradflow.active_set.ActiveSet.__init__"], config={"max_paths": 200, "mtv_structural": True})
def transfer_any_m(u):
    from .c04_slacks_general import CP, ScatterLoop, mk_cp_general

    params = mk_params(u)
    u.it.abstract["pygradflow.eval.create_evaluator"] = lambda it, problem, params_: Opaque("evaluator")
    holder = {}

    def build(user):
        tr = u.construct("pygradflow.transform.Transformation", user, params)
        holder["tr"] = tr
        return tr.fields["trans_problem"]

    user, up, tp, S, n, m, k, ucl, ucu = mk_cp_general(u, build=build)
    tr = holder["tr"]
    p = u.path
    N = n + k
    tol, atol = params.fields["opt_tol"], params.fields["active_tol"]
    xi, yi = u.vec("x_int", N), u.vec("y_int", m)
    xv, yv = V(xi), V(yi)
    tlb, tub = V(tp.fields["var_lb"]), V(tp.fields["var_ub"])
    p.add_ufact(UFact(1, lambda j: z3.And(tlb.f(j) <= xv.f(j), xv.f(j) <= tub.f(j)), [(0, N)], "in_box(internal iterate)"))
    u.it.loop_specs[CP + "cons/loop#0"] = ScatterLoop(u, S, m)
    c_int = u.method(tp, "cons", xi)
    g_int = u.method(tp, "obj_grad", xi)
    J_int = u.method(tp, "cons_jac", xi)
    itx = u.obj("pygradflow.iterate.Iterate", x=xi, y=yi, params=params, problem=tp, eval=Opaque("evaluator"), obj=u.real("f_int"), obj_grad=g_int, cons=c_int, cons_jac=J_int)
    d_int = u.get(itx, "bounds_dual")
    cv, gv, dv = V(c_int), V(g_int), V(d_int)
    Jty = V(matmodel.mtv(u.it, J_int, yi))
    # gate facts (Optimal), proved from the real gate in C02._check_terminate
    p.add_ufact(UFact(1, lambda i: ops.zabs(cv.f(i)) <= tol, [(0, m)], "feasibility(internal)"))
    p.add_ufact(UFact(1, lambda j: ops.zabs(gv.f(j) + Jty.f(j) + dv.f(j)) <= tol, [(0, N)], "stationarity(internal)"))
    xr, yr, dr = u.method(tr, "restore_sol", xi, yi, d_int)
    x, y, d = V(xr), V(yr), V(dr)
    ulb, uub = V(user.fields["var_lb"]), V(user.fields["var_ub"])
    for call in up.calls:
        av = V(call[1])
        u.ensure(QAll(n, lambda j: av.f(j) == x.f(j)), f"user_{call[0]}_was_evaluated_at_the_returned_x")
    g_u = up.ret0.get("obj_grad") or V(up.ret["obj_grad"])
    c_u = up.ret0["cons"]
    Ju = up.ret["cons_jac"]
    JTy_user = V(matmodel.mtv(u.it, Ju, yr))
    one = lambda i: 1

    # every row i is looked at together with its slack (index n + rank(i) of the internal iterate)
    def with_slack(goal_fn):
        def g(i):
            t = S.rank(i)
            p.index_term(t, k)
            p.index_term(n + t, N)
            return goal_fn(i)

        return g

    concl = kkt_predicate_any_m(n, m, x, y, d, g_u, c_u, lambda j: JTy_user.f(j), ulb, uub, ucl, ucu, lambda i: tol, lambda j: tol, lambda i: tol, lambda i: tol + atol, lambda j: atol)
    for label, goal in concl:
        if label.startswith("rows:"):
            goal = QAll(goal.n, with_slack(goal.fn))
        u.ensure(goal, "KKT(user):" + label)
    # vacuity: not provable with the multiplier sign convention flipped / without the slack's activity
    i0 = u.int("i0")
    p.index_term(i0, m)
    p.index_term(S.rank(i0), k)
    p.index_term(n + S.rank(i0), N)
    u.canary(z3.Implies(z3.And(i0 >= 0, i0 < m, ucl.f(i0) < ucu.f(i0), y.f(i0) > tol), ops.zabs(c_u.f(i0) - ucl.f(i0)) <= tol + atol), "y>tol=>c_at_LOWER_bound")
    u.canary(z3.Implies(z3.And(i0 >= 0, i0 < m), z3.And(ucl.f(i0) <= c_u.f(i0), c_u.f(i0) <= ucu.f(i0))), "rows_feasible_exactly(tol=0)")
    u.cover("end")


def apply_LA1b(u, Ms, M, r, c, ys, y, a, m, n, label):
    """lemma LA1b (lean/LA.lean): if Ms[i,j] = r_i * M[i,j] * c_j for all i, j and r_i * ys_i = a * y_i for all i
    then (Ms^T ys)_j = c_j * a * (M^T y)_j.   The two premises are DISCHARGED here; only then is the conclusion
    added (for every column j)."""
    p = u.path
    eMs, eM = matmodel.entry_fn(u.it, Ms), matmodel.entry_fn(u.it, M)
    i, j = u.int("la_i"), u.int("la_j")
    ok1 = u.ensure(z3.Implies(z3.And(i >= 0, i < m, j >= 0, j < n), ops._real(eMs(i, j)) == r(i) * ops._real(eM(i, j)) * c(j)), f"{label}:premise:entries_scaled_by_row_and_column_factors")
    ok2 = u.ensure(QAll(m, lambda q: r(q) * ys.f(q) == a * y.f(q)), f"{label}:premise:multipliers_scaled_by_the_row_factors")
    lhs, rhs = V(matmodel.mtv(u.it, Ms, Arr.new(ys))), V(matmodel.mtv(u.it, M, Arr.new(y)))
    if ok1 is not False and ok2 is not False:
        p.add_ufact(UFact(1, lambda q: lhs.f(q) == c(q) * a * rhs.f(q), [(0, n)], f"{label}:conclusion"))
    return lhs, rhs


@unit("C01.transfer.scaling[any m]", ["C01"], [SC + "ScaledProblem.obj_grad", SC + "ScaledProblem.cons", SC + "ScaledProblem.__init__", SC + "Scaling.unscale_primal", SC + "Scaling.unscale_dual", SC + "Scaling.unscale_bounds_dual"], config={"max_paths": 100})
def transfer_scaling_any_m(u):
    """KKT_tol of ScaledProblem(user) at (x_s, y_s, d_s)  =>  KKT of the user's problem at the unscaled point with
    each tolerance multiplied by the corresponding power-of-two scale factor; ANY number of rows: the transposed
    products stay uninterpreted and are related by lemma LA1b."""
    user = mk_problem(u, name="user")
    n, m = user.fields["__n__"], user.fields["num_cons"]
    up = UserProblem(u, user)
    params = mk_params(u)
    tol, atol = params.fields["opt_tol"], params.fields["active_tol"]
    P = lambda e: pow2_at(u.it, e)
    sc, vw_a, cw_a, ow = mk_scaling(u, n, m)
    vw, cw = V(vw_a), V(cw_a)
    sp = u.construct(SC + "ScaledProblem", user, sc)
    xs, ys, ds = u.vec("x_s", n), u.vec("y_s", m), u.vec("d_s", n)
    g_s = V(u.method(sp, "obj_grad", xs))
    c_s = V(u.method(sp, "cons", xs))
    Ju = Mat(m, n, None, name="J_user")
    eJu = matmodel.entry_fn(u.it, Ju)
    # entrywise contract of ScaledProblem.cons_jac (proved triplet-wise in C04.ScaledProblem.cons_jac[*])
    Js = Mat(m, n, lambda i, j: P(cw.f(i)) * ops._real(eJu(i, j)) * P(-vw.f(j)), name="J_scaled")
    x, y, d = V(u.method(sc, "unscale_primal", xs)), V(u.method(sc, "unscale_dual", ys)), V(u.method(sc, "unscale_bounds_dual", ds))
    JTy_s, JTy_u = apply_LA1b(u, Js, Ju, lambda i: P(cw.f(i)), lambda j: P(-vw.f(j)), V(ys), y, P(ow), m, n, "LA1b")
    hyp = kkt_predicate_any_m(n, m, V(xs), V(ys), V(ds), g_s, c_s, lambda j: JTy_s.f(j), V(sp.fields["var_lb"]), V(sp.fields["var_ub"]), V(sp.fields["cons_lb"]), V(sp.fields["cons_ub"]),
                              lambda i: tol, lambda j: tol, lambda i: tol, lambda i: tol + atol, lambda j: atol)
    for label, h in hyp:
        u.path.add_ufact(UFact(1, h.fn, [(0, h.n)], "KKT(scaled):" + label))
    g_u = up.ret0.get("obj_grad") or V(up.ret["obj_grad"])
    c_u = up.ret0["cons"]
    for call in up.calls:
        av = V(call[1])
        u.ensure(QAll(n, lambda j: av.f(j) == x.f(j)), f"user_{call[0]}_was_evaluated_at_the_unscaled_x")
    concl = kkt_predicate_any_m(n, m, x, y, d, g_u, c_u, lambda j: JTy_u.f(j), V(user.fields["var_lb"]), V(user.fields["var_ub"]), V(user.fields["cons_lb"]), V(user.fields["cons_ub"]),
                                lambda i: tol * P(-cw.f(i)), lambda j: tol * P(vw.f(j) - ow), lambda i: tol * P(cw.f(i) - ow), lambda i: (tol + atol) * P(-cw.f(i)), lambda j: atol * P(-vw.f(j)))
    for label, goal in concl:
        u.ensure(goal, "KKT(user):" + label)
    j0 = u.int("j0")
    u.canary(z3.Implies(z3.And(j0 >= 0, j0 < n), ops.zabs(g_u.f(j0) + JTy_u.f(j0) + d.f(j0)) <= tol), "stationarity_with_the_unscaled_tolerance")
    u.cover("end")
