"""C18 - the penalty filter is a Pareto front.

Representation invariant ND(entries): no entry dominates another (dom(a,b) = a0<=b0 and a1<=b1).
filter_insert(first, second):
    requires ND(old)
    ensures  result <=> not exists k. dom(old[k], entry)
             result  => new = [e in old | not dom(entry, e)] ++ [entry]   (order, multiplicity)
             not result => new is old (unchanged)
             ND(new)
The spec-side dominance relation `dom` below is written from the property statement, independently of the
code's nested `dominates`.
"""
from __future__ import annotations

import z3

from pyvc import ops
from pyvc.core import QAll, QAny, UFact
from pyvc.harness import unit
from pyvc.values import ListCell, SymList

from .common import mk_iterate, mk_params, mk_problem

PEN = "pygradflow.penalty."


def dom(a, b):
    return z3.And(a[0] <= b[0], a[1] <= b[1])


def sym_entries(u, s, name="E"):
    """entries := arbitrary list of symbolic length satisfying ND (unbounded length)."""
    p = u.path
    L = p.int(name + "_len")
    u.assume(L >= 0)
    E0 = p.func(name + "0", z3.IntSort(), z3.RealSort())
    E1 = p.func(name + "1", z3.IntSort(), z3.RealSort())
    sl = SymList(L, lambda k: (E0(k if not isinstance(k, int) else z3.IntVal(k)), E1(k if not isinstance(k, int) else z3.IntVal(k))), name)
    p.add_ufact(UFact(2, lambda i, j: z3.Implies(i != j, z3.Not(dom(sl.f(i), sl.f(j)))), [(0, L), (0, L)], "ND(old)"))
    lc = ListCell(sl)
    s.fields["entries"] = lc
    return sl


def nd_goal(sl: SymList):
    return QAll(sl.n, lambda i: QAll(sl.n, lambda j: z3.Implies(i != j, z3.Not(dom(sl.f(i), sl.f(j))))))


def nd_invariant(u, lc: ListCell, label):
    v = lc.val
    if isinstance(v, list):
        goals = []
        for i, a in enumerate(v):
            for j, b in enumerate(v):
                if i != j:
                    goals.append(z3.Not(dom(a, b)))
        u.ensure(ops.zand(*goals) if goals else True, label)
    else:
        u.ensure(nd_goal(v), label)


@unit("C18.filter_insert", ["C18"], [PEN + "PenaltyFilter.filter_insert"])
def filter_insert(u):
    params = mk_params(u)
    problem = mk_problem(u)
    s = u.obj(PEN + "ObjectivePenaltyFilter", problem=problem, params=params, rho=u.real("self_rho"))
    old = sym_entries(u, s)
    old_cell = s.fields["entries"]
    a, b = u.real("first"), u.real("second")
    entry = (a, b)
    res = u.method(s, "filter_insert", a, b)
    new_cell = s.fields["entries"]
    new = new_cell.val
    dominated = QAny(old.n, lambda k: dom(old.f(k), entry))
    not_dominated = QAll(old.n, lambda k: z3.Not(dom(old.f(k), entry)))
    u.ensure(isinstance(res, bool), "result_is_bool")
    if res is True:
        u.ensure(not_dominated, "accepted=>no_stored_entry_dominates")
        u.ensure(isinstance(new, SymList), "accepted=>list_rebuilt")
        n1 = new.n
        m = n1 - 1
        # last element is the new entry
        last = new.f(m)
        u.ensure(z3.And(last[0] == a, last[1] == b), "accepted=>entry_appended_last")
        # every kept element is an old element not dominated by the entry, order preserved (strictly increasing source index)
        src = getattr(getattr(new, "appended", (None,))[0], "fmap", None)
        u.ensure(src is not None, "accepted=>kept_part_is_a_filter_of_old")
        if src is not None:
            u.ensure(QAll(m, lambda i: z3.And(src(i) >= 0, src(i) < old.n, new.f(i)[0] == old.f(src(i))[0], new.f(i)[1] == old.f(src(i))[1], z3.Not(dom(entry, old.f(src(i)))))), "accepted=>kept_are_undominated_old_entries")
            u.ensure(QAll(m, lambda i: QAll(m, lambda j: z3.Implies(i < j, src(i) < src(j)))), "accepted=>order_and_multiplicity_preserved")
            inv = new.appended[0].finv
            u.ensure(QAll(old.n, lambda k: z3.Implies(z3.Not(dom(entry, old.f(k))), z3.And(inv(k) >= 0, inv(k) < m, src(inv(k)) == k))), "accepted=>removes_exactly_the_dominated")
        nd_invariant(u, new_cell, "accepted=>ND(new)")
    else:
        u.ensure(dominated, "refused=>some_stored_entry_dominates")
        u.ensure(new_cell is old_cell and new_cell.val is old, "refused=>entries_unchanged")
        nd_invariant(u, new_cell, "refused=>ND(new)")
    u.cover("end")


@unit("C18.filter_insert.canary", ["C18"], [PEN + "PenaltyFilter.filter_insert"])
def filter_insert_canary(u):
    """vacuity guards: wrong post-conditions that must NOT be provable"""
    params = mk_params(u)
    problem = mk_problem(u)
    s = u.obj(PEN + "ObjectivePenaltyFilter", problem=problem, params=params, rho=u.real("self_rho"))
    old = sym_entries(u, s)
    a, b = u.real("first"), u.real("second")
    entry = (a, b)
    res = u.method(s, "filter_insert", a, b)
    if res is True:
        new = s.fields["entries"].val
        u.canary(new.n == old.n + 1, "accepted=>nothing-removed")
        u.canary(QAll(old.n, lambda k: z3.Not(z3.And(old.f(k)[0] < a, old.f(k)[1] < b))) if False else (a > 0), "accepted=>first>0")
    else:
        u.canary(QAll(old.n, lambda k: dom(old.f(k), entry)), "refused=>every-entry-dominates")
    u.ensure(True, "ran")


@unit("C18.update", ["C18", "C16"], [PEN + "PenaltyFilter.update"])
def filter_update(u):
    """update: filter_insert true => rho unchanged and accept; false => rho*10 and veto (filter_insert abstract)."""
    params = mk_params(u)
    problem = mk_problem(u)
    rho = u.real("self_rho")
    u.assume(rho > 0)
    # the filter object after an ARBITRARY history of earlier updates: built by its real constructor, then every
    # numeric field the constructor set is arbitrary (rho > 0 is the C16 invariant; anything else the object may
    # remember - a field a later version adds - carries no invariant)
    s = u.construct(PEN + "ObjectivePenaltyFilter", problem, params)
    for fname, fval in list(s.fields.items()):
        if fname == "rho":
            s.fields[fname] = rho
        elif isinstance(fval, (int, float)) and not isinstance(fval, bool) or (z3.is_expr(fval) and (z3.is_real(fval) or z3.is_int(fval))):
            s.fields[fname] = u.real("self_" + fname)
    sym_entries(u, s)
    prev = mk_iterate(u, problem, params, "prev")
    nxt = mk_iterate(u, problem, params, "next")
    ins = {}

    def abstract_insert(it, self_, first, second):
        ins["args"] = (first, second)
        ins["result"] = it.path.choose("filter_insert result")
        return ins["result"]

    u.it.abstract[PEN + "PenaltyFilter.filter_insert"] = abstract_insert
    res = u.method(s, "update", prev, nxt)
    nr = u.get(res, "next_rho")
    acc = u.get(res, "accept")
    u.ensure("result" in ins, "update_calls_filter_insert")
    if "result" in ins:
        ent = u.method(s, "iterate_entry", nxt)
        u.ensure(z3.And(ins["args"][0] == ent[0], ins["args"][1] == ent[1]), "inserts_entry_of_next_iterate")
        if ins["result"]:
            u.ensure(acc is True, "inserted=>accept")
            u.ensure(z3.And(nr == rho, s.fields["rho"] == rho), "inserted=>rho_unchanged")
        else:
            u.ensure(acc is False, "refused=>veto")
            u.ensure(z3.And(nr == 10 * rho, s.fields["rho"] == 10 * rho), "refused=>rho_times_ten")
    u.cover("end")
