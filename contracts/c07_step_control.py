"""C07 / C15 - StepController.compute_step: failures at trial points are survived and never accepted.

compute_step(iterate, rho, dt, display, timer)
  raises_only {}          w.r.t. the fault classes StepSolverError / EvalError raised by self.step or by the
                          evaluation of the accepted candidate (every position: the callee contracts raise at any call)
  failure path:           result.iterate IS iterate, not result.accepted, result.lamb == 2 * (1/dt)  (> 1/dt)
  normal path:            the controller's result is returned unchanged; accepted => the candidate is fully
                          evaluated (obj, obj_grad and, if there are constraints, cons and cons_jac are cached)
"""
from __future__ import annotations

import z3

from pyvc.harness import unit
from pyvc.values import ExcVal, Obj, Opaque, PyRaise

from .common import mk_iterate, mk_params, mk_problem
from .models import eval_error, install_evaluator_contracts, mk_evaluator

SC = "pygradflow.step.step_control."


def mk_step_result_obj(u, iterate, lamb, accepted):
    return u.obj(SC + "StepControlResult", iterate=iterate, lamb=lamb, active_set=Opaque("active_set"), rcond=None, accepted=accepted)


@unit("C07.compute_step", ["C07", "C15", "C06"], [SC + "StepController.compute_step", SC + "StepController.update_stepsize_after_fail", "pygradflow.iterate.Iterate.check_eval"], config={"max_paths": 400})
def compute_step(u):
    params = mk_params(u)
    problem = mk_problem(u)
    ev = mk_evaluator(u, problem)
    install_evaluator_contracts(u.it)
    ctrl = u.obj("pygradflow.step.fixed_control.FixedStepSizeController", problem=problem, params=params, lamb=params.fields["lamb_init"])
    iterate = mk_iterate(u, problem, params, "cur", in_box=True)
    iterate.fields["eval"] = ev
    rho, dt = u.real("rho"), u.real("dt")
    u.assume(rho > 0)
    u.assume(dt > 0)
    display = u.path.choose("display")
    outcome = {}

    def step_contract(it, self_, iterate_, rho_, dt_, display_, timer_):
        k = it.path.choose_n(4, "step outcome")
        outcome["k"] = k
        outcome["args"] = (iterate_, rho_, dt_)
        if k == 0:
            raise PyRaise(ExcVal(it.repo.lookup("pygradflow.step.step_solver_error.StepSolverError"), ()), origin="controller.step")
        if k == 1:
            raise PyRaise(eval_error(it), origin="controller.step")
        trial = mk_iterate(u, problem, params, "trial", evaluated=False)
        trial.fields["eval"] = ev
        outcome["trial"] = trial
        res = mk_step_result_obj(u, trial, it.path.real("lamb_next"), k == 2)
        outcome["res"] = res
        return res

    u.it.abstract["pygradflow.step.fixed_control.FixedStepSizeController.step"] = step_contract
    u.it.abstract["pygradflow.display.inner_display"] = lambda it, *a: u.obj("pygradflow.display.Display", cols=[], interval=None, timer=None, last_state=None, header=Opaque("str"))
    kind, val = u.raised(lambda: u.method(ctrl, "compute_step", iterate, rho, dt, display, Opaque("timer")))
    u.ensure(kind == "ok", "raises_only{}:no_StepSolverError_or_EvalError_escapes")
    if kind != "ok":
        return
    res = val
    u.ensure("k" in outcome, "calls_self.step")
    u.ensure(outcome["args"][0] is iterate and outcome["args"][1] is rho and outcome["args"][2] is dt, "step_called_with_same_iterate_rho_dt")
    failed_inside = outcome["k"] in (0, 1) or res is not outcome.get("res")
    if failed_inside:
        u.ensure(u.get(res, "iterate") is iterate, "failure=>iterate_unchanged")
        u.ensure(u.get(res, "accepted") is False, "failure=>not_accepted")
        lam = u.get(res, "lamb")
        u.ensure(lam == 2 * (1 / dt), "failure=>lamb==2/dt")
        u.ensure(lam > 1 / dt, "failure=>lamb_strictly_larger")
    else:
        u.ensure(res is outcome["res"], "normal=>controller_result_returned")
        if outcome["k"] == 2:
            tr = outcome["trial"]
            u.ensure(all(k in tr.fields for k in ("obj", "obj_grad")), "accepted=>obj_and_grad_evaluated")
            m = problem.fields["num_cons"]
            if not all(k in tr.fields for k in ("cons", "cons_jac")):
                u.ensure(m == 0, "accepted=>constraints_evaluated_unless_m==0")
        else:
            u.ensure(u.get(res, "accepted") is False, "rejected=>not_accepted")
    u.cover("end")


@unit("C07.ValidatingEvaluator", ["C07", "C11"], ["pygradflow.eval.ValidatingEvaluator._eval_obj", "pygradflow.eval.ValidatingEvaluator._eval_obj_grad", "pygradflow.eval.ValidatingEvaluator._eval_cons", "pygradflow.eval.ValidatingEvaluator._eval_cons_jac", "pygradflow.eval.ValidatingEvaluator._eval_lag_hess", "pygradflow.eval.Evaluator.obj", "pygradflow.eval.astype", "pygradflow.eval.ValidatingEvaluator.__init__"], config={"max_paths": 200})
def validating_evaluator(u):
    """the fault model used everywhere else: a callback value that is not finite makes the evaluator raise
    EvalError (and nothing else); a finite value is handed on unchanged (same object: astype is a no-op for float64);
    with num_cons == 0 the constraint callbacks are not called at all"""
    from pyvc.values import Mat
    from .c04_transform import StoreLog, UserProblem

    params = mk_params(u)
    empty = u.path.choose("no constraints")
    problem = mk_problem(u, m=0) if empty else mk_problem(u)
    if not empty:
        u.assume(problem.fields["num_cons"] > 0)
    n, m = problem.fields["__n__"], problem.fields["num_cons"]
    up = UserProblem(u, problem)
    finite = {}
    log = StoreLog(u)

    def isfinite(it, v):
        key = id(v.cell) if hasattr(v, "cell") else id(v)
        b = finite.setdefault(key, it.path.bool("finite"))
        return b

    u.it.lib["numpy.isfinite"] = isfinite
    u.it.lib["math.isfinite"] = isfinite
    ev = u.construct("pygradflow.eval.ValidatingEvaluator", problem, params)
    x = u.vec("x", n, region="USER")
    y = u.vec("y", m, region="USER")
    kinds = ["obj", "obj_grad", "cons", "cons_jac", "lag_hess"]
    k = u.path.choose_n(5, "component")
    kind = kinds[k]
    u.it.abstract["pygradflow.eval.warn_hessian_pattern"] = lambda it: None
    if kind == "lag_hess":
        # the symmetry diagnostics (set/zip over COO triplets) are observers: seen through "no raise"
        u.it.lib["numpy.allclose"] = lambda it, a, b, **kw: it.path.bool("sym_close")
        from pyvc.npmodel import BUILTINS

        BUILTINS_set = BUILTINS["set"]
    kindres, val = u.raised(lambda: u.method(ev, kind, x, y) if kind == "lag_hess" else u.method(ev, kind, x))
    called = [c for c in up.calls if c[0] == kind]
    if empty and kind in ("cons", "cons_jac"):
        u.ensure(kindres == "ok" and not called, f"{kind}:no_constraints=>callback_not_called,no_raise")
        return
    u.ensure(len(called) == 1 and called[0][1] is x, f"{kind}:callback_called_once_at_x")
    ret = up.ret.get(kind)
    fin = finite.get(id(ret.coo[3].cell) if isinstance(ret, Mat) else (id(ret.cell) if hasattr(ret, "cell") else id(ret)))
    if kindres == "raise":
        u.ensure(val.exc.name() == "EvalError", f"{kind}:raises_only{{EvalError}}", desc=f"escaping {val.exc!r} at {val.origin}")
        if fin is not None:
            u.ensure(z3.Not(fin), f"{kind}:raises_only_for_a_non-finite_value")
    else:
        if fin is not None:
            u.ensure(fin, f"{kind}:returns=>value_is_finite")
        u.ensure(val is ret, f"{kind}:finite_value_handed_on_unchanged(same_object)")
    u.ensure(ev.fields["num_evals"] is not None, "counter_present")
    u.cover("end")
