"""C02 / C01 gate - Solver._check_terminate and the residuals it compares.

Ordered, exhaustive post-condition (the result is exactly the first applicable line, else None):
    limit != None and iteration >= limit                  -> IterationLimit
    now - start >= time_limit                             -> TimeLimit
    total_res <= opt_tol                                  -> Optimal
    locally_infeasible(opt_tol, local_infeas_tol)         -> LocallyInfeasible
    obj <= obj_lower_limit and is_feasible(opt_tol)       -> Unbounded
and, pointwise, what each status means for the iterate (written from the property statements):
    Optimal            => forall i |c_i| <= tol; forall j (lb_j - x_j)^+ <= tol, (x_j - ub_j)^+ <= tol;
                          forall j |g_j + (J^T y)_j + d_j| <= tol with d = the bound multipliers, which are
                          non-zero only at an active bound with the documented sign
    LocallyInfeasible  => ||c||inf > tol and J^T c is first-order stationary for the violation over the box
    Unbounded          => obj <= obj_lower_limit, ||c||inf <= tol and bounds violated by at most tol
"""
from __future__ import annotations

import z3

from pyvc import matmodel, npmodel, ops
from pyvc.core import QAll, QAny
from pyvc.harness import unit
from pyvc.values import PINF, Opaque

from .common import mk_iterate, mk_params, mk_problem
from .spec import V, bounds_dual_spec, lagr_grad, near_lower, near_upper

IT = "pygradflow.iterate.Iterate."
FUNCS = [
    "pygradflow.solver.Solver._check_terminate", IT + "total_res", IT + "cons_violation", IT + "bound_violation", IT + "stat_res",
    IT + "bounds_dual", IT + "locally_infeasible", IT + "is_feasible", IT + "active_set", "pygradflow.active_set.ActiveSet.__init__",
    "pygradflow.timer.Timer.reached_time_limit", "pygradflow.timer.Timer.remaining", "pygradflow.timer.SimpleTimer.elapsed", "pygradflow.timer.Timer.__init__",
]


def setup(u, limit_kind=None):
    params = mk_params(u)
    problem = mk_problem(u)
    iterate = mk_iterate(u, problem, params, "it")
    if limit_kind is None:
        limit_kind = u.path.choose("iteration_limit is None")
    if not limit_kind:
        lim = u.int("iteration_limit")
        u.assume(lim >= 0)
        params.fields["iteration_limit"] = lim
    # the solver object as the real constructor leaves it (a change that consults the transformation / scaling in the
    # termination test must meet real objects, not a missing attribute)
    from .c04_transform import mk_scaling

    scaling = None
    if u.path.choose("custom scaling in use"):
        scaling, _vw, _cw, _ow = mk_scaling(u, problem.fields["__n__"], problem.fields["num_cons"])
    transform = u.obj("pygradflow.transform.Transformation", orig_problem=Opaque("user problem"), params=params, scaling=scaling, trans_problem=problem, evaluator=Opaque("evaluator"))
    solver = u.obj("pygradflow.solver.Solver", params=params, problem=problem, orig_problem=Opaque("user problem"), transform=transform, evaluator=Opaque("evaluator"), callbacks=Opaque("callbacks"))
    iteration = u.int("iteration")
    u.assume(iteration >= 0)
    timer = u.construct("pygradflow.timer.Timer", params.fields["time_limit"])
    return params, problem, iterate, solver, iteration, timer


@unit("C02._check_terminate", ["C02", "C01", "C08"], FUNCS, config={"max_paths": 400})
def check_terminate(u):
    params, problem, iterate, solver, iteration, timer = setup(u)
    P = params.fields
    res = u.method(solver, "_check_terminate", iterate, iteration, timer)
    ST = lambda n: u.enum("pygradflow.status.SolverStatus", n)
    lim = P["iteration_limit"]
    lim_hit = False if lim is None else (iteration >= lim)
    reads = u.path.ghost.get("__clock_reads__", [])
    start = timer.fields["start"]
    tol, atol = P["opt_tol"], P["active_tol"]
    n, m = problem.fields["__n__"], problem.fields["num_cons"]
    c, x = V(iterate.fields["cons"]), V(iterate.fields["x"])
    lb, ub = V(problem.fields["var_lb"]), V(problem.fields["var_ub"])
    lg = lagr_grad(u, iterate)
    d_spec = bounds_dual_spec(u, iterate, atol)
    # --- IterationLimit <=> first test
    if res == ST("IterationLimit"):
        u.ensure(lim_hit, "IterationLimit=>iteration>=limit")
    else:
        u.ensure((z3.Not(lim_hit) if not isinstance(lim_hit, bool) else (not lim_hit)), "not_IterationLimit=>iteration<limit_or_no_limit")
    if res == ST("IterationLimit"):
        u.ensure(len(reads) == 1, "IterationLimit=>decided_before_reading_the_clock")
        u.cover("IterationLimit")
        return
    # --- TimeLimit: exactly when the deadline has passed at the clock read of this call
    u.ensure(len(reads) == 2, "clock_read_exactly_once")
    now = reads[-1]
    deadline_passed = (now - start) >= P["time_limit"]
    if res == ST("TimeLimit"):
        u.ensure(deadline_passed, "TimeLimit=>deadline_passed")
        u.cover("TimeLimit")
        return
    u.ensure(z3.Not(deadline_passed), "not_TimeLimit=>deadline_not_passed")
    # --- Optimal
    cv_small = QAll(m, lambda i: ops.zabs(c.f(i)) <= tol)
    bv_small = QAll(n, lambda j: z3.And(lb.f(j) - x.f(j) <= tol, x.f(j) - ub.f(j) <= tol))
    stat_small = QAll(n, lambda j: ops.zabs(lg(j) + d_spec(j)) <= tol)
    if res == ST("Optimal"):
        u.ensure(cv_small, "Optimal=>|c_i|<=tol")
        u.ensure(bv_small, "Optimal=>bound_violation<=tol")
        u.ensure(stat_small, "Optimal=>|g+J^Ty+d|_j<=tol")
        u.canary(QAll(m, lambda i: ops.zabs(c.f(i)) < tol), "Optimal=>|c_i|<tol(strict)")
        u.cover("Optimal")
        return
    # not Optimal => some residual exceeds the tolerance
    some_res_large = npmodel.logical_or(u.it, npmodel.logical_or(u.it, QAny(m, lambda i: ops.zabs(c.f(i)) > tol), QAny(n, lambda j: z3.Or(lb.f(j) - x.f(j) > tol, x.f(j) - ub.f(j) > tol))), QAny(n, lambda j: ops.zabs(lg(j) + d_spec(j)) > tol))
    u.ensure(some_res_large, "not_Optimal=>some_residual>tol")
    # --- LocallyInfeasible
    tau = P["local_infeas_tol"]
    Jtc = V(matmodel.mtv(u.it, iterate.fields["cons_jac"], iterate.fields["cons"]))
    nl, nu = near_lower(iterate.fields["x"], problem.fields["var_lb"], atol), near_upper(iterate.fields["x"], problem.fields["var_ub"], atol)
    if res == ST("LocallyInfeasible"):
        u.ensure(QAny(m, lambda i: ops.zabs(c.f(i)) > tol), "LocallyInfeasible=>violation>tol")
        u.ensure(QAll(n, lambda j: z3.And(z3.Implies(nl(j), Jtc.f(j) >= -tau), z3.Implies(nu(j), Jtc.f(j) <= tau), z3.Implies(z3.And(z3.Not(nl(j)), z3.Not(nu(j))), ops.zabs(Jtc.f(j)) <= tau))), "LocallyInfeasible=>first_order_stationary_for_violation_over_box")
        u.cover("LocallyInfeasible")
        return
    # --- Unbounded
    if res == ST("Unbounded"):
        u.ensure(iterate.fields["obj"] <= P["obj_lower_limit"], "Unbounded=>obj<=lower_limit")
        u.ensure(cv_small, "Unbounded=>|c_i|<=tol")
        u.ensure(bv_small, "Unbounded=>bounds_within_tol")
        u.cover("Unbounded")
        return
    u.ensure(res is None, "otherwise=>None")
    # the gate lets the loop go on only for a problem with at least one (internal) variable: with n == 0 every
    # residual over the variables is an empty maximum, so the point is Optimal or locally infeasible.  This is the
    # precondition n >= 1 of everything a step computation calls (e.g. the reductions in compute_tau).
    u.ensure(n >= 1, "no_status=>the_problem_has_at_least_one_variable", props=["C02", "C06"])
    u.cover("None")


@unit("C01.bounds_dual", ["C01", "C13"], [IT + "bounds_dual", IT + "active_set", "pygradflow.active_set.ActiveSet.__init__"])
def bounds_dual(u):
    """d equals its definition and is non-zero only at an active bound with the documented sign."""
    params = mk_params(u)
    problem = mk_problem(u)
    iterate = mk_iterate(u, problem, params, "it")
    atol = params.fields["active_tol"]
    d = V(u.get(iterate, "bounds_dual"))
    n = problem.fields["__n__"]
    x, lb, ub = V(iterate.fields["x"]), V(problem.fields["var_lb"]), V(problem.fields["var_ub"])
    d_spec = bounds_dual_spec(u, iterate, atol)
    u.ensure(d.n is n or d.n == n, "len(d)==n")
    u.ensure(QAll(n, lambda j: d.f(j) == d_spec(j)), "d==spec")
    u.ensure(QAll(n, lambda j: z3.Implies(d.f(j) > 0, ops.zabs(ub.f(j) - x.f(j)) <= atol)), "d_j>0=>x_j_at_upper_bound")
    u.ensure(QAll(n, lambda j: z3.Implies(d.f(j) < 0, ops.zabs(x.f(j) - lb.f(j)) <= atol)), "d_j<0=>x_j_at_lower_bound")
    lg = lagr_grad(u, iterate)
    # stationarity is exact wherever the gradient pushes outward at an active bound or the variable is fixed
    u.ensure(QAll(n, lambda j: z3.Implies(d.f(j) != 0, lg(j) + d.f(j) == 0)), "d_j!=0=>stationarity_exact_at_j")
    u.canary(QAll(n, lambda j: d.f(j) >= 0), "d>=0")
    u.cover("end")
