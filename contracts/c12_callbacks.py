"""C12 - the callback registry dispatches every announced step to every registered callback, once, in order.

The solve units prove that Solver.solve calls `self.callbacks(ComputedStep, iterate, next_iterate, accept)` exactly once
per step computation; this unit executes the REAL registry (Callbacks / CallbackHandle) behind that call.
BOUNDED in the number of registered callbacks (<= 3, any subset unregistered again): the registry is a Python list.
"""
from __future__ import annotations

from pyvc.harness import unit
from pyvc.interp import PyFunc
from pyvc.values import Opaque

CB = "pygradflow.callbacks."


@unit("C12.Callbacks[bounded callbacks<=3]", ["C12", "C09"], [CB + "Callbacks.__init__", CB + "Callbacks.register", CB + "Callbacks.unregister", CB + "Callbacks.__call__", CB + "CallbackHandle.__init__", CB + "CallbackHandle.__call__"], config={"max_paths": 400})
def callbacks(u):
    p = u.path
    k = p.choose_n(4, "number of registered callbacks")
    reg = u.construct(CB + "Callbacks")
    cbtype = u.enum(CB + "CallbackType", "ComputedStep")
    log = []
    handles = []
    for i in range(k):
        fn = PyFunc((lambda i: lambda it, *a, **kw: log.append((i, a, kw)))(i), f"user_callback_{i}")
        handles.append(u.method(reg, "register", cbtype, fn))
    removed = [i for i in range(k) if p.choose(f"unregister callback {i}")]
    for i in removed:
        u.method(reg, "unregister", handles[i])
    args = (Opaque("iterate"), Opaque("next_iterate"), Opaque("accept"))
    kind, val = u.raised(lambda: u.method(reg, "__call__", cbtype, *args))
    u.ensure(kind == "ok", "dispatch_raises_nothing_of_its_own")
    expect = [i for i in range(k) if i not in removed]
    u.ensure([e[0] for e in log] == expect, "every_registered_callback_called_exactly_once_in_registration_order", desc=f"called {[e[0] for e in log]}, registered {expect}")
    u.ensure(all(len(e[1]) == 3 and all(x is y for x, y in zip(e[1], args)) and not e[2] for e in log), "callbacks_receive_exactly(iterate,next_iterate,accept)")
    n0 = len(log)
    u.method(reg, "__call__", cbtype, *args)
    u.ensure(len(log) == 2 * n0, "a_second_announcement_calls_them_again(no_one-shot_state)")
    u.cover("end")
