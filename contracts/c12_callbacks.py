"""C12 - the callback registry dispatches every announced step to every registered callback, once, in order.

The solve units prove that Solver.solve calls `self.callbacks(ComputedStep, iterate, next_iterate, accept)` exactly once
per step computation; this unit executes the REAL registry (Callbacks / CallbackHandle) behind that call.
BOUNDED in the number of registered callbacks (<= 3, any subset unregistered again): the registry is a Python list.
"""
from __future__ import annotations

from pyvc.harness import unit
from pyvc.interp import PyFunc
from pyvc.values import Opaque

CB = "pygradflow.callbacks."


@unit("C12.Callbacks[bounded callbacks<=3]", ["C12", "C09"], [CB + "Callbacks.__init__", CB + "Callbacks.register", CB + "Callbacks.unregister", CB + "Callbacks.__call__", CB + "CallbackHandle.__init__", CB + "CallbackHandle.__call__"], config={"max_paths": 400})
def callbacks(u):
    p = u.path
    k = p.choose_n(4, "number of registered callbacks")
    reg = u.construct(CB + "Callbacks")
    cbtype = u.enum(CB + "CallbackType", "ComputedStep")
    log = []
    handles = []
    for i in range(k):
        fn = PyFunc((lambda i: lambda it, *a, **kw: log.append((i, a, kw)))(i), f"user_callback_{i}")
        handles.append(u.method(reg, "register", cbtype, fn))
    removed = [i for i in range(k) if p.choose(f"unregister callback {i}")]
    for i in removed:
        u.method(reg, "unregister", handles[i])
    args = (Opaque("iterate"), Opaque("next_iterate"), Opaque("accept"))
    kind, val = u.raised(lambda: u.method(reg, "__call__", cbtype, *args))
    u.ensure(kind == "ok", "dispatch_raises_nothing_of_its_own")
    expect = [i for i in range(k) if i not in removed]
    u.ensure([e[0] for e in log] == expect, "every_registered_callback_called_exactly_once_in_registration_order", desc=f"called {[e[0] for e in log]}, registered {expect}")
    u.ensure(all(len(e[1]) == 3 and all(x is y for x, y in zip(e[1], args)) and not e[2] for e in log), "callbacks_receive_exactly(iterate,next_iterate,accept)")
    n0 = len(log)
    u.method(reg, "__call__", cbtype, *args)
    u.ensure(len(log) == 2 * n0, "a_second_announcement_calls_them_again(no_one-shot_state)")
    u.cover("end")


@unit("C12.SolverResult.accessors", ["C12", "C01"], ["pygradflow.result.SolverResult.__init__", "pygradflow.result.SolverResult._set_path", "pygradflow.result.SolverResult.__getattr__", "pygradflow.result.SolverResult.success", "pygradflow.result.SolverResult.status", "pygradflow.status.SolverStatus.success"], config={"max_paths": 50})
def result_accessors(u):
    """what a caller reads from the result is what the solver stored: x, y, d, status, success, and - when a path was
    attached - path / model_times through __getattr__ (missing attributes read as None, they do not raise)"""
    from pyvc.values import Arr, Obj
    from .common import mk_problem

    problem = mk_problem(u)
    n, m = problem.fields["__n__"], problem.fields["num_cons"]
    x, y, d = Opaque("x"), Opaque("y"), Opaque("d")
    names = ["Optimal", "IterationLimit", "TimeLimit", "LocallyInfeasible", "Unbounded"]
    k = u.path.choose_n(len(names), "status")
    st = u.enum("pygradflow.status.SolverStatus", names[k])
    res = u.construct("pygradflow.result.SolverResult", problem, x, y, d, st, iterations=3, num_accepted_steps=2, total_time=0.5, dist_factor=1.0)
    u.ensure(u.get(res, "x") is x and u.get(res, "y") is y and u.get(res, "d") is d, "x/y/d_accessors")
    u.ensure(u.get(res, "status") is st, "status_accessor")
    succ = u.get(res, "success")
    u.ensure(succ is (names[k] == "Optimal") or succ == (names[k] == "Optimal"), "success<=>status_is_Optimal", desc=f"{names[k]} -> {succ}")
    kind, val = u.raised(lambda: u.get(res, "path"))
    u.ensure(kind == "ok" and val is None, "no_path_attached:path_reads_as_None(no_AttributeError)")
    u.cover("end")
