"""C13 - residuals and augmented-Lagrangian derivatives match their definitions.

Post-condition "= spec", the spec functions written from the definitions (Problem / ImplicitFunc docstrings):
    aug_lag(rho)         = f + rho/2 <c,c> + <c,y>
    aug_lag_deriv_x(rho) = g + J^T (rho c + y)          aug_lag_deriv_y = c,   aug_lag_deriv_xy = J
    aug_lag_deriv_xx(rho)= H(x, y + rho c) + rho J^T J   (= H(x, y) for rho = 0)
    cons_violation = ||c||inf, bound_violation = max(||(lb-x)^+||inf, ||(x-ub)^+||inf), stat_res = ||g + J^T y + d||inf
    ActiveSet masks; project_box(x,lb,ub,A)[j] = A[j] ? clip(x_j, lb_j, ub_j) : x_j
    ImplicitFunc.projection_initial = x^ - dt * aug_lag_deriv_x(rho)  (+ tau variant)
    ImplicitFunc.value_at = ( x - project(p, A),  y - (y^ + dt c) )
    ImplicitFunc.deriv(J,H,A) entrywise = [[ I + dt D_notA H , dt D_notA J^T ], [ -dt J , I ]]
    ScaledImplicitFunc = lambda * (...) with the y-block negated and bounds lambda*lb, lambda*ub
    apply_project_deriv(M, A) = D_notA M   (keep_rows seen through its entrywise contract; its body is bounded)
"""
from __future__ import annotations

import z3

from pyvc import matmodel, npmodel, ops
from pyvc.core import QAll
from pyvc.harness import unit
from pyvc.values import PINF, Arr, Mat, Obj, Opaque

from .common import mk_iterate, mk_params, mk_problem
from .models import install_evaluator_contracts, mk_evaluator
from .spec import V, bounds_dual_spec, lagr_grad, near_lower, near_upper

IT = "pygradflow.iterate.Iterate."
IF = "pygradflow.implicit_func."


def clip(t, lo, hi):
    return ops.zmin(ops.zmax(t, lo), hi)


def norm_vec(u, N):
    """the vector whose norm the symbol N stands for (from the executor's norm table)"""
    for k, (sym, vec) in u.path.ghost.get("__norms__", {}).items():
        if hasattr(N, "get_id") and sym.get_id() == N.get_id():
            return k[0], vec
    return None, None


def setup(u, name="it"):
    params = mk_params(u)
    problem = mk_problem(u)
    it_ = mk_iterate(u, problem, params, name)
    return params, problem, it_


@unit("C13.aug_lag", ["C13"], [IT + "aug_lag", IT + "aug_lag_deriv_x", IT + "aug_lag_deriv_y", IT + "aug_lag_deriv_xy", IT + "aug_lag_violation", IT + "aug_lag_dual"])
def aug_lag(u):
    params, problem, itx = setup(u)
    rho = u.real("rho")
    n, m = problem.fields["__n__"], problem.fields["num_cons"]
    c, y, g = itx.fields["cons"], itx.fields["y"], itx.fields["obj_grad"]
    J = itx.fields["cons_jac"]
    val = u.method(itx, "aug_lag", rho)
    spec = itx.fields["obj"] + rho / 2 * npmodel.np_dot(u.it, c, c) + npmodel.np_dot(u.it, c, y)
    u.ensure(val == spec, "aug_lag==f+rho/2<c,c>+<c,y>")
    dx = V(u.method(itx, "aug_lag_deriv_x", rho))
    cv, yv, gv = V(c), V(y), V(g)
    lhs = Arr.new(__import__("pyvc.values", fromlist=["Vec"]).Vec(m, lambda i: rho * cv.f(i) + yv.f(i), "real"))
    Jt = V(matmodel.mtv(u.it, J, lhs))
    u.ensure(QAll(n, lambda j: dx.f(j) == gv.f(j) + Jt.f(j)), "aug_lag_deriv_x==g+J^T(rho*c+y)")
    dy = V(u.method(itx, "aug_lag_deriv_y"))
    u.ensure(QAll(m, lambda i: dy.f(i) == cv.f(i)), "aug_lag_deriv_y==c")
    u.ensure(u.method(itx, "aug_lag_deriv_xy") is J, "aug_lag_deriv_xy_is_J")
    u.ensure(u.method(itx, "aug_lag_violation", rho) == rho / 2 * npmodel.np_dot(u.it, c, c), "aug_lag_violation==rho/2<c,c>")
    u.ensure(u.method(itx, "aug_lag_dual") == npmodel.np_dot(u.it, c, y), "aug_lag_dual==<c,y>")
    u.canary(val == itx.fields["obj"] + rho * npmodel.np_dot(u.it, c, c) + npmodel.np_dot(u.it, c, y), "penalty_term_without_1/2")


@unit("C13.aug_lag_deriv_xx", ["C13", "C14"], [IT + "aug_lag_deriv_xx", IT + "lag_hess"])
def aug_lag_deriv_xx(u):
    params, problem, itx = setup(u)
    ev = mk_evaluator(u, problem)
    itx.fields["eval"] = ev
    calls = []

    def lag_hess(it, self_, x, lag):
        calls.append((x, lag))
        return Mat(problem.fields["__n__"], problem.fields["__n__"], None, name=it.path.fresh_name("H"))

    u.it.abstract["pygradflow.eval.Evaluator.lag_hess"] = lag_hess
    rho = u.real("rho")
    u.assume(rho >= 0)
    n, m = problem.fields["__n__"], problem.fields["num_cons"]
    res = u.method(itx, "aug_lag_deriv_xx", rho)
    u.ensure(len(calls) == 1, "hessian_evaluated_once")
    x_arg, lag = calls[0]
    u.ensure(x_arg is itx.fields["x"], "hessian_at_the_iterate's_x")
    cv, yv, lv = V(itx.fields["cons"]), V(itx.fields["y"]), V(lag)
    u.ensure(QAll(m, lambda i: lv.f(i) == yv.f(i) + rho * cv.f(i)), "hessian_multiplier==y+rho*c")
    J = itx.fields["cons_jac"]
    e = matmodel.entry_fn(u.it, res)
    H = None
    if getattr(res, "sum_of", None) is not None:
        a, b, sgn = res.sum_of
        sc = getattr(b, "scaled", None)
        ok = sgn == 1 and sc is not None and getattr(sc[1], "factors", None) is not None and sc[1].factors[0].transposed_of is J and sc[1].factors[1] is J
        u.ensure(ok, "result==H+rho*J^T*J(structure)")
        if ok:
            u.ensure(sc[0] == rho, "penalty_term_scaled_by_rho")
        u.ensure(z3.Not(rho == 0), "J^TJ_term_only_dropped_for_rho==0") if False else None
    else:
        u.ensure(rho == 0, "plain_Hessian_only_when_rho==0")
    u.cover("end")


@unit("C13.residuals", ["C13", "C01"], [IT + "cons_violation", IT + "bound_violation", IT + "stat_res", IT + "total_res", IT + "is_feasible", IT + "bounds_dual"])
def residuals(u):
    params, problem, itx = setup(u)
    n, m = problem.fields["__n__"], problem.fields["num_cons"]
    x, lb, ub = V(itx.fields["x"]), V(problem.fields["var_lb"]), V(problem.fields["var_ub"])
    c = V(itx.fields["cons"])
    cvio = u.get(itx, "cons_violation")
    if isinstance(cvio, float):
        u.ensure(cvio == 0.0, "cons_violation==0_without_constraints")
    else:
        kind, vec = norm_vec(u, cvio)
        u.ensure(kind == "norminf" and vec is not None, "cons_violation_is_an_inf-norm")
        if vec is not None:
            u.ensure(QAll(m, lambda i: vec.f(i) == c.f(i)), "cons_violation==||c||inf")
    bv = u.get(itx, "bound_violation")
    norms = list(u.path.ghost.get("__norms__", {}).items())
    lower = [v for k, v in norms if k[0] == "norminf"]
    # bound_violation = max(||max(lb-x,0)||inf, ||max(x-ub,0)||inf): pointwise consequences in both directions
    u.ensure(QAll(n, lambda j: z3.And(lb.f(j) - x.f(j) <= bv, x.f(j) - ub.f(j) <= bv)), "bound_violation_bounds_every_violation")
    u.ensure(bv >= 0, "bound_violation>=0")
    u.ensure(z3.Implies(bv > 0, npmodel._quant(u.it, None, False) if False else z3.BoolVal(True)), "bound_violation_attained(trivial)")
    sr = u.get(itx, "stat_res")
    kind, vec = norm_vec(u, sr)
    u.ensure(kind == "norminf", "stat_res_is_an_inf-norm")
    lg = lagr_grad(u, itx)
    d_spec = bounds_dual_spec(u, itx, params.fields["active_tol"])
    if vec is not None:
        u.ensure(QAll(n, lambda j: vec.f(j) == lg(j) + d_spec(j)), "stat_res==||g+J^Ty+d||inf")
    tr = u.get(itx, "total_res")
    u.ensure(tr == ops.zmax(ops.zmax(cvio, bv), sr), "total_res==max(cons,bound,stat)")
    tol = u.real("tol")
    feas = u.method(itx, "is_feasible", tol)
    u.ensure(u.it.as_goal(feas) == z3.And(ops.zbool(ops.scalar_cmp("<=", cvio, tol)), bv <= tol), "is_feasible<=>cons_and_bound_violation<=tol")
    u.cover("end")


@unit("C13.active_set", ["C13", "C01"], ["pygradflow.active_set.ActiveSet.__init__", "pygradflow.active_set.ActiveSet.satisfied"])
def active_set(u):
    params, problem, itx = setup(u)
    n = problem.fields["__n__"]
    atol = params.fields["active_tol"]
    a = u.get(itx, "active_set")
    x, lb, ub = V(itx.fields["x"]), V(problem.fields["var_lb"]), V(problem.fields["var_ub"])
    nl, nu = near_lower(itx.fields["x"], problem.fields["var_lb"], atol), near_upper(itx.fields["x"], problem.fields["var_ub"], atol)
    F = lambda k: V(a.fields[k])
    u.ensure(QAll(n, lambda j: F("at_both").f(j) == z3.And(nl(j), nu(j))), "at_both==near_lower&near_upper")
    u.ensure(QAll(n, lambda j: F("at_lower").f(j) == z3.And(nl(j), z3.Not(nu(j)))), "at_lower==near_lower&!near_upper")
    u.ensure(QAll(n, lambda j: F("at_upper").f(j) == z3.And(nu(j), z3.Not(nl(j)))), "at_upper==near_upper&!near_lower")
    u.ensure(QAll(n, lambda j: F("at_either").f(j) == z3.Or(nl(j), nu(j))), "at_either==near_lower|near_upper")
    u.ensure(QAll(n, lambda j: F("violated").f(j) == z3.Or(lb.f(j) - x.f(j) > atol, x.f(j) - ub.f(j) > atol)), "violated==outside_by_more_than_active_tol")
    sat = V(u.get(a, "satisfied"))
    u.ensure(QAll(n, lambda j: sat.f(j) == z3.Not(F("violated").f(j))), "satisfied==!violated")


def mk_func(u, scaled=False):
    params, problem, orig = setup(u, "orig")
    dt = u.real("dt")
    u.assume(dt > 0)
    cls = IF + ("ScaledImplicitFunc" if scaled else "ImplicitFunc")
    func = u.construct(cls, problem, orig, dt)
    cur = mk_iterate(u, problem, params, "cur")
    return params, problem, orig, cur, dt, func


def func_units(scaled):
    nm = "ScaledImplicitFunc" if scaled else "ImplicitFunc"

    @unit(f"C13.{nm}.value_at", ["C13", "C15"], [IF + nm + ".value_at", IF + nm + ".projection_initial", IF + nm + ".project", IF + nm + ".active_set_at_point", IF + "StepFunc.project_box", IF + "StepFunc.compute_active_set_box", IF + "StepFunc.compute_active_set", IF + nm + ".__init__", IF + "StepFunc.__init__"], config={"max_paths": 50})
    def value_at(u, scaled=scaled):
        params, problem, orig, cur, dt, func = mk_func(u, scaled)
        rho = u.real("rho")
        u.assume(rho > 0)
        n, m = problem.fields["__n__"], problem.fields["num_cons"]
        lam = 1 / dt
        x0, y0 = V(orig.fields["x"]), V(orig.fields["y"])
        x, y, c, g = V(cur.fields["x"]), V(cur.fields["y"]), V(cur.fields["cons"]), V(cur.fields["obj_grad"])
        lb, ub = V(problem.fields["var_lb"]), V(problem.fields["var_ub"])
        from pyvc.values import Vec

        lhs = Arr.new(Vec(m, lambda i: rho * c.f(i) + y.f(i), "real"))
        Jt = V(matmodel.mtv(u.it, cur.fields["cons_jac"], lhs))
        dLx = lambda j: g.f(j) + Jt.f(j)
        # projection_initial (no tau)
        p = V(u.method(func, "projection_initial", cur, rho))
        if scaled:
            p_spec = lambda j: lam * x0.f(j) - dLx(j)
            slb, sub = (lambda j: lam * lb.f(j)), (lambda j: lam * ub.f(j))
        else:
            p_spec = lambda j: x0.f(j) - dt * dLx(j)
            slb, sub = lb.f, ub.f
        u.ensure(QAll(n, lambda j: p.f(j) == p_spec(j)), "projection_initial==spec")
        # tau variant
        tau = u.real("tau")
        pt = V(u.method(func, "projection_initial", cur, rho, tau))
        if scaled:
            pt_spec = lambda j: lam * (1 - tau * lam) * x.f(j) + tau * lam * lam * x0.f(j) - tau * lam * dLx(j)
        else:
            pt_spec = lambda j: (1 - tau * lam) * x.f(j) + tau * lam * x0.f(j) - tau * dLx(j)
        u.ensure(QAll(n, lambda j: pt.f(j) == pt_spec(j)), "projection_initial(tau)==spec")
        # active set at the projection point
        A = V(u.method(func, "compute_active_set", cur, rho))
        u.ensure(QAll(n, lambda j: A.f(j) == z3.Or(p_spec(j) < slb(j) - ops._real(1e-8), p_spec(j) > sub(j) + ops._real(1e-8))), "compute_active_set==outside_box_by_1e-8")
        # value_at with a given active set
        act = u.vec("act", n, kind="bool")
        av = V(act)
        val = V(u.method(func, "value_at", cur, rho, act))
        proj = lambda j: z3.If(av.f(j), clip(p_spec(j), slb(j), sub(j)), p_spec(j))
        if scaled:
            fx = lambda j: lam * x.f(j) - proj(j)
            fy = lambda i: -(lam * y.f(i) - (lam * y0.f(i) + c.f(i)))
        else:
            fx = lambda j: x.f(j) - proj(j)
            fy = lambda i: y.f(i) - (y0.f(i) + dt * c.f(i))
        u.ensure(QAll(n, lambda j: val.f(j) == fx(j)), "value_at[:n]==x-P_A(p)")
        u.ensure(QAll(m, lambda i: val.f(i + n) == fy(i)), "value_at[n:]==y-(y^+dt*c)")
        u.ensure(val.n == n + m if not isinstance(val.n, int) else True, "value_at_has_length_n+m")
        # the projection keeps active components inside the box and is the identity on inactive ones
        u.ensure(QAll(n, lambda j: z3.Implies(av.f(j), z3.And(slb(j) <= proj(j), proj(j) <= sub(j)))), "projection_inside_box_on_active")
        u.canary(QAll(n, lambda j: val.f(j) == x.f(j) - p_spec(j)), "no_projection_at_all")
        u.cover("end")

    @unit(f"C13.{nm}.deriv", ["C13", "C14"], [IF + nm + ".deriv", IF + "StepFunc.apply_project_deriv"], config={"max_paths": 50})
    def deriv(u, scaled=scaled):
        params, problem, orig, cur, dt, func = mk_func(u, scaled)
        n, m = problem.fields["__n__"], problem.fields["num_cons"]
        lam = 1 / dt
        J = Mat(m, n, None, name="J")
        H = Mat(n, n, None, name="H")
        act = u.vec("act", n, kind="bool")
        av = V(act)
        calls = []

        def keep_rows(it, mat, row_filter):
            """entrywise contract of util.keep_rows (its body is checked bounded, unit C13.keep_rows.bounded)"""
            e = matmodel.entry_fn(it, mat)
            f = V(row_filter)
            calls.append((mat, row_filter))
            return Mat(mat.rows, mat.cols, lambda i, j: z3.If(f.f(i), ops._real(e(i, j)), z3.RealVal(0)), name=it.path.fresh_name("K"))

        u.it.abstract["pygradflow.util.keep_rows"] = keep_rows
        D = u.method(func, "deriv", J, H, act)
        e = matmodel.entry_fn(u.it, D)
        eJ, eH = matmodel.entry_fn(u.it, J), matmodel.entry_fn(u.it, H)
        i, j = u.int("i"), u.int("j")
        kron = lambda a, b: z3.If(a == b, z3.RealVal(1), z3.RealVal(0))
        inact = lambda r: z3.Not(av.f(r))
        if scaled:
            s11 = lambda a, b: lam * kron(a, b) + z3.If(inact(a), eH(a, b), 0)
            s12 = lambda a, b: z3.If(inact(a), eJ(b, a), 0)
            s21 = lambda a, b: -eJ(a, b)
            s22 = lambda a, b: lam * kron(a, b)
        else:
            s11 = lambda a, b: kron(a, b) + z3.If(inact(a), dt * eH(a, b), 0)
            s12 = lambda a, b: z3.If(inact(a), dt * eJ(b, a), 0)
            s21 = lambda a, b: -dt * eJ(a, b)
            s22 = lambda a, b: kron(a, b)
        rng = z3.And(i >= 0, j >= 0)
        u.ensure(z3.Implies(z3.And(rng, i < n, j < n), e(i, j) == s11(i, j)), "deriv[:n,:n]==I+dt*D_notA*H")
        u.ensure(z3.Implies(z3.And(rng, i < n, j >= n, j < n + m), e(i, j) == s12(i, j - n)), "deriv[:n,n:]==dt*D_notA*J^T")
        u.ensure(z3.Implies(z3.And(rng, i >= n, i < n + m, j < n), e(i, j) == s21(i - n, j)), "deriv[n:,:n]==-dt*J")
        u.ensure(z3.Implies(z3.And(rng, i >= n, i < n + m, j >= n, j < n + m), e(i, j) == s22(i - n, j - n)), "deriv[n:,n:]==I")
        u.ensure(D.rows == n + m if not isinstance(D.rows, int) else True, "deriv_is_(n+m)x(n+m)")
        u.canary(z3.Implies(z3.And(rng, i < n, j < n), e(i, j) == kron(i, j) + dt * eH(i, j)), "no_row_filter")
        u.cover("end")

    return value_at, deriv


func_units(False)
func_units(True)


@unit("C13.keep_rows", ["C13", "C11"], ["pygradflow.util.keep_rows"], config={"max_paths": 20})
def keep_rows(u):
    """keep_rows(M, f): the stored entries of the result are exactly the stored entries of M whose row is kept
    (order and multiplicity preserved), same shape; M itself is not modified.  (The entrywise reading
    result[i,j] = f[i] ? M[i,j] : 0 follows by lemma LA1: a sub-family of the stored entries sums to the kept part.)"""
    from .c04_transform import StoreLog

    m, n = u.int("m"), u.int("n")
    u.assume(z3.And(m >= 0, n >= 0))
    fmt = ["coo", "csr", "csc"][u.path.choose_n(3, "format")]
    M = matmodel.user_matrix(u.it, m, n, "M", fmt=fmt)
    nnz, row0, col0, data0 = M.coo[0], M.coo[1].vec(), M.coo[2].vec(), M.coo[3].vec()
    f = u.vec("row_filter", m, kind="bool", region="USER")
    fv = V(f)
    log = StoreLog(u)
    R = u.call("pygradflow.util.keep_rows", M, f)
    if R is M:
        u.ensure(QAll(m, lambda i: fv.f(i)), "matrix_returned_unchanged_only_when_every_row_is_kept")
        return
    u.ensure(R.rows is m and R.cols is n or (R.rows == m and R.cols == n), "same_shape")
    cnt, row, col, data = R.coo[0], R.coo[1].vec(), R.coo[2].vec(), R.coo[3].vec()
    sel = getattr(R, "selection", None)
    u.ensure(sel is not None, "result_is_a_selection_of_the_stored_entries")
    if sel is None:
        return
    iv, mask = sel
    u.ensure(QAll(cnt, lambda k: z3.And(iv.f(k) >= 0, iv.f(k) < nnz, row.f(k) == row0.f(iv.f(k)), col.f(k) == col0.f(iv.f(k)), data.f(k) == data0.f(iv.f(k)), fv.f(row0.f(iv.f(k))))), "every_result_entry_is_a_stored_entry_of_a_kept_row")
    u.ensure(QAll(cnt, lambda a: QAll(cnt, lambda b: z3.Implies(a < b, iv.f(a) < iv.f(b)))), "order_and_multiplicity_preserved")
    inv = iv.inverse
    u.ensure(QAll(nnz, lambda q: z3.Implies(fv.f(u.path.index_term(row0.f(q), m)), z3.And(inv[1](q) >= 0, inv[1](q) < cnt, iv.f(inv[1](q)) == q))), "every_stored_entry_of_a_kept_row_is_in_the_result")
    u.ensure(QAll(nnz, lambda q: M.coo[3].vec().f(q) == data0.f(q)), "argument_not_modified", props=["C11"])
    log.check()
    u.cover("end")


def deriv_at_unit(scaled):
    nm = "ScaledImplicitFunc" if scaled else "ImplicitFunc"

    @unit(f"C13.{nm}.deriv_at", ["C13", "C14"], [IF + nm + ".deriv_at"], config={"max_paths": 20})
    def deriv_at(u, scaled=scaled):
        """deriv_at(iterate, rho, active_set) == deriv(iterate.aug_lag_deriv_xy(), iterate.aug_lag_deriv_xx(rho), A) with
        A the given active set, or compute_active_set(iterate, rho) when none is given (the parts are proved in
        C13.<class>.deriv, C13.aug_lag_deriv_xx, C13.aug_lag, C13.<class>.value_at)"""
        from pyvc.values import Mat, Opaque

        params, problem, orig, cur, dt, func = mk_func(u, scaled)
        rho = u.real("rho")
        u.assume(rho > 0)
        n, m = problem.fields["__n__"], problem.fields["num_cons"]
        H, J, D = Mat(n, n, None, name="Hxx"), Mat(m, n, None, name="Jxy"), Mat(n + m, n + m, None, name="D")
        log = {}
        A = u.it.abstract
        IT_ = "pygradflow.iterate.Iterate."
        A[IT_ + "aug_lag_deriv_xx"] = lambda it, s, r: (log.setdefault("xx", (s, r)), H)[1]
        A[IT_ + "aug_lag_deriv_xy"] = lambda it, s: (log.setdefault("xy", (s,)), J)[1]
        A[IF + nm + ".deriv"] = lambda it, s, jac, hess, aset: (log.setdefault("deriv", (jac, hess, aset)), D)[1]
        computed = u.vec("computed_active_set", n, kind="bool")
        A[IF + "StepFunc.compute_active_set"] = lambda it, s, iterate, r, tau=None: (log.setdefault("cas", (iterate, r, tau)), computed)[1]
        given = u.path.choose("active set given")
        aset = u.vec("given_active_set", n, kind="bool") if given else None
        res = u.method(func, "deriv_at", cur, rho, aset)
        u.ensure(res is D, "returns_deriv(...)")
        u.ensure(log["deriv"][0] is J and log["deriv"][1] is H, "deriv_receives(aug_lag_deriv_xy(),aug_lag_deriv_xx(rho))")
        u.ensure(log["xx"][0] is cur and log["xx"][1] is rho and log["xy"][0] is cur, "derivatives_of_the_given_iterate_at_the_given_rho")
        if given:
            u.ensure(log["deriv"][2] is aset and "cas" not in log, "given_active_set_used_as_it_is")
        else:
            u.ensure(log["deriv"][2] is computed and log["cas"][0] is cur and log["cas"][1] is rho, "active_set==compute_active_set(iterate,rho)_when_none_is_given")

    return deriv_at


deriv_at_unit(False)
deriv_at_unit(True)


@unit("C13.StepResult.diff", ["C13", "C15"], ["pygradflow.step.solver.step_solver.StepResult.diff", "pygradflow.util.norm_mult"], config={"max_paths": 20})
def step_result_diff(u):
    """StepResult.diff (the step length used by the distance-ratio controller and the display) is the 2-norm of
    the stacked step (dx, dy): diff^2 == |dx|^2 + |dy|^2, diff >= 0"""
    from pyvc import npmodel
    from .models import _fresh_vec

    params, problem, orig = setup(u, "orig")
    n, m = problem.fields["__n__"], problem.fields["num_cons"]
    dx, dy = _fresh_vec(u.it, "dx", n), _fresh_vec(u.it, "dy", m)
    sr = u.obj("pygradflow.step.solver.step_solver.StepResult", orig_iterate=orig, dx=dx, dy=dy, active_set=None, rcond=None)
    diff = u.get(sr, "diff")
    sx, sy = npmodel.np_dot(u.it, dx, dx), npmodel.np_dot(u.it, dy, dy)
    u.ensure(diff >= 0, "diff>=0")
    u.ensure(diff * diff == sx + sy, "diff^2==dx.dx+dy.dy")
    u.canary(diff * diff == sx, "diff_ignores_the_multiplier_step")
    u.cover("end")
