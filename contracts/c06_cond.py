"""C06 - the condition estimator never dies from a domain error / internal assertion before its spectral loop.

ConditionEstimator.__init__, _required_its and the head of estimate_rcond (up to the first random vector) are
executed symbolically for EVERY matrix size >= 0:
  * math.pow(size, -0.5) needs size != 0, math.log(factor, 10) needs factor > 0 (domain obligations),
  * `assert num_its > 0`,
  * the empty system (size == 0: all variables active, no constraints) returns before any of them.
NOT covered here (assumption A-RCOND): the power-iteration loop itself (`assert y.dot(yprod) > 0`, math.pow of
the accumulated products) - a spectral fact about (A^T A)^-k plus floating-point range; native sweep only.
"""
from __future__ import annotations

import z3

from pyvc.harness import unit
from pyvc.interp import PathEnd
from pyvc.values import Mat, Opaque

from .common import mk_params

CE = "pygradflow.step.cond_estimate.ConditionEstimator."


@unit("C06.ConditionEstimator.head", ["C06"], [CE + "__init__", CE + "_required_its", CE + "estimate_rcond"], config={"max_paths": 20, "implicit_props": ["C06"]})
def estimator_head(u):
    size = u.int("size")
    u.assume(size >= 0)
    params = mk_params(u)
    mat = Mat(size, size, None, name="K")
    reached = {"loop": False}

    def random_vec(it, self_):
        # the head is over: everything before the first random vector has been executed
        reached["loop"] = True
        u.ensure(self_.fields["size"] >= 1, "spectral_loop_entered_only_for_a_non-empty_system")
        u.cover("loop_reached")
        raise PathEnd()

    u.it.abstract[CE + "_random_vec"] = random_vec
    u.it.abstract["numpy.random.default_rng"] = lambda it, seed=None: Opaque("rng")
    u.it.lib["numpy.random.default_rng"] = lambda it, seed=None: Opaque("rng")
    est = u.construct(CE[:-1], mat, Opaque("linear_solver"), params)
    kind, val = u.raised(lambda: u.method(est, "estimate_rcond"))
    u.ensure(kind == "ok", "estimate_rcond_does_not_raise_before_the_spectral_loop")
    if kind == "ok":
        # only the empty system returns from the head
        u.ensure(size == 0, "early_return_only_for_the_empty_system")
        u.ensure(val == 1.0 if isinstance(val, (int, float)) else False, "empty_system:rcond==1")
    u.cover("end")


@unit("C06.ConditionEstimator.required_its", ["C06"], [CE + "_required_its"], config={"max_paths": 20, "implicit_props": ["C06"]})
def required_its(u):
    size = u.int("size")
    u.assume(size >= 1)
    est = u.obj(CE[:-1], size=size, min_prob=0.99, factor=10.0)
    n_its = u.method(est, "_required_its")
    u.ensure(n_its >= 2, "required_its>=2")
    u.canary(n_its >= 1000, "required_its_unbounded_below")
    u.cover("end")
