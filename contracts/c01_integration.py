"""C01 - the optimality test of the flow-integration solver (IntegrationSolver), head of its main loop.

The solver declares Optimal when  RestrictedFlow(flow, filter).residuum(z) <= opt_tol  with filter == create_filter(z, rho)
(checked by `_check_filter` at every loop head), and returns x, y = split(z), d = Iterate(x, y).bounds_dual.
This unit executes the REAL create_filter, RestrictedFlow.rhs / residuum, Flow.aug_lag_deriv_x and Iterate.bounds_dual
for an arbitrary in-box state and asks for what C01 promises at an Optimal return:
    |c_i| <= tol   and   |grad f + J^T y + d|_j <= tol.
The first holds.  The second does NOT (open known finding, see known_findings.json / DESIGN I.5): a variable pinned by
the filter is excluded from the residual, the filter pins by the sign of the PENALISED gradient while d uses the
unpenalised one.  The rest of the solver (SciPy BDF integration, event root finding) is outside the contract reach.
"""
from __future__ import annotations

import z3

from pyvc import matmodel, npmodel, ops
from pyvc.core import QAll, UFact
from pyvc.harness import unit
from pyvc.values import Arr, Opaque, Vec

from .common import mk_iterate, mk_params, mk_problem
from .models import install_evaluator_contracts, mk_evaluator
from .spec import V

INT = "pygradflow.integration."


@unit("C01.IntegrationSolver.gate", ["C01"], [INT + "integration_solver.IntegrationSolver.create_filter", INT + "restricted_flow.RestrictedFlow.rhs", INT + "restricted_flow.RestrictedFlow.residuum", INT + "flow.Flow.aug_lag_deriv_x", INT + "flow.Flow.neg_aug_lag_deriv_x", INT + "flow.Flow.split_states", "pygradflow.iterate.Iterate.bounds_dual"], config={"max_paths": 200, "timeout_ms": 120000})
def integration_gate(u):
    params = mk_params(u)
    problem = mk_problem(u)
    n, m = problem.fields["__n__"], problem.fields["num_cons"]
    tol = params.fields["opt_tol"]
    ev = mk_evaluator(u, problem)
    # the state: one iterate (its cached values are what the evaluator returns at its x)
    itx = mk_iterate(u, problem, params, "it", in_box=True)
    itx.fields["eval"] = ev
    x, y = itx.fields["x"], itx.fields["y"]
    A = u.it.abstract
    EV = "pygradflow.eval.Evaluator."
    A[EV + "cons"] = lambda it, s, xx: itx.fields["cons"]
    A[EV + "obj_grad"] = lambda it, s, xx: itx.fields["obj_grad"]
    A[EV + "cons_jac"] = lambda it, s, xx: itx.fields["cons_jac"]
    xv, yv = V(x), V(y)
    z = Arr.new(Vec(n + m, lambda i: z3.If(i < n, xv.f(i), yv.f(i - n)), "real"))
    flow = u.obj(INT + "flow.Flow", problem=problem, params=params, eval=ev)
    # split_states(z) == (z[:n], z[n:]): for z = (x ; y) these are x and y themselves (pointwise equal; handing out the
    # very arrays lets the uninterpreted products J^T(.) of the gate and of bounds_dual meet by congruence)
    real_split = u.func(INT + "flow.Flow.split_states")

    def _real_split(it, s_, zz):
        saved = A.pop(INT + "flow.Flow.split_states")
        try:
            return it.call_func(real_split, [s_, zz], {}, self_obj=s_)
        finally:
            A[INT + "flow.Flow.split_states"] = saved

    def split_states(it, s_, zz):
        if zz is z:
            xs, ys = _real_split(it, s_, zz)
            kq = it.path.int("split_k")
            it.path.index_term(kq, n)
            it.path.index_term(kq, m)
            it.path.prove(z3.Implies(z3.And(kq >= 0, kq < n), V(xs).f(kq) == xv.f(kq)), "split_states(z)[0]==x", kind="ensures", props=["C01"])
            it.path.prove(z3.Implies(z3.And(kq >= 0, kq < m), V(ys).f(kq) == yv.f(kq)), "split_states(z)[1]==y", kind="ensures", props=["C01"])
            return (x, y)
        return _real_split(it, s_, zz)

    A[INT + "flow.Flow.split_states"] = split_states
    solver = u.obj(INT + "integration_solver.IntegrationSolver", problem=problem, params=params, flow=flow, evaluator=ev, orig_problem=Opaque("user"))
    rho = u.real("rho")
    u.assume(rho > 0)
    from .models import _fresh_vec

    A[INT + "flow.Flow.rhs_deriv_x"] = lambda it, s, zz, r: _fresh_vec(it, "ddx", n)  # second-order tie-break data: arbitrary
    kind, filt = u.raised(lambda: u.method(solver, "create_filter", z, rho))
    if kind == "raise":
        return  # "Degenerate bound": no result, nothing to judge
    rflow = u.obj(INT + "restricted_flow.RestrictedFlow", flow=flow, problem=problem, params=params, eval=ev, filter=filt)
    res = u.method(rflow, "residuum", z)
    u.assume(res <= tol)  # the gate: status = Optimal
    d = V(u.get(itx, "bounds_dual"))
    c, g = V(itx.fields["cons"]), V(itx.fields["obj_grad"])
    jty = V(matmodel.mtv(u.it, itx.fields["cons_jac"], y))
    i, j = u.int("i"), u.int("j")
    u.path.index_term(n + i, n + m)
    u.path.index_term(j, n + m)
    u.path.index_term(j, n)
    u.path.index_term(i, m)
    u.ensure(z3.Implies(z3.And(i >= 0, i < m), ops.zabs(c.f(i)) <= tol), "Optimal=>|c_i|<=tol")
    fv = V(filt)
    u.ensure(z3.Implies(z3.And(j >= 0, j < n, fv.f(j)), ops.zabs(g.f(j) + jty.f(j) + d.f(j)) <= tol), "Optimal=>|g+J^Ty+d|_j<=tol_at_the_variables_the_filter_leaves_free")
    u.ensure(z3.Implies(z3.And(j >= 0, j < n, z3.Not(fv.f(j))), ops.zabs(g.f(j) + jty.f(j) + d.f(j)) <= tol), "Optimal=>|g+J^Ty+d|_j<=tol_at_the_variables_the_filter_pins")
    u.cover("end")
