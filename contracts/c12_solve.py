"""Solver.solve - loop contract shared by C01 (gate), C02, C05, C07, C08, C12, C15, C16 (DESIGN Appendix A).

The whole of `solve` is executed symbolically from the real source.  Callees seen through their contracts:
  Transformation.create_transformed_iterate  -> an in-box, not yet evaluated Iterate           (C04/C05 units)
  evaluator._eval_*                          -> may raise EvalError at any call               (fault model, C07)
  Solver._check_terminate                    -> ordered gate contract                         (C02 unit)
  StepController.compute_step                -> never raises EvalError/StepSolverError; failure/rejection/acceptance
                                                 clauses                                       (C07/C15 units)
  Callbacks.__call__, Display.should_display/row, solver_display -> observers (ghost log only)  (C09)
  Transformation.restore_sol, SolverResult._set_path -> recorded, checked in C04 / natively
The penalty policy's `update` / `initial` and everything else (print_problem_stats, print_result, Timer,
StateData, SolverResult.__init__, step_controller, penalty_strategy, _deriv_check with NoCheck) is inlined real code.

Loop invariant at the head of `while True` (program variables, then ghosts n_steps, n_cb, maxy):
  iteration >= 0, (limit != None => iteration <= limit), n_steps == n_cb == iteration
  0 <= accepted_steps <= iteration ; iterate is evaluated and inside the box
  0 < lamb < lamb_max
  0 < self.rho <= policy.rho ; Constant => self.rho == params.rho ; DualNorm => self.rho <= max(params.rho, maxy)
  collect_path => len(path) == len(path_times) == accepted_steps + 1, else path is None
"""
from __future__ import annotations

import ast

import z3

from pyvc import npmodel, ops
from pyvc.core import QAll, UFact
from pyvc.harness import unit
from pyvc.interp import PathEnd
from pyvc.values import PINF, Arr, EnumVal, ExcVal, ListCell, Obj, Opaque, PyRaise, SymList, Vec

from .common import mk_iterate, mk_params, mk_problem
from .models import eval_error, install_evaluator_contracts, mk_evaluator

SOLVE = "pygradflow.solver.Solver.solve"
LOOP = SOLVE + "/loop#0"
POLICIES = ["Constant", "DualNorm", "DualEquilibration", "ParetoDecrease", "ObjectiveFilter", "LagrangianFilter"]
DELIBERATE = ("Failed to evaluate initial iterate", "Inverse step size", "Line search failed")


PROPS = [
    ("iteration>=0", ["C02", "C08", "C12"]), ("iteration<=limit", ["C02", "C08"]), ("#compute_step", ["C12"]), ("#callbacks", ["C12"]),
    ("0<=accepted_steps", ["C12"]), ("iterate_evaluated", ["C07"]), ("iterate_in_box", ["C05", "C01"]), ("0<lamb<lamb_max", ["C15"]),
    ("self.rho", ["C16"]), ("constant:", ["C16"]), ("dualnorm:", ["C16"]), ("len(path", ["C12"]), ("path_is_None", ["C12"]), ("path_dist", ["C12"]),
    ("start.", ["C07"]),
    ("exactly_one_step", ["C12"]), ("exactly_one_callback", ["C12", "C09"]), ("step_starts_from", ["C12", "C15"]), ("step_uses_exactly", ["C15"]),
    ("step_uses_self.rho", ["C16"]), ("callback_announces", ["C12", "C05"]), ("lamb_carried", ["C15"]), ("iteration_counted_once", ["C12", "C02", "C08"]),
    ("rejected_or_failed=>iterate_unchanged", ["C15", "C07"]), ("rejected_or_failed=>next", ["C15"]), ("iterate_changed", ["C12"]), ("iterate_unchanged", ["C12"]),
    ("rho_never_decreases", ["C16"]), ("no_accepted_step=>self.rho", ["C16"]), ("accepted=>one_column", ["C12"]), ("appended_column", ["C12"]),
    ("model_time", ["C12"]), ("not_accepted=>path", ["C12"]), ("step_norms", ["C12"]), ("primal_step_norm", ["C12"]), ("dual_step_norm", ["C12"]),
    ("limits_tested_before", ["C08", "C02"]), ("iterate_is_last_accepted", ["C08", "C12"]),
    ("requires dt>0", ["C15", "C06"]), ("requires rho>0", ["C16"]),
    ("raises_only", ["C07", "C06", "C09"]), ("initial-point", ["C07"]), ("returns_only_through", ["C12"]), ("result.status", ["C02", "C01"]),
    ("result.iterations", ["C12"]), ("result.num_accepted", ["C12"]), ("gate_tested", ["C01", "C02"]), ("result(x,y,d)", ["C12", "C01", "C08", "C05"]),
    ("result.x_is", ["C12", "C01"]), ("IterationLimit", ["C02", "C08"]), ("never_more_iterations", ["C02"]), ("no_limit", ["C02"]),
    ("collect_path", ["C12"]), ("no_collect_path", ["C12", "C09"]), ("final_rho", ["C16"]), ("dist_factor", ["C12"]),
    ("solve:self.rho_reset", ["C10", "C16"]),
    ("deadline_timer", ["C02", "C08", "C10"]),
]
PROPS.insert(0, PROPS.pop())


def props_of(label):
    for k, v in PROPS:
        if label.startswith(k) or (":" + k) in label:
            return v
    return None


class SolveCtx:
    """ghost state of one symbolic run of solve"""

    def __init__(self):
        self.steps = []  # (iterate, rho, dt, result) per compute_step call
        self.cbs = []  # callback argument tuples
        self.gate = []  # (iterate, iteration, status)
        self.restore = None
        self.set_path = None
        self.head = None
        self.timers = []
        self.pre_ids = set()


def build(u, policy, collect_path=None, limited=None, display_real=False, start_anywhere=False):
    p = u.path
    if collect_path is None:
        collect_path = p.choose("collect_path")
    if limited is None:
        limited = p.choose("iteration_limit set")
    params = mk_params(u, penalty_update=u.enum("pygradflow.params.PenaltyUpdate", policy), collect_path=collect_path)
    if limited:
        lim = u.int("iteration_limit")
        u.assume(lim >= 0)
        params.fields["iteration_limit"] = lim
    problem = mk_problem(u)
    problem.fields["var_bounded"] = u.bool("var_bounded")
    ev = mk_evaluator(u, problem)
    install_evaluator_contracts(u.it)
    ctx = SolveCtx()
    ctx.params, ctx.problem, ctx.ev, ctx.policy = params, problem, ev, policy

    def new_iterate(name, evaluated):
        itx = mk_iterate(u, problem, params, name, evaluated=evaluated, in_box=True)
        itx.fields["eval"] = ev
        itx.ghost_in_box = True
        return itx

    ctx.new_iterate = new_iterate
    # the user's problem: its own number of variables (the transformed problem has that many plus the slacks) and
    # the same number of constraint rows
    n_user = u.int("user_n")
    u.assume(n_user >= 0)
    u.assume(n_user <= problem.fields["__n__"])
    user_problem = mk_problem(u, n=n_user, m=problem.fields["num_cons"], name="user")
    ctx.user_problem = user_problem
    transform = u.obj("pygradflow.transform.Transformation", evaluator=ev, params=params, orig_problem=user_problem, scaling=None, trans_problem=problem)
    # the real Solver.__init__ runs (Transformation construction is seen through its contract, C04); afterwards the
    # state left behind by arbitrary earlier solves on the same object is havoced (C10: solve must not depend on it)
    u.it.abstract["pygradflow.transform.Transformation"] = lambda it, orig_problem, params_: transform
    callbacks = u.obj("pygradflow.callbacks.Callbacks")
    u.it.abstract["pygradflow.callbacks.Callbacks"] = lambda it: callbacks
    solver = u.construct("pygradflow.solver.Solver", user_problem, params)
    havoc_persistent(u, solver, skip=(params, problem, transform, ev, user_problem))
    ctx.solver = solver
    # objects that exist before solve() is entered (anything created by __init__ or left by earlier solves)
    stack = [solver]
    while stack:
        o = stack.pop()
        if id(o) in ctx.pre_ids:
            continue
        ctx.pre_ids.add(id(o))
        for v in getattr(o, "fields", {}).values():
            if isinstance(v, Obj):
                stack.append(v)
    A = u.it.abstract

    def create_transformed_iterate(it, self_, x0, y0):
        if start_anywhere:
            # a user-supplied start point that need not satisfy the bounds (C05's premise does not hold; C12 and C04
            # still speak about it: the first announced step starts from the transformed x0, whatever it is)
            ctx.start = mk_iterate(u, problem, params, "start", evaluated=False, in_box=False)
            ctx.start.fields["eval"] = ev
            ctx.start_anywhere = True
        else:
            ctx.start = new_iterate("start", evaluated=False)
        return ctx.start

    A["pygradflow.transform.Transformation.create_transformed_iterate"] = create_transformed_iterate

    def restore_sol(it, self_, x, y, d):
        ctx.restore = (x, y, d)
        return (Opaque("x_user"), Opaque("y_user"), Opaque("d_user"))

    A["pygradflow.transform.Transformation.restore_sol"] = restore_sol

    def solver_display(it, problem_, params_):
        return u.obj("pygradflow.display.Display", cols=[], interval=params_.fields["display_interval"], timer=None, last_state=None, header=Opaque("str"))

    if not display_real:
        A["pygradflow.display.solver_display"] = solver_display
        A["pygradflow.display.Display.row"] = lambda it, self_, state: Opaque("str")
    else:
        params.fields["report_rcond"] = p.choose("report_rcond")
    A["pygradflow.display.Display.should_display"] = lambda it, self_: it.path.choose("display this iteration")

    def cb(it, self_, cbtype, *args, **kw):
        ctx.cbs.append((cbtype,) + tuple(args))
        return None

    A["pygradflow.callbacks.Callbacks.__call__"] = cb

    ST = lambda n: u.enum("pygradflow.status.SolverStatus", n)

    def check_terminate(it, self_, iterate, iteration, timer):
        """gate contract (proved in C02._check_terminate): IterationLimit iff the limit is reached; otherwise any
        of the other outcomes"""
        lim = params.fields["iteration_limit"]
        hit = False if lim is None else it.truth(iteration >= lim)
        if hit:
            st = ST("IterationLimit")
        else:
            k = it.path.choose_n(5, "gate outcome")
            st = [None, ST("TimeLimit"), ST("Optimal"), ST("LocallyInfeasible"), ST("Unbounded")][k]
        ctx.gate.append((iterate, iteration, st))
        ctx.timers.append(timer)
        return st

    A["pygradflow.solver.Solver._check_terminate"] = check_terminate

    def compute_step(it, self_, iterate, rho, dt, display, timer):
        """contract proved in C07.compute_step + the C15 controller units"""
        it.path.prove(dt > 0, "Solver.solve:call compute_step:requires dt>0", kind="requires", props=["C15", "C06"])
        it.path.prove(rho > 0, "Solver.solve:call compute_step:requires rho>0", kind="requires", props=["C16"])
        k = it.path.choose_n(3, "compute_step outcome")
        lam = it.path.real("lamb_next")
        it.path.assume(lam > 0)
        if k == 0:  # failure or rejection: iterate unchanged / trial discarded, lamb strictly larger
            it.path.assume(lam > 1 / dt)
            failed = it.path.choose("failure (vs controller rejection)")
            nxt = iterate if failed else new_iterate("trial", evaluated=False)
            res = u.obj("pygradflow.step.step_control.StepControlResult", iterate=nxt, lamb=lam, active_set=None, rcond=None, accepted=False)
        elif k == 1:
            nxt = new_iterate("acc", evaluated=True)
            aset, rc = Opaque("active_set"), None
            if display_real:
                aset = u.vec(it.path.fresh_name("active_set"), problem.fields["__n__"], kind="bool")
                if params.fields["report_rcond"] and it.path.choose("rcond available"):
                    rc = it.path.real("rcond")
            res = u.obj("pygradflow.step.step_control.StepControlResult", iterate=nxt, lamb=lam, active_set=aset, rcond=rc, accepted=True)
        else:
            raise PyRaise(ExcVal(Exception, ("Line search failed to converge",)), origin="compute_step(Globalized line search)")
        ctx.steps.append((iterate, rho, dt, res))
        return res

    A["pygradflow.step.step_control.StepController.compute_step"] = compute_step

    def set_path_hook(it, fn, args, kwargs, node, frame):
        from pyvc.interp import BoundMethod

        if isinstance(fn, BoundMethod) and fn.func.qualname == "pygradflow.result.SolverResult._set_path":
            ctx.set_path = tuple(args)

    u.it.hooks["call"] = set_path_hook
    return ctx


class SolveLoop:
    def __init__(self, u, ctx):
        self.u, self.ctx = u, ctx

    # ---- the invariant over a frame ------------------------------------------------
    def inv(self, it, frame, head=None):
        u, ctx = self.u, self.ctx
        P = ctx.params.fields
        L = frame.locals
        s = ctx.solver
        out = []
        iteration = L["iteration"]
        out.append(("iteration>=0", iteration >= 0))
        if P["iteration_limit"] is not None:
            out.append(("iteration<=limit", iteration <= P["iteration_limit"]))
        out.append(("#compute_step==iteration", ctx.n_steps == iteration))
        out.append(("#callbacks==iteration", ctx.n_cb == iteration))
        out.append(("0<=accepted_steps<=iteration", z3.And(L["accepted_steps"] >= 0, L["accepted_steps"] <= iteration)))
        itr = L["iterate"]
        out.append(("iterate_evaluated", isinstance(itr, Obj) and all(k in itr.fields for k in ("obj", "obj_grad", "cons", "cons_jac"))))
        out.append(("iterate_in_box", getattr(itr, "ghost_in_box", False)))
        out.append(("0<lamb<lamb_max", z3.And(L["lamb"] > 0, L["lamb"] < P["lamb_max"])))
        rho = s.fields["rho"]
        out.append(("self.rho>0", rho > 0))
        strat = s.fields["penalty_strategy"]
        expected_cls = {"Constant": "ConstantPenalty", "DualNorm": "DualNormUpdate", "DualEquilibration": "DualEquilibration", "ParetoDecrease": "ParetoDecrease", "ObjectiveFilter": "ObjectivePenaltyFilter", "LagrangianFilter": "LagrangianPenaltyFilter"}[ctx.policy]
        right = isinstance(strat, Obj) and strat.cls is not None and strat.cls.name == expected_cls
        out.append(("penalty_policy_object_is_the_one_the_parameters_ask_for", right))
        if not right:
            return out
        if ctx.policy == "Constant":
            out.append(("constant:self.rho==params.rho", rho == P["rho"]))
        else:
            out.append(("self.rho<=policy.rho", rho <= strat.fields["rho"]))
        if ctx.policy == "DualNorm":
            out.append(("dualnorm:self.rho<=max(params.rho,max|y|inf_of_accepted)", rho <= ops.zmax(P["rho"], ctx.maxy)))
            out.append(("dualnorm:policy.rho==self.rho", rho == strat.fields["rho"]))
        if P["collect_path"]:
            pth, pt = L["path"], L["path_times"]
            out.append(("len(path)==accepted_steps+1", isinstance(pth, ListCell) and npmodel._len(it, pth) == L["accepted_steps"] + 1))
            out.append(("len(path_times)==len(path)", isinstance(pt, ListCell) and npmodel._len(it, pt) == npmodel._len(it, pth)))
        else:
            out.append(("path_is_None", L["path"] is None))
        out.append(("path_dist>=0", L["path_dist"] >= 0))
        out.append(("path_dist>=dist(iterate,start)", L["path_dist"] >= self.dist(it, itr, L["initial_iterate"])))
        return out

    def dist(self, it, a, b):
        """ghost evaluation of the real Iterate.dist (pure)"""
        return it.call(it.getattr(a, "dist"), [b], {})

    def _prove_all(self, it, frame, phase):
        for label, goal in self.inv(it, frame):
            pr = props_of(label)
            if phase == "establish" and pr is not None:
                pr = pr + ["C10"]  # established from state that earlier solves may have left behind
            it.path.prove(goal, f"Solver.solve/invariant:{phase}:{label}", kind="invariant", props=pr)

    def establish(self, it, frame, site):
        ctx = self.ctx
        if getattr(ctx, "start_anywhere", False):
            # the prologue unit: only the identity of the point the loop starts from is asked, the loop is not entered
            it.path.prove(frame.locals["iterate"] is ctx.start, "Solver.solve/entry:the_loop_starts_from_the_transformed_start_point_itself(not_a_projection_of_it)", kind="invariant", props=["C12", "C04"])
            raise PathEnd()
        ctx.n_steps = len(ctx.steps)
        ctx.n_cb = len(ctx.cbs)
        ctx.maxy = z3.RealVal(0)
        # the start iterate was evaluated by check_eval (or cannot fault: m == 0)
        st = frame.locals["iterate"]
        for k, v in (("cons", None), ("cons_jac", None)):
            if k not in st.fields:
                it.path.prove(ctx.problem.fields["num_cons"] == 0, f"Solver.solve/invariant:establish:start.{k}_evaluated_unless_m==0", kind="invariant", props=["C07"])
                st.fields.setdefault(k, mk_dummy(self.u, ctx, k))
        self._prove_all(it, frame, "establish")
        # C10: persistent solver fields are written before they are read
        self.u.ensure(ctx.solver.fields["rho"] is frame.locals["rho_init"], "solve:self.rho_reset_from_policy.initial_before_loop")

    def signature(self, it, frame):
        ctx = self.ctx
        return (ctx.policy, bool(ctx.params.fields["collect_path"]), ctx.params.fields["iteration_limit"] is None)

    def havoc(self, it, frame, site):
        u, ctx = self.u, self.ctx
        p = it.path
        L = frame.locals
        P = ctx.params.fields
        self.check_havoc_complete(frame)
        L["iterate"] = ctx.new_iterate("head", evaluated=True)
        L["lamb"] = p.real("lamb")
        L["iteration"] = p.int("iteration")
        L["accepted_steps"] = p.int("accepted_steps")
        L["path_dist"] = p.real("path_dist")
        L["num_penalty_changes"] = p.int("num_penalty_changes")
        L["status"] = None
        ctx.solver.fields["rho"] = p.real("self_rho")
        strat = ctx.solver.fields["penalty_strategy"]
        if "rho" in strat.fields:
            strat.fields["rho"] = p.real("policy_rho")
        if "entries" in strat.fields:
            from .c18_filter import sym_entries

            sym_entries(u, strat)
        if P["collect_path"]:
            n = L["accepted_steps"] + 1
            F = p.func("path_elem", z3.IntSort(), z3.IntSort(), z3.RealSort())
            T = p.func("path_time", z3.IntSort(), z3.RealSort())
            zlen = ctx.problem.fields["__n__"] + ctx.problem.fields["num_cons"]
            L["path"] = ListCell(SymList(n, lambda k: Opaque("path column", ("len", zlen)), "path"))  # every column is a z vector
            L["path_times"] = ListCell(SymList(n, lambda k: T(k if not isinstance(k, int) else z3.IntVal(k)), "path_times"))
        ctx.n_steps = p.int("n_steps")
        ctx.n_cb = p.int("n_cb")
        ctx.maxy = p.real("maxy")
        p.assume(ctx.maxy >= 0)
        ctx.steps, ctx.cbs, ctx.gate = [], [], []
        for label, goal in self.inv(it, frame):
            if isinstance(goal, bool):
                if not goal:
                    # a structural clause that the code under test does not even establish (already reported as a
                    # failed obligation at establish): no arbitrary iteration to explore from an impossible state
                    raise PathEnd()
                continue
            p.assume(goal)
        ctx.head = dict(iterate=L["iterate"], lamb=L["lamb"], iteration=L["iteration"], accepted=L["accepted_steps"], rho=ctx.solver.fields["rho"],
                        policy_rho=strat.fields.get("rho"), path=L["path"].val if P["collect_path"] else None, path_times=L["path_times"].val if P["collect_path"] else None,
                        n_steps=ctx.n_steps, n_cb=ctx.n_cb, maxy=ctx.maxy, path_dist=L["path_dist"])

    HAVOCED = {"iterate", "lamb", "iteration", "accepted_steps", "path_dist", "num_penalty_changes", "status", "path", "path_times"}

    def check_havoc_complete(self, frame):
        """every variable that is LOOP-CARRIED (assigned in the body and live at the loop head or read after the
        loop) must be havoced by this contract; temporaries of the body may be renamed / added freely"""
        from pyvc.core import Unsupported

        fn = frame.func.node
        loop = next(n for n in ast.walk(fn) if isinstance(n, ast.While))
        assigned = {n.id for n in ast.walk(loop) if isinstance(n, ast.Name) and isinstance(n.ctx, ast.Store)}
        attrs = {ast.unparse(n) for n in ast.walk(loop) if isinstance(n, ast.Attribute) and isinstance(n.ctx, ast.Store)}
        live_in = _live_in(loop.body) | {n.id for n in ast.walk(loop.test) if isinstance(n, ast.Name)}
        rest, seen_loop = [], False
        for st in fn.body:
            if st is loop:
                seen_loop = True
            elif seen_loop:
                rest.append(st)
        after = _live_in(rest)
        carried = assigned & (live_in | after)
        extra = carried - self.HAVOCED - self.GUARDED
        # a loop-carried variable the contract does not know is HAVOCED WITHOUT ANY INVARIANT (sound: the invariant
        # says nothing about it, so nothing about it may be assumed at the loop head): an arbitrary value of the
        # kind it has at loop entry.  Bookkeeping that does not flow into what the contracts constrain stays
        # invisible; if it does flow there (e.g. the returned point is taken from it) the affected obligation fails.
        for v in sorted(extra):
            cur = frame.locals.get(v, None)
            p = self.u.it.path if hasattr(self.u, "it") else None
            from pyvc.values import Obj as _Obj
            if isinstance(cur, _Obj) and cur.cls is not None and cur.cls.name == "Iterate":
                frame.locals[v] = self.ctx.new_iterate(f"extra_{v}", evaluated=True)
            elif isinstance(cur, bool) or (z3.is_expr(cur) and z3.is_bool(cur)):
                frame.locals[v] = p.bool(f"extra_{v}")
            elif isinstance(cur, int) or (z3.is_expr(cur) and z3.is_int(cur)):
                frame.locals[v] = p.int(f"extra_{v}")
            elif isinstance(cur, float) or (z3.is_expr(cur) and z3.is_real(cur)):
                frame.locals[v] = p.real(f"extra_{v}")
            else:
                raise Unsupported(f"loop contract of Solver.solve does not cover loop-carried variable(s) {sorted(extra)}")
            self.ctx.extra_havoced = sorted(set(getattr(self.ctx, "extra_havoced", [])) | {v})
        missing = [v for v in self.HAVOCED - {"status", "path_times"} if v not in frame.locals]
        if self.ctx.params.fields["collect_path"] and "path_times" not in frame.locals:
            missing.append("path_times")
        if missing:
            raise Unsupported(f"loop contract of Solver.solve refers to variable(s) {missing} that no longer exist (renamed?)")
        if attrs - {"self.rho"}:
            raise Unsupported(f"loop contract of Solver.solve does not cover attribute store(s) {sorted(attrs)}")

    # assigned under `if accept:` and read only under a later `if accept:` (accept can only be cleared in between)
    GUARDED = {"next_rho"}

    # ---- back edge -------------------------------------------------------------------
    def preserve(self, it, frame, site):
        u, ctx = self.u, self.ctx
        p = it.path
        L = frame.locals
        P = ctx.params.fields
        H = ctx.head
        E = lambda goal, label, kind="invariant": p.prove(goal, f"Solver.solve/iteration:{label}", kind=kind, props=props_of(label))
        # ghost updates from the events of this iteration
        E(len(ctx.steps) == 1, "exactly_one_step_computation")
        E(len(ctx.cbs) == 1, "exactly_one_callback_announcement")
        if len(ctx.steps) != 1 or len(ctx.cbs) != 1:
            raise PathEnd()
        (s_it, s_rho, s_dt, res) = ctx.steps[0]
        ctx.n_steps = H["n_steps"] + 1
        ctx.n_cb = H["n_cb"] + 1
        acc_ctrl = res.fields["accepted"]
        replaced = L["iterate"] is not H["iterate"]
        # C12/C15: what the step started from and which step size it used
        E(s_it is H["iterate"], "step_starts_from_current_accepted_iterate")
        E(s_dt == 1 / H["lamb"], "step_uses_exactly_the_previously_returned_inverse_step_size")
        E(s_rho == H["rho"], "step_uses_self.rho")
        cbt, cb_from, cb_to, cb_acc = ctx.cbs[0]
        E(cb_from is H["iterate"] and cb_to is res.fields["iterate"] and cb_acc is acc_ctrl, "callback_announces(current_iterate,trial_iterate,controller_verdict)")
        E(L["lamb"] is res.fields["lamb"], "lamb_carried_into_next_trial")
        E(L["iteration"] == H["iteration"] + 1, "iteration_counted_once")
        if not acc_ctrl:
            E(not replaced, "rejected_or_failed=>iterate_unchanged")
            E(L["lamb"] > H["lamb"], "rejected_or_failed=>next_inverse_step_size_strictly_larger")
        if replaced:
            E(acc_ctrl is True, "iterate_changed=>controller_accepted")
            E(L["iterate"] is res.fields["iterate"], "iterate_changed=>it_is_the_accepted_trial")
            E(L["accepted_steps"] == H["accepted"] + 1, "iterate_changed=>accepted_steps+1")
            ynorm = npmodel.np_norm(it, L["iterate"].fields["y"], ord=PINF)
            ctx.maxy = ops.zmax(H["maxy"], ynorm)
            # triangle inequality (lemma LA5 / Mathlib norm_add_le), instantiated once the two step norms are
            # identified as || next.x - cur.x ||_2 and || next.y - cur.y ||_2
            norms = {v[0].get_id(): v[1] for k, v in p.ghost.get("__norms__", {}).items() if k[0] == "norm2"}
            pn, dn = L["primal_step_norm"], L["dual_step_norm"]
            vx, vy = norms.get(pn.get_id()) if hasattr(pn, "get_id") else None, norms.get(dn.get_id()) if hasattr(dn, "get_id") else None
            ok = vx is not None and vy is not None
            E(ok, "step_norms_are_2-norms")
            if ok:
                nx, cx = L["iterate"].fields["x"].vec(), H["iterate"].fields["x"].vec()
                ny, cy = L["iterate"].fields["y"].vec(), H["iterate"].fields["y"].vec()
                okx = E(QAll(ctx.problem.fields["__n__"], lambda i: vx.f(i) == nx.f(i) - cx.f(i)), "primal_step_norm==||next.x-cur.x||")
                oky = E(QAll(ctx.problem.fields["num_cons"], lambda i: vy.f(i) == ny.f(i) - cy.f(i)), "dual_step_norm==||next.y-cur.y||")
                E(L["path_dist"] == H["path_dist"] + pn + dn, "path_dist_advances_by_the_two_step_norms")
                if okx and oky:
                    p.assume(self.dist(it, L["iterate"], L["initial_iterate"]) <= self.dist(it, H["iterate"], L["initial_iterate"]) + pn + dn)
        else:
            E(L["accepted_steps"] == H["accepted"], "iterate_unchanged=>accepted_steps_unchanged")
        # C16
        rho_new = ctx.solver.fields["rho"]
        E(rho_new >= H["rho"], "rho_never_decreases")
        if ctx.policy == "DualNorm":
            E(rho_new <= 10 * H["rho"], "dualnorm:raised_by_at_most_x10_per_step")
        if not replaced:
            E(rho_new == H["rho"], "no_accepted_step=>self.rho_unchanged")
        # C12 path
        if P["collect_path"]:
            pth, pt = L["path"].val, L["path_times"].val
            if replaced:
                ok = getattr(pth, "appended", (None, None))[0] is H["path"] and getattr(pt, "appended", (None, None))[0] is H["path_times"]
                E(ok, "accepted=>one_column_and_one_time_appended")
                if ok:
                    col = pth.appended[1]
                    nx, ny = L["iterate"].fields["x"].vec(), L["iterate"].fields["y"].vec()
                    n = ctx.problem.fields["__n__"]
                    cv = col.vec() if isinstance(col, Arr) else None
                    E(cv is not None, "appended_column_is_a_vector")
                    if cv is not None:
                        E(QAll(n, lambda i: cv.f(i) == nx.f(i)), "appended_column[:n]==accepted_x")
                        E(QAll(ctx.problem.fields["num_cons"], lambda i: cv.f(i + n) == ny.f(i)), "appended_column[n:]==accepted_y")
                    last = H["path_times"].f(H["path_times"].n - 1)
                    E(pt.appended[1] == last + s_dt, "model_time_increases_by_the_step_size_used")
            else:
                E(pth is H["path"] and pt is H["path_times"], "not_accepted=>path_unchanged")
        self._prove_all(it, frame, "preserve")

    # ---- exit ------------------------------------------------------------------------
    def at_break(self, it, frame, site):
        ctx = self.ctx
        p = it.path
        p.prove(len(ctx.steps) == 0 and len(ctx.cbs) == 0, "Solver.solve/exit:limits_tested_before_any_state_change", kind="invariant", props=["C08", "C02"])
        p.prove(frame.locals["iterate"] is ctx.head["iterate"], "Solver.solve/exit:iterate_is_last_accepted", kind="invariant", props=["C08", "C12"])


def havoc_persistent(u, solver, skip=()):
    """state that earlier solves on the same Solver may have left behind: every attribute `solve` assigns on self
    is arbitrary, and every numeric / list field of helper objects hanging off the solver is arbitrary (lists of
    filter entries satisfy their own representation invariant)."""
    fn = u.func(SOLVE).node
    for n in ast.walk(fn):
        if isinstance(n, ast.Attribute) and isinstance(n.ctx, ast.Store) and isinstance(n.value, ast.Name) and n.value.id == "self":
            if n.attr == "rho":
                solver.fields["rho"] = u.real("stale_self_rho")
    seen = set(id(x) for x in skip)

    def walk(o, depth):
        if id(o) in seen or depth > 3:
            return
        seen.add(id(o))
        for k, v in list(o.fields.items()):
            if isinstance(v, Obj):
                walk(v, depth + 1)
            elif isinstance(v, ListCell) and k == "entries":
                from .c18_filter import sym_entries

                sym_entries(u, o, name="stale_E")
            elif isinstance(v, (float,)) or (hasattr(v, "sort") and z3.is_real(v)):
                o.fields[k] = u.real("stale_" + k)

    for k, v in list(solver.fields.items()):
        if isinstance(v, Obj) and id(v) not in seen:
            walk(v, 1)


def _live_in(stmts, defined=frozenset()):
    """names that may be read before they are (definitely) written when executing `stmts` (structured control flow;
    conservative: a conditional definition does not count as a definition)"""
    defined = set(defined)
    live = set()

    def uses(node):
        return {n.id for n in ast.walk(node) if isinstance(n, ast.Name) and isinstance(n.ctx, ast.Load)}

    def targets(t):
        return {n.id for n in ast.walk(t) if isinstance(n, ast.Name) and isinstance(n.ctx, ast.Store)}

    for st in stmts:
        if isinstance(st, ast.Assign):
            live |= uses(st.value) - defined
            for t in st.targets:
                live |= {n.id for n in ast.walk(t) if isinstance(n, ast.Name) and isinstance(n.ctx, ast.Load)} - defined
                if isinstance(t, (ast.Name, ast.Tuple, ast.List)):
                    defined |= targets(t)
        elif isinstance(st, ast.AugAssign):
            live |= (uses(st.value) | {n.id for n in ast.walk(st.target) if isinstance(n, ast.Name)}) - defined
        elif isinstance(st, ast.AnnAssign):
            if st.value is not None:
                live |= uses(st.value) - defined
                defined |= targets(st.target)
        elif isinstance(st, ast.If):
            live |= uses(st.test) - defined
            live |= _live_in(st.body, defined)
            live |= _live_in(st.orelse, defined)
            defined |= _must_def(st.body) & _must_def(st.orelse)
        elif isinstance(st, (ast.For, ast.While)):
            live |= (uses(st.iter) if isinstance(st, ast.For) else uses(st.test)) - defined
            inner = set(defined) | (targets(st.target) if isinstance(st, ast.For) else set())
            live |= _live_in(st.body, inner) | _live_in(st.orelse, defined)
        elif isinstance(st, ast.Try):
            for blk in [st.body, st.orelse, st.finalbody] + [h.body for h in st.handlers]:
                live |= _live_in(blk, defined)
        elif isinstance(st, ast.FunctionDef):
            defined.add(st.name)
        else:
            live |= uses(st) - defined
    return live


def _must_def(stmts):
    d = set()
    for st in stmts:
        if isinstance(st, ast.Assign):
            for t in st.targets:
                if isinstance(t, (ast.Name, ast.Tuple, ast.List)):
                    d |= {n.id for n in ast.walk(t) if isinstance(n, ast.Name) and isinstance(n.ctx, ast.Store)}
        elif isinstance(st, ast.If):
            d |= _must_def(st.body) & _must_def(st.orelse)
        elif isinstance(st, (ast.Raise, ast.Break, ast.Continue, ast.Return)):
            break
    return d


def mk_dummy(u, ctx, k):
    from .models import _fresh_vec
    from pyvc.values import Mat

    if k == "cons":
        return _fresh_vec(u.it, "c_empty", ctx.problem.fields["num_cons"])
    return Mat(ctx.problem.fields["num_cons"], ctx.problem.fields["__n__"], None, name="J_empty")


def solve_unit(u, policy):
    _ens = u.ensure
    u.ensure = lambda goal, label, kind="ensures", desc="", props=None: _ens(goal, label, kind=kind, desc=desc, props=props or props_of(label))
    ctx = build(u, policy)
    spec = SolveLoop(u, ctx)
    u.it.loop_specs[LOOP] = spec
    x0 = Opaque("x0")
    kind, val = u.raised(lambda: u.method(ctx.solver, "solve", x0, Opaque("y0")))
    P = ctx.params.fields
    if kind == "raise":
        exc = val.exc
        msg = exc.args[0] if exc.args else ""
        deliberate = (not hasattr(exc.cls, "qualname")) and exc.cls is Exception and isinstance(msg, (str, Opaque)) and (isinstance(msg, Opaque) or msg.startswith(DELIBERATE))
        u.ensure(deliberate, "raises_only{initial-point,lamb_max,line-search}", desc=f"escaping {exc!r} raised at {val.origin}")
        if isinstance(msg, str) and msg.startswith("Failed to evaluate initial iterate"):
            u.ensure(ctx.head is None, "initial-point_error_only_before_the_first_iteration")
        return
    res = val
    head = ctx.head
    u.ensure(head is not None, "returns_only_through_the_loop")
    gate_it, gate_iter, status = ctx.gate[-1]
    u.ensure(res.fields["_status"] is status and status is not None, "result.status==gate_status")
    u.ensure(res.fields["iterations"] is head["iteration"], "result.iterations==iteration")
    u.ensure(res.fields["iterations"] == head["n_cb"], "result.iterations==#announced_step_computations")
    u.ensure(res.fields["num_accepted_steps"] is head["accepted"], "result.num_accepted_steps==accepted_steps")
    u.ensure(gate_it is head["iterate"], "gate_tested_the_current_iterate")
    u.ensure(all(id(t) not in ctx.pre_ids for t in ctx.timers), "deadline_timer_started_inside_this_solve", desc="the timer handed to the termination test existed before solve() was entered: the deadline would be measured from an earlier moment")
    hx, hy = head["iterate"].fields["x"], head["iterate"].fields["y"]
    u.ensure(ctx.restore is not None and ctx.restore[0] is hx and ctx.restore[1] is hy and ctx.restore[2] is head["iterate"].fields.get("bounds_dual"), "result(x,y,d)==restore_sol(last_accepted.x,.y,.bounds_dual)")
    u.ensure(res.fields["_x"] is not None and isinstance(res.fields["_x"], Opaque) and res.fields["_x"].tag == "x_user", "result.x_is_the_restored_x")
    # the public accessors hand out exactly what was stored
    u.ensure(u.get(res, "x") is res.fields["_x"] and u.get(res, "y") is res.fields["_y"] and u.get(res, "d") is res.fields["_d"], "result.x/.y/.d_accessors_return_the_restored_solution")
    u.ensure(u.get(res, "y").tag == "y_user" and u.get(res, "d").tag == "d_user", "result.y/.d_are_the_restored_y,d")
    u.ensure(u.get(res, "status") is status, "result.status_accessor==gate_status")
    ST = lambda n: u.enum("pygradflow.status.SolverStatus", n)
    if P["iteration_limit"] is not None:
        if status == ST("IterationLimit"):
            u.ensure(head["iteration"] == P["iteration_limit"], "IterationLimit=>iterations==limit")
        u.ensure(head["iteration"] <= P["iteration_limit"], "never_more_iterations_than_limit")
    else:
        u.ensure(status != ST("IterationLimit"), "no_limit=>never_IterationLimit")
    if P["collect_path"]:
        u.ensure(ctx.set_path is not None, "collect_path=>path_attached")
    else:
        u.ensure(ctx.set_path is None, "no_collect_path=>no_path")
    u.ensure(head["rho"] > 0, "final_rho>0")
    u.ensure(res.fields["dist_factor"] >= 1, "dist_factor>=1")
    u.cover("returned")


def _mk(policy):
    @unit(f"solve.{policy}", ["C12", "C02", "C15", "C16", "C07", "C06", "C08", "C01", "C05", "C10", "C09"], [SOLVE, "pygradflow.solver.Solver._compute_step", "pygradflow.solver.Solver.print_result", "pygradflow.display.print_problem_stats", "pygradflow.display.StateData.__init__", "pygradflow.display.StateData.__setitem__", "pygradflow.result.SolverResult.__init__", "pygradflow.solver.Solver._deriv_check", "pygradflow.penalty.penalty_strategy", "pygradflow.step.step_control.step_controller", "pygradflow.timer.Timer.__init__", "pygradflow.timer.SimpleTimer.elapsed", "pygradflow.iterate.Iterate.dist", "pygradflow.util.norm_mult"], config={"max_paths": 6000, "implicit_props": ["C06"], "timeout_ms": 30000})
    def _u(u, policy=policy):
        solve_unit(u, policy)

    return _u


for _p in POLICIES:
    _mk(_p)


@unit("C12.solve.start[x0 anywhere]", ["C12", "C04"], [SOLVE], config={"max_paths": 400})
def solve_start_anywhere(u):
    """the prologue of solve() for a user start point that need not lie inside the bounds: the iterate the loop starts
    from - the one the first ComputedStep callback and path[:, 0] show - is the transformed x0 itself"""
    ctx = build(u, "Constant", collect_path=None, limited=False, start_anywhere=True)
    spec = SolveLoop(u, ctx)
    u.it.loop_specs[LOOP] = spec
    x0, y0 = u.vec("x0_user", u.int("n_user")), u.vec("y0_user", ctx.problem.fields["num_cons"])
    kind, val = u.raised(lambda: u.method(ctx.solver, "solve", x0, y0))
    u.ensure(True, "ran")


@unit("solve.display", ["C09", "C06"], [SOLVE, "pygradflow.display.solver_display", "pygradflow.display.iter_cols", "pygradflow.display.Display.__init__", "pygradflow.display.Display.row", "pygradflow.display.Display.header", "pygradflow.display.AttrColumn.content", "pygradflow.display.ActiveSetColumn.content", "pygradflow.display.StateData.__getitem__", "pygradflow.display.StateAttr.__call__", "pygradflow.display.IterateAttr.__call__", "pygradflow.display.BoldFormatter.__call__", "pygradflow.display.StringFormatter.__call__", "pygradflow.display.StepFormatter.__call__", "pygradflow.display.RCondFormatter.__call__", "pygradflow.iterate.Iterate.obj_nonlin", "pygradflow.iterate.Iterate.cons_nonlin"], config={"max_paths": 20000, "implicit_props": ["C06", "C09"]})
def solve_display(u):
    """the iteration display of Solver.solve with the REAL column set, formatters and StateData: whatever the
    step outcome, the bounds / constraints / rcond configuration and the previous row, printing a row raises
    nothing (every format code accepts the type of the value it is given) and solve() still ends normally"""
    _ens = u.ensure
    u.ensure = lambda goal, label, kind="ensures", desc="", props=None: _ens(goal, label, kind=kind, desc=desc, props=props or ["C09", "C06"])
    ctx = build(u, "Constant", collect_path=False, limited=False, display_real=True)
    spec = SolveLoop(u, ctx)
    real_havoc = spec.havoc

    def havoc(it, frame, site):
        """the display object is mutated by the loop (last row shown): at an arbitrary iteration it holds either
        nothing or the state of an arbitrary earlier row (its iteration number and active set are all a row reads)"""
        real_havoc(it, frame, site)
        disp = frame.locals.get("display")
        if isinstance(disp, Obj):
            k = it.path.choose_n(3, "previous row: none / with active set / without active set")
            if k == 0:
                disp.fields["last_state"] = None
            else:
                prev_iter = it.path.int("prev_iter")
                aset = u.vec(it.path.fresh_name("prev_active_set"), ctx.problem.fields["__n__"], kind="bool") if k == 1 else None
                disp.fields["last_state"] = u.obj("pygradflow.display.StateData", iterate=Opaque("earlier iterate"), step_result=Opaque("earlier step"), _entries={"iter": prev_iter, "active_set": aset})

    spec.havoc = havoc
    u.it.loop_specs[LOOP] = spec
    kind, val = u.raised(lambda: u.method(ctx.solver, "solve", Opaque("x0"), Opaque("y0")))
    if kind == "raise":
        exc = val.exc
        msg = exc.args[0] if exc.args else ""
        deliberate = (not hasattr(exc.cls, "qualname")) and exc.cls is Exception and isinstance(msg, (str, Opaque)) and (isinstance(msg, Opaque) or msg.startswith(DELIBERATE))
        u.ensure(deliberate, "display:raises_only{initial-point,lamb_max,line-search}", desc=f"escaping {exc!r} raised at {val.origin}")
        return
    u.cover("returned")
