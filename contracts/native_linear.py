"""Native bounded stand-in for the ASSUMED SciPy contracts of C17: residuals of every available linear solver."""
from __future__ import annotations

import numpy as np

from pyvc.native import native, result, use_repo


@native("native.c17.linear_solvers", ["C17"])
def linear_solvers(tier="quick", seed=0, only=None):
    """bounded: random well-conditioned KKT-like symmetric indefinite and unsymmetric matrices (n <= 12 quick / 30
    thorough) in COO/CSR/CSC, forward and transposed, with / without initial guess; structurally singular matrices"""
    use_repo()
    import scipy.sparse as sp
    from pygradflow.linear_solver import LinearSolverError, linear_solver
    from pygradflow.params import LinearSolverType

    rng = np.random.default_rng(3 + seed)
    failures, cases = [], 0
    N = 6 if tier == "quick" else 40
    conv = {"coo": sp.coo_matrix, "csr": sp.csr_matrix, "csc": sp.csc_matrix}

    def fail(label, inp, obs):
        if not any(f["label"] == label for f in failures):
            failures.append(dict(label=label, input=inp, observed=obs))

    for rep in range(N):
        n = int(rng.integers(2, 13 if tier == "quick" else 31))
        m = int(rng.integers(1, n))
        H = rng.normal(size=(n, n))
        H = H @ H.T + n * np.eye(n)
        J = rng.normal(size=(m, n))
        K = np.block([[H, J.T], [J, -np.eye(m)]])  # symmetric indefinite, well conditioned
        U = rng.normal(size=(n, n)) + n * np.eye(n)  # unsymmetric, diagonally dominant
        # the same KKT matrix with a tiny dual regularisation (-delta I, delta = 1/rho for a large penalty): still well
        # conditioned (J has full row rank), but its diagonal spans eight orders of magnitude
        Kd = np.block([[H, J.T], [J, -1e-8 * np.eye(m)]])
        for kind, A, sym in (("kkt", K, True), ("kkt_small_regularisation", Kd, True), ("unsym", U, False)):
            N_ = A.shape[0]
            b = rng.normal(size=N_)
            for fmt in conv:
                for st, tol in ((LinearSolverType.LU, 1e-10), (LinearSolverType.GMRES, 1e-5)) + (((LinearSolverType.MINRES, 1e-3),) if sym else ()):
                    for trans in (False, True):
                        for guess in (None, "zero", "forward-solution"):
                            if st == LinearSolverType.LU and guess is not None:
                                continue
                            inp = dict(kind=kind, n=N_, format=fmt, solver=st.name, trans=trans, guess=guess, rep=rep)
                            if only is not None and only != inp:
                                continue
                            M = A.T if trans else A
                            g = None
                            if guess == "zero":
                                g = lambda: np.zeros(N_)
                            elif guess == "forward-solution":
                                xs = np.linalg.solve(A, b)
                                g = lambda xs=xs: xs.copy()
                            cases += 1
                            try:
                                s = linear_solver(conv[fmt](A), st, symmetric=sym)
                                x = s.solve(b, trans=trans, initial_sol=g)
                            except LinearSolverError:
                                if st == LinearSolverType.LU:
                                    fail(f"C17:{st.name}:fails_on_a_nonsingular_system", inp, "LinearSolverError")
                                continue
                            if not np.all(np.isfinite(x)):
                                fail(f"C17:{st.name}:non-finite_solution", inp, "non-finite")
                                continue
                            r = np.linalg.norm(M @ x - b) / (np.linalg.norm(b) + 1e-300)
                            if st == LinearSolverType.MINRES:
                                # MINRES' stated stopping rule is relative to ||A|| ||x|| (scipy: rtol = 1e-5), not to ||b||
                                r = np.linalg.norm(M @ x - b) / (np.linalg.norm(M) * np.linalg.norm(x) + np.linalg.norm(b) + 1e-300)
                                tol = 1e-4
                            if not r <= tol:
                                fail(f"C17:{st.name}:residual_too_large:trans={trans}:guess={guess}", inp, f"relative residual {r:.2e} > {tol}")
        # structurally singular: an empty row and column
        S = U.copy()
        S[0, :] = 0.0
        S[:, 0] = 0.0
        for fmt in conv:
            cases += 1
            try:
                s = linear_solver(conv[fmt](S), LinearSolverType.LU)
                x = s.solve(rng.normal(size=n))
                fail("C17:LU:structurally_singular_matrix_accepted", dict(format=fmt, n=n), "no LinearSolverError" + ("" if np.all(np.isfinite(x)) else " and non-finite solution"))
            except LinearSolverError:
                pass
            except Exception as e:  # noqa
                fail(f"C17:LU:singular_matrix_raises_{type(e).__name__}", dict(format=fmt, n=n), str(e)[:100])
    return result(cases, failures, f"{N} random sizes x {{kkt, unsym}} x 3 formats x solvers x trans x guesses; singular matrices")
