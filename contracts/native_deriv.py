"""Native bounded oracle for C19: Solver.solve with deriv_check=CheckAll on correct and single-entry-corrupted problems."""
from __future__ import annotations

import copy

import numpy as np

from pyvc.native import native, result, use_repo

from .native_solve import _same_trajectory, mk_params, run, scenarios


@native("native.c19.deriv_check", ["C19"])
def deriv_check(tier="quick", seed=0, only=None):
    use_repo()
    import scipy.sparse as sp
    from pygradflow.deriv_check import DerivError
    from pygradflow.params import DerivCheck
    from pygradflow.solver import Solver

    failures, cases = [], 0
    S = scenarios()
    # qp_big_multipliers is left out: at its start point the objective is ~5e7, so the forward difference quotient
    # with eps = 1e-8 carries a cancellation error of order 1 - outside the Taylor / no-cancellation assumption under
    # which C19's acceptance statement is claimed (a correct gradient is then rejected by the real checker)
    names = ["qp_eq_box", "nlp_mixed"] if tier == "quick" else [n for n in S if n not in ("infeasible", "qp_big_multipliers")] + ["infeasible"]
    for name in names:
        mk, x0, y0 = S[name]
        base = mk()
        n, m = base.num_vars, base.num_cons
        pa = mk_params(deriv_check=DerivCheck.CheckAll, iteration_limit=15)
        # (a) correct derivatives pass and do not alter the solve
        for yv in ([y0] if m == 0 else [y0, np.linspace(0.75, -1.25, m)]):
            # (the second start has non-zero multipliers: the Hessian check then involves the constraint curvature)
            ref = run(mk(), mk_params(iteration_limit=15), x0, yv)
            chk = run(mk(), pa, x0, yv)
            cases += 1
            inp_a = dict(scenario=name, y0=None if yv is None else np.asarray(yv).tolist())
            if chk.exc is not None:
                failures.append(dict(label="C19:correct_derivatives_rejected", input=inp_a, observed=repr(chk.exc)[:200]))
            else:
                d = _same_trajectory(ref, chk)
                if d:
                    failures.append(dict(label="C19:check_alters_the_subsequent_solve", input=inp_a, observed=d))
        # (a') the same correct Jacobian handed over as COO triplets in which every stored position appears TWICE
        # (scipy sums repeated positions): it must still pass; and a wrong TOTAL whose last triplet alone is right
        # must still be rejected
        if m > 0:
            for wrong in (False, True):
                inp_d = dict(scenario=name, kind="jacobian_as_repeated_triplets", wrong=wrong)
                if only is not None and only != inp_d:
                    continue
                p = mk()
                orig = p.cons_jac

                def dup(x, orig=orig, wrong=wrong):
                    J = orig(x).tocoo()
                    extra = 0.25 if wrong else 0.0
                    data = np.concatenate([0.5 * J.data + extra, 0.5 * J.data]) if not wrong else np.concatenate([np.full(J.nnz, extra), J.data])
                    return sp.coo_matrix((data, (np.concatenate([J.row, J.row]), np.concatenate([J.col, J.col]))), shape=J.shape)

                p.cons_jac = dup
                cases += 1
                try:
                    Solver(p, mk_params(deriv_check=DerivCheck.CheckFirst, iteration_limit=2)).solve(x0, y0)
                    if wrong and base.cons_jac(np.asarray(x0, float) if x0 is not None else np.zeros(n)).nnz > 0:
                        failures.append(dict(label="C19:wrong_jacobian_total_behind_repeated_triplets_accepted", input=inp_d, observed="no error"))
                except DerivError as e:
                    if not wrong:
                        failures.append(dict(label="C19:correct_jacobian_given_as_repeated_triplets_rejected", input=inp_d, observed=str(e)[:200]))
                except Exception as e:  # noqa
                    failures.append(dict(label=f"C19:unexpected_{type(e).__name__}", input=inp_d, observed=str(e)[:200]))
        # (b) a single wrong entry is pinpointed (Jacobian: every (r, c); gradient: every c)
        mags = [0.5] if tier == "quick" else [0.5, 1e-2, 30.0]
        for mag in mags:
            for r in range(m):
                for c in range(n):
                    inp = dict(scenario=name, kind="jacobian", row=r, col=c, error=mag)
                    if only is not None and only != inp:
                        continue
                    p = mk()
                    orig = p.cons_jac

                    def bad(x, orig=orig, r=r, c=c, mag=mag):
                        J = orig(x).toarray()
                        J[r, c] += mag
                        return sp.coo_matrix(J)

                    p.cons_jac = bad
                    cases += 1
                    try:
                        Solver(p, pa).solve(x0, y0)
                        failures.append(dict(label="C19:wrong_jacobian_entry_accepted", input=inp, observed="no error"))
                    except DerivError as e:
                        if e.col_index != c or list(e.invalid_indices) != [r]:
                            failures.append(dict(label="C19:wrong_jacobian_entry_not_pinpointed", input=inp, observed=(int(e.col_index), [int(v) for v in e.invalid_indices])))
                    except Exception as e:  # noqa
                        failures.append(dict(label=f"C19:unexpected_{type(e).__name__}", input=inp, observed=str(e)[:200]))
            # a FORGOTTEN entry: the true non-zero is simply not stored (its column may become structurally empty)
            J0 = mk().cons_jac(np.clip(np.zeros(n) if x0 is None else x0, base.var_lb, base.var_ub)).toarray() if m else np.zeros((0, n))
            for r in range(m):
                for c in range(n):
                    if J0[r, c] == 0.0 or abs(J0[r, c]) <= 1e-3:
                        continue
                    inp = dict(scenario=name, kind="jacobian-missing-entry", row=r, col=c)
                    if only is not None and only != inp:
                        continue
                    p = mk()
                    orig = p.cons_jac

                    def miss(x, orig=orig, r=r, c=c):
                        J = orig(x).toarray()
                        J[r, c] = 0.0
                        M = sp.csc_matrix(J)
                        M.eliminate_zeros()
                        return M

                    p.cons_jac = miss
                    cases += 1
                    try:
                        Solver(p, pa).solve(x0, y0)
                        failures.append(dict(label="C19:missing_jacobian_entry_accepted", input=inp, observed="no error"))
                    except DerivError as e:
                        if e.col_index != c or r not in list(e.invalid_indices):
                            failures.append(dict(label="C19:missing_jacobian_entry_not_pinpointed", input=inp, observed=(int(e.col_index), [int(v) for v in e.invalid_indices])))
                    except Exception as e:  # noqa
                        failures.append(dict(label=f"C19:unexpected_{type(e).__name__}", input=inp, observed=str(e)[:200]))
            for c in range(n):
                inp = dict(scenario=name, kind="gradient", col=c, error=mag)
                if only is not None and only != inp:
                    continue
                p = mk()
                og = p.obj_grad

                def badg(x, og=og, c=c, mag=mag):
                    g = np.array(og(x), float)
                    g[c] += mag
                    return g

                p.obj_grad = badg
                cases += 1
                try:
                    Solver(p, pa).solve(x0, y0)
                    failures.append(dict(label="C19:wrong_gradient_entry_accepted", input=inp, observed="no error"))
                except DerivError as e:
                    if e.col_index != c or list(e.invalid_indices) != [0]:
                        failures.append(dict(label="C19:wrong_gradient_entry_not_pinpointed", input=inp, observed=(int(e.col_index), [int(v) for v in e.invalid_indices])))
                except Exception as e:  # noqa
                    failures.append(dict(label=f"C19:unexpected_{type(e).__name__}", input=inp, observed=str(e)[:200]))
    seen, uniq = set(), []
    for f in failures:
        if f["label"] not in seen:
            seen.add(f["label"])
            uniq.append(f)
    return result(cases, uniq, f"scenarios {names}: every Jacobian entry (r, c) and gradient entry c corrupted by {mags}")
