"""C14 / C06 - the asymmetric step solver's system: in-place surgery on the raw CSR arrays.

`overwrite_active_rows` edits matrix.data / matrix.indices of a canonical CSR matrix row by row.  Its contract:
  requires  the diagonal entry of every row j < n is STORED (posof(j, j) >= 0)
  ensures   no IndexError, the structure (indices) is unchanged, and entrywise
            row j of an active variable  ->  unit row e_j;   every other row unchanged.
`compute_deriv` must establish the `requires` (it does so with setdiag since fix 9d9ae3b: H_jj + lamb may cancel and
is then not stored) and the assembled system is, entry by entry, [H0 + lamb I, J^T; J, -lamb/(1+lamb rho) I] with the
active rows replaced by unit rows - the same system as the other step solvers (C14).
"""
from __future__ import annotations

import z3

from pyvc import matmodel, ops
from pyvc.core import QAll, UFact, Unsupported
from pyvc.harness import unit
from pyvc.values import Arr, Mat, Vec

from .common import mk_iterate, mk_params, mk_problem
from .spec import V

SOL = "pygradflow.step.solver."
ASY = SOL + "asymmetric_step_solver.AsymmetricStepSolver."


class RowLoop:
    """for j in range(n): if active_set[j]: zero the stored entries of row j, put 1.0 on its diagonal
    invariant(j): for every row r and every stored position q of r: indices[q] unchanged and
                  data[q] = (r < j and r < n and active(r)) ? [q == posof(r, r)] : data0[q]"""

    def __init__(self, u, raw, act, n):
        self.u, self.raw, self.act, self.n = u, raw, act, n

    def sequence(self, it, frame, iterable):
        from pyvc import npmodel

        return npmodel.seq_view(it, iterable)

    def body(self, j, dcur, icur):
        raw, act = self.raw, self.act
        posof, d0, i0 = raw["posof"], raw["data0"], raw["indices0"]

        def at(r, q):
            done = z3.And(r < j, r < self.n, act.f(r))
            return z3.Implies(raw["in_row"](r, q), z3.And(icur.f(q) == i0.f(q), ops._real(dcur.f(q)) == z3.If(done, z3.If(q == posof(r, r), z3.RealVal(1), z3.RealVal(0)), ops._real(d0.f(q)))))

        return at

    def _prove(self, it, j, name):
        p, raw = it.path, self.raw
        r, q = p.int("inv_r"), p.int("inv_q")
        p.index_term(r, raw["rows"])
        p.index_term(q, raw["nnz"])
        p.assume(raw["diag_fact"](r))
        guard = z3.And(r >= 0, r < raw["rows"], q >= 0, q < raw["nnz"])
        goal = z3.Implies(guard, self.body(j, raw["data"].vec(), raw["indices"].vec())(r, q))
        p.prove(goal, name, kind="invariant")

    def establish(self, it, frame, site, n):
        self._prove(it, 0, f"{site}:invariant:establish")

    def havoc(self, it, frame, site, j, n):
        p = it.path
        raw = self.raw
        nnz = raw["nnz"]
        A = z3.Array(p.fresh_name("data_h"), z3.IntSort(), z3.RealSort())
        B = z3.Array(p.fresh_name("indices_h"), z3.IntSort(), z3.IntSort())
        raw["data"].cell.val = Vec(nnz, lambda q: z3.Select(A, p.auto_index(q, nnz)), "real", arr=A)
        raw["indices"].cell.val = Vec(nnz, lambda q: z3.Select(B, p.auto_index(q, nnz)), "int", arr=B)
        p.add_ufact(UFact(2, self.body(j, raw["data"].vec(), raw["indices"].vec()), [(0, raw["rows"]), (0, nnz)], f"loop-invariant@{j}"))
        if j is not n:
            # the diagonal position of the row treated in this iteration
            p.assume(raw["diag_fact"](j))
            d = raw["posof"](j, j)
            p.index_term(d, nnz)
            p.index_term(j, raw["rows"])
            # position of the diagonal inside the row's slice data[indptr[j]:indptr[j+1]] (a term of every view of it)
            p.index_term(d - raw["indptr0"].f(j), None)

    def preserve(self, it, frame, site, j, n):
        self._prove(it, j + 1, f"{site}:invariant:preserve")

    def at_break(self, *a):
        raise Unsupported("break in row loop")


def mk_solver(u):
    params = mk_params(u)
    problem = mk_problem(u)
    n, m = problem.fields["__n__"], problem.fields["num_cons"]
    orig = mk_iterate(u, problem, params, "orig", in_box=True)
    dt, rho = u.real("dt"), u.real("rho")
    u.assume(dt > 0)
    u.assume(rho > 0)
    u.it.abstract["pygradflow.implicit_func.ScaledImplicitFunc.__init__"] = lambda it, s, p, i, d: None
    ss = u.construct(SOL + "asymmetric_step_solver.AsymmetricStepSolver", problem, params, orig, dt, rho)
    act = u.vec("active_set", n, kind="bool")
    ss.fields["_active_set"] = act
    return params, problem, n, m, ss, act, dt, rho


@unit("C14.Asymmetric.overwrite_active_rows", ["C14", "C06"], [ASY + "overwrite_active_rows"], config={"max_paths": 60, "implicit_props": ["C06", "C14"]})
def overwrite_active_rows(u):
    params, problem, n, m, ss, act, dt, rho = mk_solver(u)
    p = u.path
    N = n + m
    M = Mat(N, N, None, name="K", fmt="csr")
    M.diag_stored = True  # requires: the diagonal of every row is stored (established by compute_deriv, unit below)
    raw = matmodel.csr_raw(u.it, M)
    av = V(act)
    u.it.loop_specs[ASY + "overwrite_active_rows/loop#0"] = RowLoop(u, raw, av, n)
    e0 = raw["entry0"]
    kind, val = u.raised(lambda: u.method(ss, "overwrite_active_rows", M))
    u.ensure(kind == "ok", "overwrite_active_rows_does_not_raise")
    e1 = matmodel.entry_fn(u.it, M)
    i, c = u.int("i"), u.int("c")
    u.assume(z3.And(i >= 0, i < N, c >= 0, c < N))
    p.index_term(i, n)
    p.index_term(i, N)
    p.index_term(raw["posof"](i, c), raw["nnz"])
    p.assume(raw["link"](i, c))
    p.assume(raw["diag_fact"](i))
    p.index_term(raw["posof"](i, i), raw["nnz"])
    kron = z3.If(i == c, z3.RealVal(1), z3.RealVal(0))
    u.ensure(z3.Implies(z3.And(i < n, av.f(i)), ops._real(e1(i, c)) == kron), "rows_of_active_variables_become_unit_rows")
    u.ensure(z3.Implies(z3.Not(z3.And(i < n, av.f(i))), ops._real(e1(i, c)) == ops._real(e0(i, c))), "all_other_rows_unchanged")
    icur, i0 = raw["indices"].vec(), raw["indices0"]
    q = u.int("q")
    p.index_term(q, raw["nnz"])
    u.ensure(z3.Implies(z3.And(q >= 0, q < raw["nnz"], raw["in_row"](i, q)), icur.f(q) == i0.f(q)), "sparsity_structure_unchanged(every_stored_position_of_every_row)")
    u.canary(z3.Implies(z3.And(i < n, av.f(i)), ops._real(e1(i, c)) == 0), "active_rows_zeroed_only")
    u.cover("end")


@unit("C14.Asymmetric.assembly", ["C14", "C06", "C11"], [ASY + "compute_deriv"], config={"max_paths": 40, "implicit_props": ["C06", "C14"]})
def asymmetric_assembly(u):
    """compute_deriv establishes the precondition of overwrite_active_rows (diagonal stored) and returns, entry by
    entry, the system of the abstract solve_scaled contract: unit rows for the active components, the rows of
    [H0 + lamb I | J^T] for the inactive ones, [J | -lamb/(1+lamb rho) I] for the constraints."""
    params, problem, n, m, ss, act, dt, rho = mk_solver(u)
    av = V(act)
    J, H = Mat(m, n, None, name="J"), Mat(n, n, None, name="H0")
    ss.fields["_jac"], ss.fields["_hess"] = J, H
    # C11: the stored derivatives are shallow copies (copy.copy) of the caller's matrices: their arrays are the caller's
    from .c04_transform import StoreLog

    for M_ in (J, H):
        M_.region, M_.container_region = "USER", "FRESH"
    slog = StoreLog(u)
    kron = lambda a, b: z3.If(a == b, z3.RealVal(1), z3.RealVal(0))
    called = []

    def overwrite_contract(it, self_, matrix):
        """contract proved in unit C14.Asymmetric.overwrite_active_rows"""
        u.ensure(getattr(matrix, "diag_stored", False) is True and matrix.fmt == "csr", "overwrite_active_rows:requires:canonical_csr_with_the_diagonal_of_every_row_stored", desc="the matrix handed to overwrite_active_rows is CSR and the diagonal entry of every row is known to be stored (setdiag)")
        u.ensure(matrix.region != "USER" and getattr(matrix, "container_region", matrix.region) != "USER", "overwrite_active_rows:modifies_only_a_matrix_that_does_not_share_arrays_with_the_caller's_data", props=["C11", "C14"])
        e0 = matmodel.entry_fn(it, matrix)
        matrix.entry = lambda i, c: z3.If(z3.And(matmodel._iv(i) < n, av.f(matmodel._iv(i))), kron(matmodel._iv(i), matmodel._iv(c)), ops._real(e0(i, c)))
        called.append(matrix)

    u.it.abstract[ASY + "overwrite_active_rows"] = overwrite_contract
    D = u.method(ss, "compute_deriv", act)
    slog.check()
    u.ensure(len(called) == 1 and called[0] is D, "the_overwritten_matrix_is_the_one_returned")
    u.ensure(ss.fields["_hess"] is H and ss.fields["_jac"] is J, "stored_Hessian_and_Jacobian_objects_are_not_replaced")
    e = matmodel.entry_fn(u.it, D)
    eJ, eH = matmodel.entry_fn(u.it, J), matmodel.entry_fn(u.it, H)
    lam = 1 / dt
    i, j = u.int("i"), u.int("j")
    u.assume(z3.And(i >= 0, j >= 0, i < n + m, j < n + m))
    u.path.index_term(i, n)
    u.ensure((D.rows == n + m) if not isinstance(D.rows, int) else True, "system_is_(n+m)x(n+m)")
    u.ensure(z3.Implies(z3.And(i < n, av.f(i)), ops._real(e(i, j)) == kron(i, j)), "active_rows_are_unit_rows")
    u.ensure(z3.Implies(z3.And(i < n, z3.Not(av.f(i))), ops._real(e(i, j)) == z3.If(j < n, ops._real(eH(i, j)) + lam * kron(i, j), ops._real(eJ(j - n, i)))), "inactive_rows_are_rows_of[H0+lamb*I|J^T]")
    c = i - n
    u.ensure(z3.Implies(i >= n, ops._real(e(i, j)) == z3.If(j < n, ops._real(eJ(c, j)), -(lam / (1 + lam * rho)) * kron(c, j - n))), "constraint_rows_are[J|-lamb/(1+lamb*rho)*I]")
    u.canary(z3.Implies(z3.And(i < n, z3.Not(av.f(i)), j < n), ops._real(e(i, j)) == ops._real(eH(i, j))), "no_lamb_on_the_diagonal")
    u.cover("end")


def _where_counts(u):
    return list(u.path.ghost.get("__where_counts__", {}).values())


@unit("C14.ScaledStepSolver.initial_rhs", ["C14", "C06"], [SOL + "scaled_step_solver.ScaledStepSolver.initial_rhs"], config={"max_paths": 40, "implicit_props": ["C06", "C14"]})
def initial_rhs(u):
    """(b0, b1, b2) = (dt * F_x[active], F_x[inactive], F_y) for F = func.value_at(iterate, rho, active_set)
    (value_at == its definition is C13.ScaledImplicitFunc.value_at)"""
    from .models import _fresh_vec

    params, problem, n, m, ss, act, dt, rho = mk_solver(u)
    F = _fresh_vec(u.it, "F", n + m)
    seen = {}

    def value_at(it, self_, iterate, rho_, active_set=None):
        seen["args"] = (iterate, rho_, active_set)
        return F

    u.it.abstract["pygradflow.implicit_func.ScaledImplicitFunc.value_at"] = value_at
    ss.fields["_func"] = u.obj("pygradflow.implicit_func.ScaledImplicitFunc")
    cur = mk_iterate(u, problem, params, "cur", in_box=True)
    b0, b1, b2 = u.method(ss, "initial_rhs", cur)
    u.ensure(seen["args"][0] is cur and seen["args"][1] is rho and seen["args"][2] is act, "residual_evaluated_at_the_given_iterate_with_the_solver's_rho_and_active_set")
    av, Fv = V(act), V(F)
    cache = u.path.ghost.get("__where_cache__", {})
    u.ensure(len(cache) == 2, "active_and_inactive_index_sets_computed")
    (idxA, mA), (idxI, mI) = list(cache.values())
    if getattr(mA, "neg_of", None) is not None:
        (idxA, mA), (idxI, mI) = (idxI, mI), (idxA, mA)
    u.ensure(mA is av and getattr(mI, "neg_of", None) is av, "index_sets_are_those_of_the_active_set_and_of_its_complement")
    b0v, b1v, b2v = V(b0), V(b1), V(b2)
    u.ensure(z3.And(b0v.n == idxA.n, b1v.n == idxI.n) if not isinstance(b0v.n, int) else False, "b0,b1_have_one_entry_per_active/inactive_component")
    u.ensure(QAll(idxA.n, lambda t: b0v.f(t) == dt * Fv.f(idxA.f(t))), "b0==dt*F_x[active]")
    u.ensure(QAll(idxI.n, lambda t: b1v.f(t) == Fv.f(idxI.f(t))), "b1==F_x[inactive]")
    u.ensure(QAll(m, lambda i: b2v.f(i) == Fv.f(n + i)), "b2==F_y")
    u.ensure((b2v.n == m) if not isinstance(b2v.n, int) else False, "b2_has_m_entries")
    u.canary(QAll(idxA.n, lambda t: b0v.f(t) == Fv.f(idxA.f(t))), "b0_without_the_factor_dt")
    u.cover("end")


@unit("C14.Asymmetric.rhs", ["C14", "C06"], [ASY + "compute_rhs", ASY + "initial_sol"], config={"max_paths": 40, "implicit_props": ["C06", "C14"]})
def asymmetric_rhs(u):
    """right-hand side of the asymmetric system: rhs[j] = b0[rank of j among the active] for active j, b1[rank among the
    inactive] otherwise, rhs[n+i] = b2t[i]; the initial guess carries b0 on the active components and zero elsewhere"""
    from .models import _fresh_vec

    params, problem, n, m, ss, act, dt, rho = mk_solver(u)
    av = V(act)
    from pyvc.npmodel import np_where

    (iA,) = np_where(u.it, act)
    nact = iA.vec().n
    b0 = _fresh_vec(u.it, "b0", nact)
    b1 = _fresh_vec(u.it, "b1", n - nact)
    b2t = _fresh_vec(u.it, "b2t", m)
    rhs = u.method(ss, "compute_rhs", b0, b1, b2t)
    rv = V(rhs)
    cache = list(u.path.ghost.get("__where_cache__", {}).values())
    u.ensure(len(cache) == 2, "active_and_inactive_index_sets_used")
    invA = cache[0][0].inverse[1]
    invI = cache[1][0].inverse[1]
    u.ensure((rv.n == n + m) if not isinstance(rv.n, int) else False, "rhs_has_n+m_entries")
    j = u.int("j")
    u.path.index_term(j, n)
    u.assume(z3.And(j >= 0, j < n))
    u.path.index_term(invA(j), nact)
    u.path.index_term(invI(j), n - nact)
    u.ensure(z3.Implies(av.f(j), rv.f(j) == V(b0).f(invA(j))), "rhs[j]==b0[rank_of_j_among_active]")
    u.ensure(z3.Implies(z3.Not(av.f(j)), rv.f(j) == V(b1).f(invI(j))), "rhs[j]==b1[rank_of_j_among_inactive]")
    u.ensure(QAll(m, lambda i: rv.f(n + i) == V(b2t).f(i)), "rhs[n:]==b2t")
    mk = u.method(ss, "initial_sol", b0, b1, b2t)
    sol = u.call_value(mk) if hasattr(u, "call_value") else u.it.call(mk, [], {})
    sv = V(sol)
    u.ensure(z3.Implies(av.f(j), sv.f(j) == V(b0).f(invA(j))), "initial_guess[j]==b0[rank]_on_active_components")
    u.ensure(z3.Implies(z3.Not(av.f(j)), sv.f(j) == 0), "initial_guess_zero_on_inactive_components")
    u.ensure(QAll(m, lambda i: sv.f(n + i) == 0), "initial_guess_zero_on_the_multipliers")
    u.cover("end")
