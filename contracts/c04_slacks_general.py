"""C04 - ConstrainedProblem for an ARBITRARY number of constraint rows (unbounded m).

The slack positions are described by two ghost functions over the row index (neq(i) :<=> cl[i] != cu[i]):
    rank(0) = 0,  rank(i+1) = rank(i) + (neq(i) ? 1 : 0)          -- number of inequality rows below i
    neq(i)  =>  pos(rank(i)) = i                                   -- the enumeration itself
(a definitional extension: both are defined by primitive recursion / as the inverse on the inequality rows).
  * lemma unit  (pure induction, no code):  for all i >= 0
        0 <= rank(i) <= i;  a <= i => rank(a) <= rank(i);  a < i and neq(a) => rank(a) < rank(i);
        t < rank(i) => 0 <= pos(t) < i and neq(pos(t)) and rank(pos(t)) = t
  * create_slacks (loop invariant over the real append loop): slack_positions == [pos(0), ..., pos(rank(m)-1)],
        cons_offsets / has_offsets as specified
  * the other methods are verified for any instance satisfying this class invariant.
"""
from __future__ import annotations

import z3

from pyvc import matmodel, npmodel, ops
from pyvc.core import QAll, QAny, UFact, Unsupported
from pyvc.harness import unit
from pyvc.values import Arr, ListCell, Mat, Obj, Opaque, SymList, Vec

from .c04_transform import StoreLog, TripletLoop, UserProblem
from .common import mk_problem
from .models import _fresh_vec
from .spec import V

CP = "pygradflow.cons_problem.ConstrainedProblem."


class Slacks:
    """ghost functions + their defining equations and the induction lemma (as ground-instantiated facts)"""

    def __init__(self, u, cl, cu, m, with_lemma=True):
        p = u.path
        self.u, self.m = u, m
        self.rank = p.func("rank", z3.IntSort(), z3.IntSort())
        self.pos = p.func("pos", z3.IntSort(), z3.IntSort())
        self.neq = lambda i: cl.f(i) != cu.f(i)
        rank, pos, neq = self.rank, self.pos, self.neq
        p.assume(rank(0) == 0)
        p.add_ufact(UFact(1, lambda i: rank(i + 1) == rank(i) + z3.If(neq(i), 1, 0), [(0, m)], "def:rank(i+1)"))
        p.add_ufact(UFact(1, lambda i: z3.Implies(neq(i), pos(rank(i)) == i), [(0, m)], "def:pos(rank(i))"))
        if with_lemma:
            self.assume_lemma(m + 1)

    def lemma_parts(self, i):
        rank, pos, neq = self.rank, self.pos, self.neq
        return [
            ("0<=rank(i)<=i", z3.And(rank(i) >= 0, rank(i) <= i)),
            ("rank_monotone", lambda a: z3.Implies(z3.And(a >= 0, a <= i), rank(a) <= rank(i))),
            ("rank_strict_at_inequality_rows", lambda a: z3.Implies(z3.And(a >= 0, a < i, neq(a)), rank(a) < rank(i))),
            ("pos_is_the_inverse", lambda t: z3.Implies(z3.And(t >= 0, t < rank(i)), z3.And(pos(t) >= 0, pos(t) < i, neq(pos(t)), rank(pos(t)) == t))),
        ]

    def assume_lemma(self, upto):
        """for all 0 <= i < upto: P(i)   (proved by induction in unit C04.slacks.lemma)"""
        p = self.u.path
        p.add_ufact(UFact(1, lambda i: self.lemma_parts(i)[0][1], [(0, upto)], "lemma:P1"))
        # the second variable ranges over row indices (P2, P3) resp. slack indices (P4): restricting the range of
        # a universally quantified fact is sound and keeps the ground instances to the terms of that kind
        kk = self.rank(self.m)
        for k in (1, 2, 3):
            rng = (0, upto) if k < 3 else (0, kk + 1)
            p.add_ufact(UFact(2, (lambda k: lambda i, a: self.lemma_parts(i)[k][1](a))(k), [(0, upto), rng], f"lemma:P{k + 1}"))


@unit("C04.slacks.lemma", ["C04", "C01"], [CP + "create_slacks"], config={"max_paths": 10})
def slacks_lemma(u):
    """induction over the row index for the ghost functions rank / pos (no code involved)"""
    m = u.int("m")
    u.assume(m >= 0)
    cl, cu = V(u.vec("cl", m)), V(u.vec("cu", m))
    S = Slacks(u, cl, cu, m, with_lemma=False)
    p = u.path
    # base case P(0)
    for label, part in S.lemma_parts(z3.IntVal(0)):
        goal = part if not callable(part) else QAll(None, part, lo=None)
        u.ensure(goal if not callable(part) else _forall_free(u, part), f"base:{label}")
    # induction step: P(i) => P(i+1) for 0 <= i < m
    i = u.int("i")
    u.assume(z3.And(i >= 0, i < m))
    p.index_term(i, m)
    hyp = S.lemma_parts(i)
    u.assume(hyp[0][1])
    for k in (1, 2, 3):
        p.add_ufact(UFact(1, hyp[k][1], [(None, None)], f"IH:{hyp[k][0]}"))
    for label, part in S.lemma_parts(i + 1):
        u.ensure(part if not callable(part) else _forall_free(u, part, extra=[i, S.rank(i), S.pos(S.rank(i))]), f"step:{label}")
    # vacuity: a false 'lemma' must not pass the same induction
    u.canary(S.rank(i + 1) == i + 1, "step:rank(i)==i")
    a2 = u.int("a2")
    u.canary(z3.Implies(z3.And(a2 >= 0, a2 < i + 1), S.rank(a2) < S.rank(i + 1)), "step:rank_strictly_monotone_everywhere")
    u.cover("end")


def _forall_free(u, body, extra=()):
    """goal 'forall a. body(a)' with an unrestricted Skolem constant; the induction hypotheses are instantiated at
    the Skolem constant and at the listed extra terms"""
    a = u.int("a")
    u.path.index_term(a)
    for t in extra:
        u.path.index_term(t)
    g = body(a)
    # hypotheses mention pos(a) / rank(a): register them too
    return g


class AppendLoop:
    """for i, (lb, ub) in enumerate(zip(cons_lb, cons_ub)): ... slack_positions.append(i) / cons_offsets[i] = -lb
    invariant(i): slack_positions == [pos(0..rank(i)-1)], cons_offsets[q] == (q < i and eq(q) ? -cl[q] : 0),
                  has_offsets <=> exists q < i. eq(q) and cl[q] != 0"""

    def __init__(self, u, S, cl, cu, m):
        self.u, self.S, self.cl, self.cu, self.m = u, S, cl, cu, m

    def sequence(self, it, frame, iterable):
        self.frame = frame
        return npmodel.seq_view(it, iterable)

    def _inv_goals(self, frame, i):
        S, cl, cu, m = self.S, self.cl, self.cu, self.m
        L = frame.locals["slack_positions"].val
        off = frame.locals["cons_offsets"].vec()
        has = frame.locals["has_offsets"]
        goals = []
        n = len(L) if isinstance(L, list) else L.n
        goals.append(("len(slack_positions)==rank(i)", n == S.rank(i)))
        if isinstance(L, list):
            goals.append(("slack_positions[t]==pos(t)", ops.zand(*[ops.to_term(x) == S.pos(t) for t, x in enumerate(L)]) if L else True))
        else:
            goals.append(("slack_positions[t]==pos(t)", QAll(L.n, lambda t: ops.to_term(L.f(t)) == S.pos(t))))
        goals.append(("cons_offsets==spec", QAll(m, lambda q: off.f(q) == z3.If(z3.And(q < i, cl.f(q) == cu.f(q)), -cl.f(q), 0))))
        anyoff = self.W(i)
        goals.append(("has_offsets<=>some_equality_row_below_i_has_nonzero_rhs", ops.zbool(has) == anyoff))
        return goals

    def setup_W(self, it):
        p = it.path
        self.Wf = p.func("anyoff", z3.IntSort(), z3.BoolSort())
        W, cl, cu = self.Wf, self.cl, self.cu
        p.assume(z3.Not(W(0)))
        p.add_ufact(UFact(1, lambda i: W(i + 1) == z3.Or(W(i), z3.And(cl.f(i) == cu.f(i), cl.f(i) != 0)), [(0, self.m)], "def:anyoff(i+1)"))
        self.W = lambda i: W(i)

    def establish(self, it, frame, site, n):
        self.setup_W(it)
        for label, g in self._inv_goals(frame, z3.IntVal(0)):
            it.path.prove(g, f"{site}:invariant:establish:{label}", kind="invariant")

    def havoc(self, it, frame, site, k, n):
        p = it.path
        S = self.S
        cnt = S.rank(k)
        p.assume(z3.And(cnt >= 0, cnt <= k))
        frame.locals["slack_positions"] = ListCell(SymList(cnt, lambda t: S.pos(t if not isinstance(t, int) else z3.IntVal(t)), "slack_positions"))
        A = z3.Array(p.fresh_name("off_h"), z3.IntSort(), z3.RealSort())
        frame.locals["cons_offsets"].cell.val = Vec(self.m, lambda q: z3.Select(A, p.auto_index(q, self.m)), "real", arr=A)
        frame.locals["has_offsets"] = self.W(k)
        for label, g in self._inv_goals(frame, k):
            p.assume(g)

    def preserve(self, it, frame, site, k, n):
        for label, g in self._inv_goals(frame, k + 1):
            it.path.prove(g, f"{site}:invariant:preserve:{label}", kind="invariant")

    def at_break(self, *a):
        raise Unsupported("break in create_slacks loop")


@unit("C04.ConstrainedProblem.create_slacks[any m]", ["C04", "C01", "C05"], [CP + "create_slacks"], config={"max_paths": 50})
def create_slacks_general(u):
    inner = mk_problem(u, name="inner")
    m = inner.fields["num_cons"]
    cl, cu = V(inner.fields["cons_lb"]), V(inner.fields["cons_ub"])
    S = Slacks(u, cl, cu, m, with_lemma=False)
    loop = AppendLoop(u, S, cl, cu, m)
    u.it.loop_specs[CP + "create_slacks/loop#0"] = loop
    cp = u.obj("pygradflow.cons_problem.ConstrainedProblem", problem=inner)
    u.method(cp, "create_slacks", inner.fields["cons_lb"], inner.fields["cons_ub"])
    sp = V(cp.fields["slack_positions"])
    u.ensure(sp.kind == "int", "slack_positions_is_an_integer_array")
    u.ensure(sp.n == S.rank(m) if not isinstance(sp.n, int) else False, "number_of_slacks==rank(m)")
    u.ensure(QAll(sp.n, lambda t: sp.f(t) == S.pos(t)), "slack_positions==[pos(0),...,pos(rank(m)-1)]")
    off = cp.fields["cons_offsets"]
    if off is None:
        u.ensure(z3.Not(loop.W(m)), "cons_offsets_None_only_if_no_equality_row_has_a_nonzero_rhs")
    else:
        ov = V(off)
        u.ensure(loop.W(m), "cons_offsets_kept_only_if_some_equality_row_has_a_nonzero_rhs")
        u.ensure(QAll(m, lambda q: ov.f(q) == z3.If(cl.f(q) == cu.f(q), -cl.f(q), 0)), "cons_offsets[i]==-cl[i]_on_equality_rows_else_0")
    u.cover("end")


# ----------------------------------------------------------------------------------------------------
# the other methods, for any instance satisfying the class invariant


def slack_contract(u):
    """installs the contract of create_slacks (proved in C04.ConstrainedProblem.create_slacks[any m] + the lemma
    unit) for whatever bounds the REAL __init__ passes; the ghost functions are created at the call and returned in
    the holder: S, m, k, cl, cu"""
    h = {}
    p = u.path

    def create_slacks(it, self_, cons_lb, cons_ub):
        cl, cu = V(cons_lb), V(cons_ub)
        m = cl.n
        S = Slacks(u, cl, cu, m)
        p.index_term(m, m)
        k = S.rank(m)
        offsets_kept = p.choose("cons_offsets kept (some equality row has a non-zero rhs)")

        def pos_at(t):
            t = t if not isinstance(t, int) else z3.IntVal(t)
            p.index_term(t, k)  # the lemma (0 <= pos(t) < m, pos(t) is an inequality row) is instantiated at every read
            return S.pos(t)

        posv = Vec(k, pos_at, "int")
        posv.inverse = (lambda i: S.neq(i), lambda i: S.rank(i))
        self_.fields["slack_positions"] = Arr.new(posv)
        if offsets_kept:
            A = z3.Array(p.fresh_name("off"), z3.IntSort(), z3.RealSort())
            ov = Vec(m, lambda q: z3.Select(A, p.auto_index(q, m)), "real", arr=A)
            p.add_ufact(UFact(1, lambda q: ov.f(q) == z3.If(cl.f(q) == cu.f(q), -cl.f(q), 0), [(0, m)], "cons_offsets==spec"))
            self_.fields["cons_offsets"] = Arr.new(ov)
        else:
            p.add_ufact(UFact(1, lambda q: z3.Implies(cl.f(q) == cu.f(q), cl.f(q) == 0), [(0, m)], "no offsets: equality rhs are 0 (post-condition of create_slacks)"))
            self_.fields["cons_offsets"] = None
        h.update(S=S, m=m, k=k, cl=cl, cu=cu)

    u.it.abstract[CP + "create_slacks"] = create_slacks
    return h


def mk_cp_general(u, fmt="coo", build=None, inner=None):
    """the inner problem (any n, any m), the slack ghost functions, and a ConstrainedProblem built by the REAL
    __init__ around the proved contract of create_slacks; `build(inner)` may construct it through an outer layer
    (Transformation) and return the ConstrainedProblem object"""
    inner = inner or mk_problem(u, name="inner")
    n, m = inner.fields["__n__"], inner.fields["num_cons"]
    up = UserProblem(u, inner, fmt=fmt)
    h = slack_contract(u)
    cp = build(inner) if build is not None else u.construct("pygradflow.cons_problem.ConstrainedProblem", inner)
    return inner, up, cp, h["S"], n, m, h["k"], h["cl"], h["cu"]


@unit("C04.ConstrainedProblem.init[any m]", ["C04", "C01", "C05", "C11"], [CP + "__init__"], config={"max_paths": 50})
def init_general(u):
    log = StoreLog(u)
    inner, up, cp, S, n, m, k, cl, cu = mk_cp_general(u)
    lb, ub = V(cp.fields["var_lb"]), V(cp.fields["var_ub"])
    ilb, iub = V(inner.fields["var_lb"]), V(inner.fields["var_ub"])
    u.ensure(QAll(n, lambda j: z3.And(lb.f(j) == ilb.f(j), ub.f(j) == iub.f(j))), "var_bounds[:n]==inner_var_bounds")
    u.ensure(QAll(k, lambda t: z3.And(lb.f(n + t) == cl.f(S.pos(t)), ub.f(n + t) == cu.f(S.pos(t)))), "slack_bounds==(cl,cu)[slack_positions]")
    u.ensure(z3.And(lb.n == n + k, ub.n == n + k) if not isinstance(lb.n, int) else False, "num_vars==n+num_slacks")
    u.ensure(cp.fields["num_cons"] is m or cp.fields["num_cons"] == m, "num_cons_preserved")
    cpl, cpu = V(cp.fields["cons_lb"]), V(cp.fields["cons_ub"])
    u.ensure(QAll(m, lambda i: z3.And(cpl.f(i) == 0, cpu.f(i) == 0)), "internal_constraints_are_equalities_c=0")
    u.ensure(QAll(n + k, lambda j: lb.f(j) <= ub.f(j)), "internal_box_non-empty(valid_problem)")
    log.check()
    u.cover("end")


class ScatterLoop:
    """for pos, val in zip(self.slack_positions, slack_vals): orig_cons[pos] -= val
    invariant(t): forall i. orig_cons[i] == base[i] - (neq(i) and rank(i) < t ? s[rank(i)] : 0)"""

    def __init__(self, u, S, m):
        self.u, self.S, self.m = u, S, m

    def sequence(self, it, frame, iterable):
        self.oc = frame.locals["orig_cons"]
        self.base = self.oc.vec()
        self.s = frame.locals["slack_vals"].vec()
        return npmodel.seq_view(it, iterable)

    def _inv(self, cur, t):
        S, base, s = self.S, self.base, self.s
        return QAll(self.m, lambda i: cur.f(i) == base.f(i) - z3.If(z3.And(S.neq(i), S.rank(i) < t), s.f(S.rank(i)), 0))

    def establish(self, it, frame, site, n):
        it.path.prove(self._inv(self.oc.vec(), 0), f"{site}:invariant:establish", kind="invariant")

    def havoc(self, it, frame, site, t, n):
        p = it.path
        A = z3.Array(p.fresh_name("oc_h"), z3.IntSort(), z3.RealSort())
        h = Vec(self.m, lambda i: z3.Select(A, p.auto_index(i, self.m)), "real", arr=A)
        self.oc.cell.val = h
        p.assume(self._inv(h, t))
        if t is not n:
            p.index_term(self.S.pos(t), self.m)

    def preserve(self, it, frame, site, t, n):
        it.path.prove(self._inv(self.oc.vec(), t + 1), f"{site}:invariant:preserve", kind="invariant")

    def at_break(self, *a):
        raise Unsupported("break in slack subtraction loop")


@unit("C04.ConstrainedProblem.values[any m]", ["C04", "C01", "C11", "C05"], [CP + "cons", CP + "obj", CP + "obj_grad", CP + "orig_vals", CP + "slack_vals"], config={"max_paths": 100})
def values_general(u):
    inner, up, cp, S, n, m, k, cl, cu = mk_cp_general(u)
    log = StoreLog(u)
    x = u.vec("xint", n + k, region="USER")
    xv = V(x)
    u.it.loop_specs[CP + "cons/loop#0"] = ScatterLoop(u, S, m)
    c = V(u.method(cp, "cons", x))
    g = V(u.method(cp, "obj_grad", x))
    f = u.method(cp, "obj", x)
    for call in up.calls:
        av = V(call[1])
        u.ensure(QAll(n, lambda j: av.f(j) == xv.f(j)), f"inner_{call[0]}_evaluated_at_x[:n]")
    cu_ = up.ret0["cons"]
    u.ensure(QAll(m, lambda i: c.f(i) == cu_.f(i) - z3.If(S.neq(i), xv.f(n + S.rank(i)), cl.f(i))), "cons[i]==c[i]-cl[i](equality)_or_c[i]-s[rank(i)](slack)")
    gu = V(up.ret["obj_grad"])
    u.ensure(QAll(n, lambda j: g.f(j) == gu.f(j)), "obj_grad[:n]==g")
    u.ensure(QAll(k, lambda t: g.f(n + t) == 0), "obj_grad[n:]==0")
    u.ensure(f is up.ret["obj"], "obj==inner_obj")
    u.ensure(QAll(m, lambda i: up.ret["cons"].vec().f(i) == cu_.f(i)), "inner_cons_array_not_modified", props=["C11"])
    log.check()
    u.canary(QAll(m, lambda i: c.f(i) == cu_.f(i)), "cons==inner_cons(no_slack_or_offset_subtracted)")
    u.canary(k == 0, "never_any_slack")
    u.cover("end")


def _derivs_general(u, fmt):
    inner, up, cp, S, n, m, k, cl, cu = mk_cp_general(u, fmt)
    log = StoreLog(u)
    x = u.vec("xint", n + k, region="USER")
    y = u.vec("y", m, region="USER")
    J = u.method(cp, "cons_jac", x)
    H = u.method(cp, "lag_hess", x, y)
    Ju, Hu = up.ret["cons_jac"], up.ret["lag_hess"]
    if J is Ju:
        u.ensure(k == 0, "inner_Jacobian_returned_as_it_is_only_without_slacks")
        u.ensure(H is Hu, "inner_Hessian_returned_as_it_is_without_slacks")
        return
    eJ, eH = matmodel.entry_fn(u.it, J), matmodel.entry_fn(u.it, H)
    eJu, eHu = matmodel.entry_fn(u.it, Ju), matmodel.entry_fn(u.it, Hu)
    i, j = u.int("i"), u.int("j")
    u.path.index_term(j - n, k)
    u.ensure(z3.Implies(z3.And(i >= 0, i < m, j >= 0, j < n), eJ(i, j) == eJu(i, j)), "cons_jac[:, :n]==J")
    u.ensure(z3.Implies(z3.And(i >= 0, i < m, j >= n, j < n + k), eJ(i, j) == z3.If(i == S.pos(j - n), z3.RealVal(-1), z3.RealVal(0))), "cons_jac[:, n+t]==-e_pos(t)")
    u.ensure(z3.Implies(z3.And(i >= 0, i < n, j >= 0, j < n), eH(i, j) == eHu(i, j)), "lag_hess[:n,:n]==H")
    u.ensure(z3.Implies(z3.And(i >= 0, j >= 0, i < n + k, j < n + k, z3.Or(i >= n, j >= n)), eH(i, j) == 0), "lag_hess_zero_in_slack_rows_and_columns")
    u.ensure((J.cols == n + k) if not isinstance(J.cols, int) else False, "cons_jac_has_n+k_columns")
    log.check()
    u.canary(z3.Implies(z3.And(i >= 0, i < m, j >= n, j < n + k), eJ(i, j) == 0), "slack_columns_all_zero")
    u.canary(z3.Implies(z3.And(i >= 0, i < m, j >= n, j < n + k), eJ(i, j) == z3.If(i == S.pos(j - n), z3.RealVal(1), z3.RealVal(0))), "slack_columns_plus_one")
    u.cover("end")


for _fmt in ("coo", "csr", "csc"):
    unit(f"C04.ConstrainedProblem.derivs[any m,{_fmt}]", ["C04", "C01", "C11"], [CP + "cons_jac", CP + "lag_hess"], config={"max_paths": 100})(
        (lambda f: lambda u: _derivs_general(u, f))(_fmt)
    )


@unit("C04.ConstrainedProblem.sol[any m]", ["C04", "C01", "C05", "C11"], [CP + "transform_sol", CP + "restore_sol"], config={"max_paths": 100})
def sol_general(u):
    inner, up, cp, S, n, m, k, cl, cu = mk_cp_general(u)
    log = StoreLog(u)
    x0 = u.vec("x0", n, region="USER")
    y0 = u.vec("y0", m, region="USER")
    clip = lambda t, lo, hi: ops.zmin(ops.zmax(t, lo), hi)
    holder = {}

    def spec(t):
        c0 = up.ret0["cons"]
        pt = S.pos(t)
        u.path.index_term(pt, m)
        return clip(c0.f(pt), cl.f(pt), cu.f(pt))

    loop = TripletLoop(u, "slack_vals", spec)
    loop.check_body = lambda frame, site: None
    u.it.loop_specs[CP + "transform_sol/loop#0"] = loop
    xt, yt = u.method(cp, "transform_sol", x0, y0)
    xtv = V(xt)
    u.ensure(QAll(n, lambda j: xtv.f(j) == V(x0).f(j)), "transform_sol.x[:n]==x0")
    if xt is not x0:
        u.ensure(QAll(k, lambda t: xtv.f(n + t) == spec(t)), "starting_slacks==clip(c(x0)[pos],cl[pos],cu[pos])")
        u.ensure(QAll(k, lambda t: z3.And(cl.f(S.pos(t)) <= xtv.f(n + t), xtv.f(n + t) <= cu.f(S.pos(t)))), "starting_slacks_inside_their_bounds", props=["C05", "C04"])
    else:
        u.ensure(k == 0, "x0_returned_as_it_is_only_without_slacks")
    u.ensure(yt is y0, "transform_sol.y==y0")
    d = u.vec("dint", n + k, region="USER")
    xr, yr, dr = u.method(cp, "restore_sol", xt if xt is not x0 else u.vec("xint", n + k), yt, d)
    if xt is not x0:
        u.ensure(QAll(n, lambda j: V(xr).f(j) == V(x0).f(j)), "restore_sol(transform_sol(x0))==x0")
    u.ensure(yr is yt, "restore_sol.y==y")
    u.ensure(QAll(n, lambda j: V(dr).f(j) == V(d).f(j)), "restore_sol.d==d[:n]")
    same_len = lambda a: (a == n) if not isinstance(a, int) else False
    u.ensure(z3.And(same_len(V(xr).n), same_len(V(dr).n), same_len(V(yr).n) if False else True), "restore_sol_returns_vectors_of_the_user's_length_n")
    log.check()
    if xt is not x0:
        u.canary(QAll(k, lambda t: xtv.f(n + t) == up.ret0["cons"].f(S.pos(t))), "starting_slacks_unclipped")
    u.cover("end")


# ----------------------------------------------------------------------------------------------------
# Transformation (scale -> slack stack): start iterate and solution mapping for ANY number of rows


class SlackStartLoop(TripletLoop):
    """for i, pos in enumerate(self.slack_positions): slack_vals[i] = clip(orig_cons_vals[pos], cl[pos], cu[pos])
    the spec reads the arrays of the frame at loop entry (whatever inner problem the wrapper sits on)"""

    def __init__(self, u, h):
        super().__init__(u, "slack_vals", None)
        self.h = h

    def sequence(self, it, frame, iterable):
        c0 = frame.locals["orig_cons_vals"].vec()
        prob = frame.locals["problem"]
        cl, cu = prob.fields["cons_lb"].vec(), prob.fields["cons_ub"].vec()
        S, m, p = self.h["S"], self.h["m"], it.path
        clip = lambda t, lo, hi: ops.zmin(ops.zmax(t, lo), hi)

        def spec(t):
            pt = S.pos(t)
            p.index_term(pt, m)
            return clip(c0.f(pt), cl.f(pt), cu.f(pt))

        self.spec = spec
        return super().sequence(it, frame, iterable)

    def check_body(self, frame, site):
        return None


TR = "pygradflow.transform.Transformation."
SCL = "pygradflow.scale."


@unit("C04.Transformation.sol[any m]", ["C04", "C01", "C05", "C11", "C12"], [TR + "__init__", TR + "transform_sol", TR + "restore_sol", TR + "scaled_problem", TR + "trans_problem", TR + "create_transformed_iterate", SCL + "create_scaling", CP + "transform_sol", CP + "restore_sol", CP + "__init__"], config={"max_paths": 400})
def transformation_sol_any_m(u):
    from pyvc.npmodel import pow2_at

    from .c04_transform import mk_scaling
    from .common import mk_params

    log = StoreLog(u)
    p = u.path
    scaled = p.choose("custom scaling")
    user = mk_problem(u, name="user")
    n, m = user.fields["__n__"], user.fields["num_cons"]
    up = UserProblem(u, user)
    params = mk_params(u)
    sc = None
    if scaled:
        sc, vw_a, cw_a, ow = mk_scaling(u, n, m)
        params.fields["scaling"] = sc
        params.fields["scaling_type"] = u.enum("pygradflow.params.ScalingType", "Custom")
        vw, cw = V(vw_a), V(cw_a)
    else:
        ow = 0
    P = lambda e: pow2_at(u.it, e)
    W = (lambda j, s=1: P(s * vw.f(j))) if sc else (lambda j, s=1: 1)
    YW = (lambda i, s=1: P(s * (cw.f(i) - ow))) if sc else (lambda i, s=1: 1)
    CW = (lambda i: P(cw.f(i))) if sc else (lambda i: 1)
    u.it.abstract["pygradflow.eval.create_evaluator"] = lambda it, problem, params_: Opaque("evaluator")
    h = slack_contract(u)
    u.it.loop_specs[CP + "transform_sol/loop#0"] = SlackStartLoop(u, h)
    tr = u.construct("pygradflow.transform.Transformation", user, params)
    tp = tr.fields["trans_problem"]
    S, k = h["S"], h["k"]
    N = n + k
    ucl, ucu = V(user.fields["cons_lb"]), V(user.fields["cons_ub"])
    ulb, uub = V(user.fields["var_lb"]), V(user.fields["var_ub"])
    mode3 = p.choose_n(3, "x0 given inside the box / x0 given anywhere / None")
    mode = 0 if mode3 in (0, 1) else 1
    anywhere = mode3 == 1  # the exact reformulation (C04) and the first announced point (C12) do not need x0 in the box
    if mode == 0:
        x0 = u.vec("x0", n, region="USER")
        if not anywhere:
            p.add_ufact(UFact(1, lambda j: z3.And(ulb.f(j) <= V(x0).f(j), V(x0).f(j) <= uub.f(j)), [(0, n)], "requires:in_box(x0)"))
        y0 = u.vec("y0", m, region="USER")
    else:
        x0, y0 = None, None
    itx = u.method(tr, "create_transformed_iterate", x0, y0)
    xi, yi = V(itx.fields["x"]), V(itx.fields["y"])
    tlb, tub = V(tp.fields["var_lb"]), V(tp.fields["var_ub"])
    u.ensure(itx.fields["problem"] is tp, "start_iterate_belongs_to_the_transformed_problem")
    if not anywhere:
        u.ensure(QAll(n, lambda j: z3.And(tlb.f(j) <= xi.f(j), xi.f(j) <= tub.f(j))), "start_iterate_in_box(variables)", props=["C05"])
    u.ensure(QAll(k, lambda t: z3.And(tlb.f(n + t) <= xi.f(n + t), xi.f(n + t) <= tub.f(n + t))), "start_iterate_in_box(slacks)", props=["C05"])
    if mode == 0:
        u.ensure(QAll(n, lambda j: xi.f(j) == V(x0).f(j) * W(j)), "start_x[:n]==x0*P(vw)")
        u.ensure(QAll(m, lambda i: yi.f(i) == V(y0).f(i) * YW(i, -1)), "start_y==y0*P(ow-cw)")
    else:
        u.ensure(QAll(n, lambda j: xi.f(j) * W(j, -1) == ops.zmin(ops.zmax(z3.RealVal(0), ulb.f(j)), uub.f(j))), "start_x[:n]==scaled_clip(0,lb,ub)")
    # starting slacks: the user's constraint value, scaled and clipped to the (scaled) row bounds
    if "cons" in up.ret0:
        c_u = up.ret0["cons"]
        clip = lambda t, lo, hi: ops.zmin(ops.zmax(t, lo), hi)

        def slack_ok(t):
            i = S.pos(t)
            p.index_term(i, m)
            return xi.f(n + t) == clip(c_u.f(i) * CW(i), ucl.f(i) * CW(i), ucu.f(i) * CW(i))

        u.ensure(QAll(k, slack_ok), "start_slacks==clip(c(x0)*P(cw),cl*P(cw),cu*P(cw))[pos]")
    else:
        u.ensure(k == 0, "user_constraints_not_evaluated_only_without_slacks")
    for call in up.calls:
        av = V(call[1])
        if not anywhere:
            u.ensure(QAll(n, lambda j: z3.And(ulb.f(j) <= av.f(j), av.f(j) <= uub.f(j))), f"user_{call[0]}_evaluated_inside_the_user's_box", props=["C05"])
        elif mode == 0:
            u.ensure(QAll(n, lambda j: av.f(j) == V(x0).f(j)), f"user_{call[0]}_evaluated_at_the_user's_x0", props=["C04", "C12"])
    d = u.vec("d_int", N)
    xr, yr, dr = u.method(tr, "restore_sol", itx.fields["x"], itx.fields["y"], d)
    if mode == 0:
        u.ensure(QAll(n, lambda j: V(xr).f(j) == V(x0).f(j)), "restore_sol(start)==x0(exact_round_trip)")
        u.ensure(QAll(m, lambda i: V(yr).f(i) == V(y0).f(i)), "restore_sol(start).y==y0")
    u.ensure(QAll(n, lambda j: V(xr).f(j) == xi.f(j) * W(j, -1)), "restored_x==x_int[:n]*P(-vw)")
    u.ensure(QAll(m, lambda i: V(yr).f(i) == yi.f(i) * YW(i)), "restored_y==y_int*P(cw-ow)")
    u.ensure(QAll(n, lambda j: V(dr).f(j) == V(d).f(j) * (P(vw.f(j) - ow) if sc else 1)), "restored_d==d_int[:n]*P(vw-ow)")
    same_len = lambda a: (a == n) if not isinstance(a, int) else False
    u.ensure(z3.And(same_len(V(xr).n), same_len(V(dr).n)), "restored_vectors_have_the_user's_length_n")
    if not anywhere:
        u.ensure(QAll(n, lambda j: z3.And(ulb.f(j) <= V(xr).f(j), V(xr).f(j) <= uub.f(j))), "restored_x_inside_user_box", props=["C05", "C01"])
    log.check()
    u.cover("end")
