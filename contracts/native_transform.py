"""Native bounded oracle for C04: Transformation(problem, params).trans_problem next to an independent reference
transformation computed from the problem spec (change of variables + slack/offset embedding)."""
from __future__ import annotations

import numpy as np

from pyvc.native import native, result, use_repo

from .native_solve import mk_params, scenarios


def reference(problem, vw, cw, ow, x_int, y_int):
    """independent dense reference of the internal problem at an internal point"""
    n, m = problem.num_vars, problem.num_cons
    P = lambda e: np.ldexp(1.0, np.asarray(e))
    cl, cu = problem.cons_lb * P(cw), problem.cons_ub * P(cw)
    pos = [i for i in range(m) if cl[i] != cu[i]]
    xs, s = x_int[:n], x_int[n:]
    x = xs * P(-vw)
    f = problem.obj(x) * P(ow)
    g = problem.obj_grad(x) * P(ow - vw)
    out = dict(obj=f, grad=np.concatenate([g, np.zeros(len(pos))]), pos=pos)
    if m:
        c = problem.cons(x) * P(cw)
        J = problem.cons_jac(x).toarray() * P(cw)[:, None] * P(-vw)[None, :]
        ci = c.copy()
        for i in range(m):
            if i in pos:
                ci[i] -= s[pos.index(i)]
            else:
                ci[i] -= cl[i]
        E = np.zeros((m, len(pos)))
        for t, i in enumerate(pos):
            E[i, t] = -1.0
        out.update(cons=ci, jac=np.hstack([J, E]))
    y = y_int * P(cw - ow)
    H = problem.lag_hess(x, y).toarray() * P(ow) * P(-vw)[:, None] * P(-vw)[None, :]
    Hf = np.zeros((n + len(pos), n + len(pos)))
    Hf[:n, :n] = H
    out.update(hess=Hf, var_lb=np.concatenate([problem.var_lb * P(vw), cl[pos]]), var_ub=np.concatenate([problem.var_ub * P(vw), cu[pos]]))
    return out


@native("native.c04.reference", ["C04"])
def reference_transformation(tier="quick", seed=0, only=None):
    use_repo()
    from pygradflow.params import ScalingType
    from pygradflow.scale import Scaling
    from pygradflow.transform import Transformation

    rng = np.random.default_rng(5 + seed)
    failures, cases = [], 0
    S = scenarios()

    def fail(label, inp, obs):
        if not any(f["label"] == label for f in failures):
            failures.append(dict(label=label, input=inp, observed=obs))

    for name, (mk, x0, y0) in S.items():
        for fmt in ("coo", "csr", "csc"):
            for ow in (0, 3, -2):
                for rep in (range(1) if tier == "quick" else range(4)) if ow != 0 else range(-3, 1 if tier == "quick" else 4):
                    problem = mk(fmt) if fmt else mk()
                    if rep % 2 == 0:
                        # callbacks that hand out the SAME (memoised) array / matrix objects on every call
                        from .native_solve import _caching

                        problem = _caching(problem, fmt or "coo")
                    n, m = problem.num_vars, problem.num_cons
                    vw = rng.integers(-3, 4, size=n)
                    cw = rng.integers(-3, 4, size=m)
                    # degenerate weight patterns (only with obj_weight == 0): rows only, variables only, nothing at all
                    if rep == -3:
                        vw = np.zeros(n, int)
                        cw = np.where(cw == 0, 2, cw)
                    elif rep == -2:
                        cw = np.zeros(m, int)
                    elif rep == -1:
                        vw, cw = np.zeros(n, int), np.zeros(m, int)
                    inp = dict(scenario=name, format=fmt, obj_weight=ow, var_weights=vw.tolist(), cons_weights=cw.tolist())
                    if only is not None and only != inp:
                        continue
                    params = mk_params(scaling=Scaling(vw, cw, ow), scaling_type=ScalingType.Custom)
                    tr = Transformation(problem, params)
                    tp = tr.trans_problem
                    N = tp.num_vars
                    xi = rng.uniform(-1, 1, N)
                    yi = rng.uniform(-1, 1, m)
                    ref = reference(problem, vw, cw, ow, xi, yi)
                    cases += 1
                    eq = lambda a, b: np.array_equal(np.asarray(a, float), np.asarray(b, float))
                    if not (eq(tp.var_lb, ref["var_lb"]) and eq(tp.var_ub, ref["var_ub"])):
                        fail("C04:internal_variable_bounds", inp, (tp.var_lb.tolist(), ref["var_lb"].tolist()))
                    if tp.obj(xi) != ref["obj"]:
                        fail("C04:obj", inp, (float(tp.obj(xi)), float(ref["obj"])))
                    if not eq(tp.obj_grad(xi), ref["grad"]):
                        fail("C04:obj_grad", inp, (tp.obj_grad(xi).tolist(), ref["grad"].tolist()))
                    if m:
                        if not eq(tp.cons(xi), ref["cons"]):
                            fail("C04:cons", inp, (tp.cons(xi).tolist(), ref["cons"].tolist()))
                        if not eq(tp.cons_jac(xi).toarray(), ref["jac"]):
                            fail("C04:cons_jac", inp, "entries differ")
                        if not (eq(tp.cons_jac(xi).toarray(), ref["jac"]) and eq(tp.cons(xi), ref["cons"])):
                            fail("C04:cons_jac/cons_evaluated_a_second_time_at_the_same_point", inp, "entries differ on re-evaluation")
                    if not eq(tp.lag_hess(xi, yi).toarray(), ref["hess"]):
                        fail("C04:lag_hess", inp, "entries differ")
                    if not eq(tp.lag_hess(xi, yi).toarray(), ref["hess"]):
                        fail("C04:lag_hess_evaluated_a_second_time_at_the_same_point", inp, "entries differ on re-evaluation")
                    # round trip and starting slacks
                    xu = np.clip(rng.uniform(-1, 1, n), problem.var_lb, problem.var_ub)
                    yu = rng.uniform(-1, 1, m)
                    it = tr.create_transformed_iterate(xu, yu)
                    xr, yr, dr = tr.restore_sol(it.x, it.y, np.zeros(N))
                    if not (eq(xr, xu) and eq(yr, yu)):
                        fail("C04:round_trip", inp, (xr.tolist(), xu.tolist()))
                    if m and ref["pos"]:
                        P = lambda e: np.ldexp(1.0, np.asarray(e))
                        cs = problem.cons(xu) * P(cw)
                        exp = np.clip(cs[ref["pos"]], (problem.cons_lb * P(cw))[ref["pos"]], (problem.cons_ub * P(cw))[ref["pos"]])
                        if not eq(it.x[n:], exp):
                            fail("C04:starting_slacks==clip(c(x0),l,u)", inp, (it.x[n:].tolist(), exp.tolist()))
    return result(cases, failures, "scenario list x {COO,CSR,CSC} x obj_weight in {0,3,-2} x random integer weights in [-3,3] (and rows-only / variables-only / all-zero weights), bit-for-bit comparison")
