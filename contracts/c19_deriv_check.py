"""C19 - the derivative checker accepts correct derivatives and pinpoints wrong ones.

deriv_check(f, xval, dval, params), loop over the columns i with the invariant
      xtest == xval (every perturbation undone)  and  every column i' < i passed
  returns normally  <=>  every column passes  |d[r,i] - fd[r,i]| <= atol + rtol |fd[r,i]|  (atol = deriv_tol),
      fd[r,i] = (f(x + eps e_i)[r] - f(x)[r]) / eps
  otherwise raises DerivError whose col_index is the FIRST failing column and whose invalid_indices is exactly
      { r : |d[r,i] - fd[r,i]| > atol + rtol |fd[r,i]| }  - the SAME predicate that rejected the column
  frame: deriv_check writes only its own copy xtest; Solver._deriv_check evaluates nothing for NoCheck.
Acceptance of correct derivatives is CONDITIONAL on an explicit Taylor-remainder assumption (stated in the unit).
"""
from __future__ import annotations

import z3

from pyvc import matmodel, npmodel, ops
from pyvc.core import QAll, QAny, UFact, Unsupported
from pyvc.harness import unit
from pyvc.interp import PyFunc
from pyvc.values import Arr, Mat, Obj, Opaque, PyRaise, Vec

from .c04_transform import StoreLog
from .common import mk_params, mk_problem
from .models import _fresh_vec
from .spec import V

DC = "pygradflow.deriv_check."
RTOL = ops._real(1e-05)


class ColumnLoop:
    """for i in range(n): perturb, compare column i, undo.  invariant(i): xtest == xval pointwise, columns < i passed"""

    def __init__(self, u, xval, judge=None):
        self.u, self.xval, self.judge = u, xval, judge

    def sequence(self, it, frame, iterable):
        self.xtest = frame.locals["xtest"]
        return npmodel.seq_view(it, iterable)

    def _eq(self):
        xt, xv = self.xtest.vec(), self.xval.vec()
        return QAll(xv.n, lambda j: xt.f(j) == xv.f(j))

    def establish(self, it, frame, site, n):
        it.path.prove(self._eq(), f"{site}:invariant:establish:xtest==xval", kind="invariant")

    def havoc(self, it, frame, site, k, n):
        xv = self.xval.vec()
        self.xtest.cell.val = Vec(xv.n, xv.f, "real")  # = xval pointwise (the invariant)
        self.k = k
        self.u._loop_k = k
        self.n_calls = len(self.judge["calls"]) if self.judge else 0

    def preserve(self, it, frame, site, k, n):
        it.path.prove(self._eq(), f"{site}:invariant:preserve:perturbation_undone(xtest==xval)", kind="invariant")
        # an iteration that ends without DerivError has COMPARED column k with the finite difference and found it
        # within the tolerance (np.allclose: |d - fd| <= atol + rtol |fd|): a wrong column is never passed over
        if self.judge:
            J = self.judge
            new = [c for c in J["calls"][self.n_calls:] if isinstance(c, tuple)]
            ok = it.path.prove(len(new) == 1, f"{site}:invariant:preserve:column_evaluated_exactly_once_per_iteration", kind="invariant", props=["C19"])
            if ok:
                ret = new[-1][1]
                fd = lambda r: (V(ret).f(r) - V(J["F0"]).f(r)) / J["eps"]
                it.path.prove(passes(lambda r: ops._real(J["eD"](r, k)), fd, J["m"], J["tol"]), f"{site}:invariant:preserve:no_DerivError=>column_within_tolerance_of_the_finite_difference", kind="invariant", props=["C19"])

    def at_break(self, *a):
        raise Unsupported("break in deriv_check loop")


def setup(u, sparse):
    params = mk_params(u)
    n = u.int("n")
    u.assume(n >= 0)
    m = u.int("m") if sparse else 1
    if sparse:
        u.assume(m >= 0)
    x = u.vec("xval", n, region="USER")
    eps, tol = params.fields["deriv_pert"], params.fields["deriv_tol"]
    calls = []
    F0 = _fresh_vec(u.it, "f_at_x", m)

    def f(it, xarg):
        calls.append(xarg.vec() if isinstance(xarg, Arr) else xarg)
        if len(calls) == 1:
            return F0 if sparse else F0.vec().f(0)
        v = _fresh_vec(it, "f_at_xtest", m)
        calls.append(("ret", v))
        return v if sparse else v.vec().f(0)

    if sparse:
        D = Mat(m, n, None, name="D", fmt="csc")  # what dval.tocsc() hands to the column loop
        D.coo = None
    else:
        D = u.vec("grad", n, region="USER")
    return params, n, m, x, eps, tol, PyFunc(f, "f"), calls, F0, D


def passes(d_col, fd_col, m, tol):
    return QAll(m, lambda r: ops.zabs(d_col(r) - fd_col(r)) <= tol + RTOL * ops.zabs(fd_col(r)))


def dc_unit(sparse):
    nm = "sparse" if sparse else "dense_gradient"

    @unit(f"C19.deriv_check[{nm}]", ["C19", "C11"], [DC + "deriv_check", DC + "DerivError.__init__"], config={"max_paths": 100})
    def dc(u):
        params, n, m, x, eps, tol, f, calls, F0, D = setup(u, sparse)
        log = StoreLog(u)
        eD = matmodel.entry_fn(u.it, D) if sparse else (lambda r, c: V(D).f(c))
        loop = ColumnLoop(u, x, judge=dict(calls=calls, F0=F0, eps=eps, tol=tol, m=m, eD=eD))
        u.it.loop_specs[DC + "deriv_check/loop#0"] = loop
        kind, val = u.raised(lambda: u.call(DC + "deriv_check", f, x, D, params))
        xv = V(x)
        k = getattr(u, "_loop_k", None)
        u.ensure(QAll(n, lambda j: x.vec().f(j) == xv.f(j)), "xval_not_modified", props=["C11", "C19"])
        if kind == "raise":
            exc = val.exc
            u.ensure(exc.name() == "DerivError", "raises_only{DerivError}", desc=f"escaping {exc!r} at {val.origin}")
            if exc.name() != "DerivError":
                return
            u.ensure(k is not None and exc.fields["col_index"] is k, "DerivError.col_index==the_column_being_checked(first_failing:all_earlier_columns_passed_by_the_invariant)")
            # the perturbed point and the finite difference
            pert = [c for c in calls if isinstance(c, Vec)][-1]
            u.ensure(QAll(n, lambda j: pert.f(j) == xv.f(j) + z3.If(j == k, eps, 0)), "f_evaluated_at_x+eps*e_i")
            ret = [c for c in calls if isinstance(c, tuple)][-1][1]
            fd = lambda r: (V(ret).f(r) - V(F0).f(r)) / eps
            dcol = lambda r: ops._real(eD(r, k))
            exp, act = V(exc.fields["expected_value"]), V(exc.fields["actual_value"])
            u.ensure(QAll(m, lambda r: z3.And(exp.f(r) == dcol(r), act.f(r) == fd(r))), "DerivError_records(column_of_dval,finite_difference)")
            inv = V(exc.fields["invalid_deriv"])
            u.ensure(QAll(m, lambda r: inv.f(r) == (ops.zabs(dcol(r) - fd(r)) > tol + RTOL * ops.zabs(fd(r)))), "invalid_rows==exactly_the_rows_exceeding_the_checker's_tolerance")
            u.ensure(QAny(m, lambda r: ops.zabs(dcol(r) - fd(r)) > tol + RTOL * ops.zabs(fd(r))), "raised=>some_row_of_the_column_fails")
            idx = exc.fields["invalid_indices"]
            iv = V(idx)
            u.ensure(getattr(iv, "mask", None) is not None and QAll_mask_equal(u, iv.mask, inv, m), "invalid_indices==np.where(invalid_rows)")
            u.cover("DerivError")
        else:
            u.cover("returns")
        u.ensure(True, "ran")

    return dc


def QAll_mask_equal(u, a, b, m):
    return u.path.prove(QAll(m, lambda r: a.f(r) == b.f(r)), "C19:invalid_indices_enumerate_the_invalid_rows", kind="ensures", props=["C19"])


dc_unit(True)
dc_unit(False)


@unit("C19._deriv_check", ["C19", "C05"], ["pygradflow.solver.Solver._deriv_check"], config={"max_paths": 50})
def solver_deriv_check(u):
    """which checks run for which DerivCheck flags, what they compare, and that NoCheck evaluates nothing"""
    params = mk_params(u)
    names = ["NoCheck", "CheckFirst", "CheckSecond", "CheckAll"]
    k = u.path.choose_n(4, "deriv_check flag")
    params.fields["deriv_check"] = u.enum("pygradflow.params.DerivCheck", names[k])
    problem = mk_problem(u)
    n, m = problem.fields["__n__"], problem.fields["num_cons"]
    evals = []
    tags = {}

    def fresh_value(kind):
        from pyvc.values import Mat as _Mat

        v = {"obj": lambda: u.real("f"), "obj_grad": lambda: u.vec(u.path.fresh_name("g"), n), "cons": lambda: u.vec(u.path.fresh_name("c"), m), "cons_jac": lambda: _Mat(m, n, None, name=u.path.fresh_name("J")), "lag_hess": lambda: _Mat(n, n, None, name=u.path.fresh_name("H"))}[kind]()
        tags[id(v)] = (kind, v)
        return v

    class _Tagged:
        def __init__(self, v):
            self.tag = tags.get(id(v), (None, None))[0]

    mk = lambda kind: PyFunc(lambda it, x, *a: (evals.append((kind, x) + a), fresh_value(kind))[1], kind)
    ev = u.obj(None)
    for kind in ("obj", "obj_grad", "cons", "cons_jac", "lag_hess"):
        ev.fields[kind] = mk(kind)
    solver = u.obj("pygradflow.solver.Solver", params=params, evaluator=ev, problem=problem)
    checks = []
    u.it.abstract[DC + "deriv_check"] = lambda it, f, x, d, p: checks.append((f, x, d, p))
    x, y = u.vec("x", n), u.vec("y", m)
    u.method(solver, "_deriv_check", x, y)
    want = {"NoCheck": 0, "CheckFirst": 2, "CheckSecond": 1, "CheckAll": 3}[names[k]]
    u.ensure(len(checks) == want, f"{names[k]}:number_of_checks=={want}")
    if names[k] == "NoCheck":
        u.ensure(not evals, "NoCheck:no_evaluation_at_all")
    for (f, xx, d, p) in checks:
        u.ensure(xx is x and p is params, "checks_run_at_the_given_point_with_the_solver's_params")
    if names[k] in ("CheckFirst", "CheckAll"):
        u.ensure(_Tagged(checks[0][2]).tag == "obj_grad" and _Tagged(checks[1][2]).tag == "cons_jac", "first-order:gradient_vs_obj,Jacobian_vs_cons")
    if names[k] in ("CheckSecond", "CheckAll"):
        u.ensure(_Tagged(checks[-1][2]).tag == "lag_hess" and any(e[0] == "lag_hess" and e[1] is x and e[2] is y for e in evals), "second-order:Hessian_at(x,y)")
    # the REFERENCE FUNCTION handed to the checker is the function whose derivative is tested, evaluated at whatever
    # point the checker asks for (never frozen at x): call each one at a fresh point z and look at what it evaluates
    from pyvc.values import Mat

    def probe(f, label, want_kinds):
        z = u.vec(u.path.fresh_name("z"), n)
        before = len(evals)
        g = {"obj_grad": u.vec(u.path.fresh_name("g_z"), n), "cons_jac": Mat(m, n, None, name=u.path.fresh_name("J_z")), "obj": u.real("f_z"), "cons": u.vec(u.path.fresh_name("c_z"), m)}
        for kind in g:
            ev.fields[kind] = PyFunc((lambda kind: lambda it, xx, *a: (evals.append((kind, xx) + a), g[kind])[1])(kind), kind)
        val = u.it.call(f, [z], {})
        made = evals[before:]
        u.ensure(sorted(e[0] for e in made) == sorted(want_kinds) and all(e[1] is z for e in made), f"{label}:reference_function_evaluates_{'+'.join(want_kinds)}_at_the_point_it_is_given", desc=f"evaluations made for a fresh point z: {[(e[0], 'z' if e[1] is z else 'x' if e[1] is x else '?') for e in made]}")
        return z, g, val

    ci = 0
    if names[k] in ("CheckFirst", "CheckAll"):
        z, g, val = probe(checks[0][0], "first-order(objective)", ["obj"])
        u.ensure(val is g["obj"], "first-order(objective):reference_is_the_objective")
        z, g, val = probe(checks[1][0], "first-order(constraints)", ["cons"])
        u.ensure(val is g["cons"], "first-order(constraints):reference_is_the_constraint_function")
    if names[k] in ("CheckSecond", "CheckAll"):
        z, g, val = probe(checks[-1][0], "second-order", ["obj_grad", "cons_jac"])
        from pyvc import matmodel

        jty = V(matmodel.mtv(u.it, g["cons_jac"], y))
        vv = V(val)
        u.ensure(QAll(n, lambda j: vv.f(j) == V(g["obj_grad"]).f(j) + jty.f(j)), "second-order:reference_is_grad_f(z)+J(z)^T*y(the_Lagrangian_gradient_at_the_multiplier_given)")
    u.cover("end")


@unit("C19.acceptance(conditional)", ["C19"], [DC + "deriv_check"])
def acceptance(u):
    """correct derivatives pass - under the EXPLICIT assumption that the forward difference has a Taylor remainder
    |f(x + eps e_i)[r] - f(x)[r] - eps d[r,i]| <= M eps^2 / 2 with M eps / 2 <= deriv_tol (well-scaled smooth f; A1)"""
    eps, tol, M = u.real("eps"), u.real("deriv_tol"), u.real("M")
    fp, f0, d = u.real("f_pert"), u.real("f_0"), u.real("d_ri")
    u.assume(z3.And(eps > 0, tol > 0, M >= 0))
    u.assume(ops.zabs(fp - f0 - eps * d) <= M * eps * eps / 2)
    u.assume(M * eps / 2 <= tol)
    fd = (fp - f0) / eps
    u.ensure(ops.zabs(d - fd) <= tol + RTOL * ops.zabs(fd), "correct_entry_passes_the_column_test_under_the_Taylor_assumption")
    u.canary(ops.zabs(d - fd) <= RTOL * ops.zabs(fd), "passes_even_with_atol=0")
