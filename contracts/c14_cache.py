"""C14 - the step solvers never solve with a stale matrix or a stale factorisation.

Every step solver caches its assembled system (`deriv` / `_deriv`) and the factorisation (`solver`).  Class invariant
(type-state, over ghost tags that record what an object was built from):
    deriv is None   or  deriv was assembled from the CURRENT (_jac, _hess, _active_set)
    solver is None  or  (deriv is not None and solver factorises exactly that deriv)
It is preserved by update_derivs, update_active_set and solve (REAL bodies executed), and `solver.solve` is only ever
called on a factorisation of a matrix assembled from the current derivatives and active set.  The assembly functions
themselves are seen through contracts that tag their result (their entrywise correctness: C13.*.deriv,
C14.Extended/Symmetric/Asymmetric.assembly).
"""
from __future__ import annotations

import z3

from pyvc.harness import unit
from pyvc.values import Arr, Mat, Obj, Opaque

from .common import mk_iterate, mk_params, mk_problem
from .models import _fresh_vec

SOL = "pygradflow.step.solver."
CLASSES = {
    "Standard": SOL + "standard_step_solver.StandardStepSolver",
    "Extended": SOL + "extended_step_solver.ExtendedStepSolver",
    "Symmetric": SOL + "symmetric_step_solver.SymmetricStepSolver",
    "Asymmetric": SOL + "asymmetric_step_solver.AsymmetricStepSolver",
}
DERIV_FIELD = {"Standard": "deriv", "Extended": "_deriv", "Symmetric": "_deriv", "Asymmetric": "_deriv"}


def _tagged(it, n, built_from, name="K"):
    m = Mat(n, n, None, name=it.path.fresh_name(name))
    m.built_from = built_from
    return m


def cache_unit(kind):
    q = CLASSES[kind]

    @unit(f"C14.{kind}.cache_coherence", ["C14", "C10"], [q + ".update_derivs", q + ".update_active_set", q + ".solve"] if kind == "Standard" else [q + ".update_derivs" if kind in ("Symmetric", "Asymmetric") else SOL + "scaled_step_solver.ScaledStepSolver.update_derivs", (q if kind == "Asymmetric" else SOL + "scaled_step_solver.ScaledStepSolver") + ".update_active_set", q + ".solve_scaled", SOL + "scaled_step_solver.ScaledStepSolver.reset_deriv"], config={"max_paths": 400})
    def cache(u, kind=kind):
        p = u.path
        params = mk_params(u)
        params.fields["report_rcond"] = False
        problem = mk_problem(u)
        n, m = problem.fields["__n__"], problem.fields["num_cons"]
        orig = mk_iterate(u, problem, params, "orig", in_box=True)
        dt, rho = u.real("dt"), u.real("rho")
        u.assume(dt > 0)
        u.assume(rho > 0)
        A = u.it.abstract
        A["pygradflow.implicit_func.ScaledImplicitFunc.__init__"] = lambda it, s, pr, i, d: None
        A["pygradflow.implicit_func.ImplicitFunc.__init__"] = lambda it, s, pr, i, d: None
        ss = u.construct(q, problem, params, orig, dt, rho)
        F = ss.fields
        dfield = DERIV_FIELD[kind]
        current = lambda: (F["_jac"], F["_hess"], F["_active_set"])
        N = n + m
        # ---- tagging contracts of the assembly functions and of the factorisation
        if kind == "Standard":
            A["pygradflow.implicit_func.ImplicitFunc.deriv"] = lambda it, s, jac, hess, aset: _tagged(it, N, (jac, hess, aset))
            A["pygradflow.implicit_func.ImplicitFunc.value_at"] = lambda it, s, iterate, r, aset=None: _fresh_vec(it, "F", N)
            F["_func"] = u.obj("pygradflow.implicit_func.ImplicitFunc")
        elif kind == "Extended":
            def compute(it, s):
                s.fields["_deriv"] = _tagged(it, N, (s.fields["_jac"], s.fields["_hess"], s.fields["_active_set"]))

            A[q + "._compute_deriv"] = compute
        elif kind == "Symmetric":
            def hess_jac(it, s):
                hr = Mat(n, n, None, name=it.path.fresh_name("hess_rows"))
                hr.built_from = (s.fields["_hess"], s.fields["_active_set"])
                s.fields["hess_rows"] = hr

            A[q + ".compute_hess_jac"] = hess_jac
            A[q + "._compute_deriv"] = lambda it, s, aset: _tagged(it, N, (s.fields["_jac"], s.fields["hess_rows"].built_from[0] if s.fields.get("hess_rows") is not None else None, aset if s.fields.get("hess_rows") is None or s.fields["hess_rows"].built_from[1] is aset else "mixed"))
            A[q + ".compute_rhs"] = lambda it, s, ai, b0, b1, b2t: _fresh_vec(it, "rhs", b1.n + m)
        else:
            A[q + ".compute_deriv"] = lambda it, s, aset: _tagged(it, N, (s.fields["_jac"], s.fields["_hess"], aset))
            A[q + ".compute_rhs"] = lambda it, s, b0, b1, b2t: _fresh_vec(it, "rhs", N)
            A[q + ".initial_sol"] = lambda it, s, b0, b1, b2t: Opaque("initial_sol")
        solves = []

        def mk_solver(it, s, mat):
            return u.obj("pygradflow.linear_solver.lu_solver.LUSolver", mat=mat, for_matrix=mat)

        def lin_solve(it, s, rhs, trans=False, initial_sol=None):
            solves.append(s)
            return _fresh_vec(it, "sol", rhs.n)

        A[SOL + "step_solver.StepSolver.linear_solver"] = mk_solver
        A[q + ".linear_solver"] = mk_solver
        A["pygradflow.linear_solver.lu_solver.LUSolver.solve"] = lin_solve
        # ---- an arbitrary state satisfying the invariant
        J0, H0 = Mat(m, n, None, name="J0", fmt="csc"), Mat(n, n, None, name="H0")
        a0 = u.vec("active0", n, kind="bool")
        F["_jac"], F["_hess"], F["_active_set"] = J0, H0, a0
        state = p.choose_n(3, "cache state: empty / matrix only / matrix and factorisation")
        if state == 0:
            F[dfield], F["solver"] = None, None
        else:
            F[dfield] = _tagged(u.it, N, current())
            F["solver"] = None if state == 1 else u.obj("pygradflow.linear_solver.lu_solver.LUSolver", mat=F[dfield], for_matrix=F[dfield])
        if kind == "Symmetric":
            if state == 0:
                F["hess_rows"] = None
            else:
                hr = Mat(n, n, None, name="hess_rows0")
                hr.built_from = (H0, a0)
                F["hess_rows"] = hr

        def coherent(label):
            d, s = F.get(dfield), F.get("solver")
            cj, ch, ca = current()
            ok_d = d is None or (getattr(d, "built_from", None) is not None and d.built_from[0] is cj and d.built_from[1] is ch and d.built_from[2] is ca)
            u.ensure(ok_d, f"{label}:cached_matrix_is_None_or_assembled_from_the_current_jac,hess,active_set", desc=f"deriv built from {[getattr(x, 'name', x) for x in getattr(d, 'built_from', ())] if d is not None else None}")
            u.ensure(s is None or (d is not None and s.fields.get("for_matrix") is d), f"{label}:cached_factorisation_is_None_or_of_the_cached_matrix")

        op = p.choose_n(3, "operation: update_derivs / update_active_set / solve")
        if op == 0:
            it2 = mk_iterate(u, problem, params, "it2", in_box=True)
            J2, H2 = Mat(m, n, None, name="J2", fmt="csc"), Mat(n, n, None, name="H2")
            A["pygradflow.iterate.Iterate.aug_lag_deriv_xy"] = lambda it, s: J2
            A["pygradflow.iterate.Iterate.aug_lag_deriv_xx"] = lambda it, s, r: H2
            A["pygradflow.iterate.Iterate.lag_hess"] = lambda it, s, y: H2
            u.method(ss, "update_derivs", it2)
            u.ensure(F["_jac"] is not J0 and F["_hess"] is not H0, "update_derivs:replaces_the_stored_derivatives")
            coherent("update_derivs")
        elif op == 1:
            a2 = u.vec("active2", n, kind="bool")
            u.method(ss, "update_active_set", a2)
            u.ensure(F["_active_set"] is not a0, "update_active_set:replaces_the_stored_active_set")
            coherent("update_active_set")
        else:
            cur = mk_iterate(u, problem, params, "cur", in_box=True)
            if kind == "Standard":
                u.method(ss, "solve", cur)
            else:
                na = u.int("nact")
                u.assume(z3.And(na >= 0, na <= n))
                b0, b1, b2t = _fresh_vec(u.it, "b0", na), _fresh_vec(u.it, "b1", n - na), _fresh_vec(u.it, "b2t", m)
                if kind == "Symmetric":
                    from .c07_step_solvers import _fresh_int_vec

                    calls = []

                    def where(it, c, *r):
                        calls.append(1)
                        return (_fresh_int_vec(it, "idx", na if len(calls) % 2 == 1 else n - na),)

                    u.it.lib["numpy.where"] = where
                    u.it.hooks["opaque_setitem"] = True
                u.method(ss, "solve_scaled", b0, b1, b2t)
            coherent("solve")
            u.ensure(len(solves) == 1, "solve:exactly_one_linear_solve")
            if solves:
                fm = solves[0].fields.get("for_matrix")
                cj, ch, ca = current()
                u.ensure(fm is not None and getattr(fm, "built_from", None) is not None and fm.built_from[0] is cj and fm.built_from[1] is ch and fm.built_from[2] is ca, "solve:the_system_solved_was_assembled_from_the_current_jac,hess,active_set")
        u.cover("end")

    return cache


for _k in CLASSES:
    cache_unit(_k)
