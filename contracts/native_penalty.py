"""Native bounded checks for C18 / C16 at the policy level (stand-in when filter_insert is rewritten with constructs
outside the symbolic subset, and replay driver for the list contracts)."""
from __future__ import annotations

import itertools

import numpy as np

from pyvc.native import native, result, use_repo


class _It:
    def __init__(self, obj, viol, y=None):
        self.obj = obj
        self.cons_violation = viol
        self.y = np.array([0.0]) if y is None else y


def _dom(a, b):
    return a[0] <= b[0] and a[1] <= b[1]


@native("native.c18.filter", ["C18", "C16"])
def filter_sequences(tier="quick", seed=0, only=None):
    """bounded, exhaustive: every sequence of length <= L over a G x G grid of (objective, violation) pairs (ties and
    duplicates included) through the real ObjectivePenaltyFilter.update, compared with a reference Pareto-front model"""
    use_repo()
    from pygradflow.params import Params
    from pygradflow.penalty import ObjectivePenaltyFilter

    class P:
        num_cons = 1
        var_bounded = False

    G, L = (3, 4) if tier == "quick" else (3, 5)
    pts = [(float(a), float(b)) for a in range(G) for b in range(G)]
    failures, cases = [], 0
    for n in range(1, L + 1):
        for seq in itertools.product(pts, repeat=n):
            if only is not None and list(map(list, seq)) != only.get("sequence"):
                continue
            f = ObjectivePenaltyFilter(P(), Params(rho=1.0))
            ref = []
            rho = 1.0
            cases += 1
            prev = _It(1.0, 1.0)  # the start point (never offered to the filter)
            for step, e in enumerate(seq):
                cur = _It(e[0], e[1])
                res = f.update(prev, cur)
                dominated = any(_dom(o, e) for o in ref)
                exp_entries = ref if dominated else [o for o in ref if not _dom(e, o)] + [e]
                exp_rho = rho * 10.0 if dominated else rho
                got_entries = [tuple(map(float, x)) for x in f.entries]
                bad = None
                if res.accept != (not dominated):
                    bad = "refused_exactly_when_some_stored_entry_is_at_least_as_good"
                elif got_entries != exp_entries:
                    bad = "entries==old_minus_dominated_plus_new(order,multiplicity)"
                elif res.next_rho != exp_rho or f.rho != exp_rho:
                    bad = "refused=>rho*10,accepted=>rho_unchanged"
                elif any(i != j and _dom(a, b) for i, a in enumerate(got_entries) for j, b in enumerate(got_entries)):
                    bad = "entries_pairwise_non-dominated"
                if bad:
                    if not any(x["label"] == "C18:" + bad for x in failures):
                        failures.append(dict(label="C18:" + bad, input=dict(sequence=[list(x) for x in seq], step=step), observed=dict(entries=got_entries, accept=bool(res.accept), rho=float(f.rho))))
                    break
                ref, rho = exp_entries, exp_rho
                if res.accept:
                    prev = cur
    return result(cases, failures, f"all sequences of length <= {L} over a {G}x{G} grid ({cases} sequences), exhaustive")


@native("native.c16.policies", ["C16"])
def policies(tier="quick", seed=0, only=None):
    """bounded: random (rho, y, c) through the real update of every policy: next_rho >= rho > 0, Constant unchanged,
    DualNorm bounds"""
    use_repo()
    import scipy.sparse as sp
    from pygradflow.params import Params, PenaltyUpdate
    from pygradflow.penalty import penalty_strategy

    class P:
        num_cons = 2
        var_bounded = False

    class It:
        def __init__(self, rng):
            self.y = rng.normal(size=2) * np.exp2(rng.integers(-8, 9))
            self.cons = rng.normal(size=2) * np.exp2(rng.integers(-8, 9))
            self.obj = float(rng.normal())
            self.obj_grad = rng.normal(size=3)
            self.cons_jac = sp.coo_matrix(rng.normal(size=(2, 3)))
            self.cons_violation = float(np.linalg.norm(self.cons, np.inf))

        def aug_lag_deriv_x(self, rho):
            return self.obj_grad + self.cons_jac.T.dot(rho * self.cons + self.y)

        def aug_lag_deriv_y(self):
            return self.cons

    rng = np.random.default_rng(99 + seed)
    failures, cases = [], 0
    N = 300 if tier == "quick" else 5000
    for pu in PenaltyUpdate:
        for _ in range(N):
            rho0 = float(np.exp2(rng.integers(-20, 10)))
            params = Params(rho=rho0, penalty_update=pu)
            s = penalty_strategy(P(), params)
            it0 = It(rng)
            r = s.initial(it0)
            cases += 1
            cur = r
            for step in range(3):
                nxt = It(rng)
                try:
                    res = s.update(it0, nxt)
                except AssertionError as e:
                    failures.append(dict(label=f"C16:{pu.name}:internal_assert", input=dict(rho=rho0), observed=str(e)))
                    break
                lab = None
                if not (res.next_rho >= cur > 0):
                    lab = "next_rho>=rho>0"
                elif pu == PenaltyUpdate.Constant and res.next_rho != rho0:
                    lab = "constant_unchanged"
                elif pu == PenaltyUpdate.DualNorm and not (res.next_rho <= max(cur, float(np.linalg.norm(nxt.y, np.inf))) and res.next_rho <= 10 * cur):
                    lab = "dualnorm_bounds"
                if lab and not any(f["label"] == f"C16:{pu.name}:{lab}" for f in failures):
                    failures.append(dict(label=f"C16:{pu.name}:{lab}", input=dict(rho=cur, y=nxt.y.tolist()), observed=float(res.next_rho)))
                cur = res.next_rho
    return result(cases, failures, f"{N} random draws per policy, rho in 2^-20..2^9")
