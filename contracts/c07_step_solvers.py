"""C07 - exception flow of the step solvers and Newton methods:  raises_only {StepSolverError, EvalError}.

Fault model: `self.linear_solver(mat)` (factorisation) and `LinearSolver.solve` may raise LinearSolverError at ANY
call; evaluations inside `func.value_at` / `update_derivs` may raise EvalError.  The matrix / right-hand-side
assembly helpers are seen through the frame contract "contains no call that can fault" which is itself an
obligation checked on their AST (no_fault_calls).
"""
from __future__ import annotations

import ast

import z3

from pyvc import ops
from pyvc.harness import unit
from pyvc.values import Arr, ExcVal, Mat, Obj, Opaque, PyRaise

from .common import mk_iterate, mk_params, mk_problem
from .models import _fresh_vec, eval_error

SOL = "pygradflow.step.solver."
LSE = "pygradflow.linear_solver.linear_solver.LinearSolverError"
SSE = "pygradflow.step.step_solver_error.StepSolverError"

FAULTY_CALLS = {"linear_solver", "solve", "estimate_rcond", "value_at", "deriv_at", "update_derivs", "aug_lag_deriv_xx", "aug_lag_deriv_xy", "aug_lag_deriv_x", "lag_hess", "num_neg_eigvals", "_solve_active_set", "_solve_deriv", "solve_scaled"}


def no_fault_calls(u, qualname):
    """frame obligation: the helper contains no call that can raise LinearSolverError / EvalError"""
    f = u.func(qualname)
    bad = []
    for n in ast.walk(f.node):
        if isinstance(n, ast.Call):
            nm = n.func.attr if isinstance(n.func, ast.Attribute) else (n.func.id if isinstance(n.func, ast.Name) else None)
            if nm in FAULTY_CALLS:
                bad.append(f"{nm}@{n.lineno}")
        if isinstance(n, ast.Attribute) and n.attr in ("obj", "obj_grad", "cons", "cons_jac") and isinstance(n.ctx, ast.Load) and isinstance(n.value, ast.Name) and n.value.id in ("iterate", "next_iterate"):
            bad.append(f"{n.attr}@{n.lineno}")
    u.ensure(not bad, f"no_fault_calls:{qualname.split('.')[-2]}.{qualname.split('.')[-1]}", desc=f"{qualname} contains possibly faulting call(s) {bad}")
    return lambda it, *a, **k: Opaque("assembled")


def lin_solver_models(u, log):
    """linear_solver(mat) factory and LinearSolver.solve: may raise LinearSolverError at any call"""

    def mk_solver(it, self_, mat):
        log.append("fact")
        if it.path.choose("factorisation raises LinearSolverError"):
            raise PyRaise(ExcVal(it.repo.lookup(LSE), ("factorisation failed",)), origin="linear_solver(...)")
        return u.obj("pygradflow.linear_solver.lu_solver.LUSolver", mat=mat, symmetric=False)

    def solve(it, self_, rhs, trans=False, initial_sol=None):
        log.append("solve")
        if it.path.choose("linear solve raises LinearSolverError"):
            raise PyRaise(ExcVal(it.repo.lookup(LSE), ("solve failed",)), origin="LinearSolver.solve")
        return _fresh_vec(it, "sol", rhs.n if isinstance(rhs, Arr) else ops.scalar_bin("+", u._n, u._m))  # size of the right-hand side

    return mk_solver, solve


def setup(u, cls_qual, report_rcond=None):
    params = mk_params(u)
    if report_rcond is None:
        report_rcond = u.path.choose("report_rcond")
    params.fields["report_rcond"] = report_rcond
    problem = mk_problem(u)
    u._n, u._m = problem.fields["__n__"], problem.fields["num_cons"]
    orig = mk_iterate(u, problem, params, "orig", in_box=True)
    dt, rho = u.real("dt"), u.real("rho")
    u.assume(dt > 0)
    u.assume(rho > 0)
    A = u.it.abstract
    log = []
    mk_solver, solve = lin_solver_models(u, log)
    A[SOL + "step_solver.StepSolver.linear_solver"] = mk_solver
    A[SOL + "symmetric_step_solver.SymmetricStepSolver.linear_solver"] = mk_solver
    A["pygradflow.linear_solver.lu_solver.LUSolver.solve"] = solve

    def value_at(it, self_, iterate_, rho_, active_set=None):
        if it.path.choose("value_at raises EvalError"):
            raise PyRaise(eval_error(it), origin="func.value_at")
        return _fresh_vec(it, "F", ops.scalar_bin("+", u._n, u._m))

    A["pygradflow.implicit_func.ImplicitFunc.value_at"] = value_at
    A["pygradflow.implicit_func.ScaledImplicitFunc.value_at"] = value_at
    A["pygradflow.implicit_func.ScaledImplicitFunc.__init__"] = lambda it, self_, problem_, iterate_, dt_: None
    A["pygradflow.implicit_func.ImplicitFunc.deriv"] = lambda it, *a, **k: Mat(ops.scalar_bin("+", u._n, u._m), ops.scalar_bin("+", u._n, u._m), None, name=it.path.fresh_name("D"))

    # condition estimate: its solves may fail; the assertion inside is outside the claim (spectral fact)
    def est_rcond(it, self_):
        log.append("rcond")
        if it.path.choose("rcond estimate raises LinearSolverError"):
            raise PyRaise(ExcVal(it.repo.lookup(LSE), ("solve failed in condition estimate",)), origin="ConditionEstimator.estimate_rcond")
        return it.path.real("rcond")

    A["pygradflow.step.cond_estimate.ConditionEstimator"] = lambda it, mat, solver, params_, *a, **k: u.obj("pygradflow.step.cond_estimate.ConditionEstimator", mat=mat)
    A["pygradflow.step.cond_estimate.ConditionEstimator.estimate_rcond"] = est_rcond
    ss = u.construct(cls_qual, problem, params, orig, dt, rho)
    # derivatives / active set already handed over (update_* are covered by C14 units)
    ss.fields["_active_set"] = u.vec("active_set", u._n, kind="bool")
    ss.fields["_jac"] = Mat(u._m, u._n, None, name="J")
    ss.fields["_hess"] = Mat(u._n, u._n, None, name="H")
    cur = orig if u.path.choose("solve at orig iterate") else mk_iterate(u, problem, params, "cur", in_box=True)
    return params, problem, ss, cur, log


def check(u, ss, cur):
    kind, val = u.raised(lambda: u.method(ss, "solve", cur))
    if kind == "raise":
        nm = val.exc.name()
        u.ensure(nm in ("StepSolverError", "EvalError"), "raises_only{StepSolverError,EvalError}", desc=f"escaping {val.exc!r} raised at {val.origin}")
        if nm == "StepSolverError":
            u.ensure(val.exc.cause is not None and val.exc.cause.name() == "LinearSolverError", "StepSolverError_wraps_the_LinearSolverError")
    else:
        u.ensure(val.cls.name == "StepResult" and val.fields["orig_iterate"] is cur, "returns_StepResult_for_the_given_iterate")
    u.cover("end")


@unit("C07.Standard.solve", ["C07", "C06", "C09"], [SOL + "standard_step_solver.StandardStepSolver.solve", SOL + "standard_step_solver.StandardStepSolver._compute_deriv", SOL + "step_solver.StepSolver.estimate_rcond", SOL + "standard_step_solver.StandardStepSolver.__init__"], config={"max_paths": 800})
def standard_solve(u):
    params, problem, ss, cur, log = setup(u, SOL + "standard_step_solver.StandardStepSolver")
    ss.fields["deriv"] = None
    ss.fields["solver"] = None
    check(u, ss, cur)


def scaled_setup(u, qual, helpers):
    params, problem, ss, cur, log = setup(u, qual)
    A = u.it.abstract
    n, m = u._n, u._m

    def initial_rhs(it, self_, iterate_):
        # value_at inside may raise EvalError
        A["pygradflow.implicit_func.ScaledImplicitFunc.value_at"](it, None, iterate_, None)
        na, ni = it.path.int("nact"), it.path.int("ninact")
        it.path.assume(z3.And(na >= 0, ni >= 0, na + ni == n))  # active / inactive indices partition the variables
        u._na, u._ni = na, ni
        return (_fresh_vec(it, "b0", na), _fresh_vec(it, "b1", ni), _fresh_vec(it, "b2", m))

    A[SOL + "scaled_step_solver.ScaledStepSolver.initial_rhs"] = initial_rhs
    for h in helpers:
        A[h] = no_fault_calls(u, h)
    ss.fields["_func"] = Opaque("func")
    ss.fields["_deriv"] = None if u.path.choose("deriv not assembled yet") else Mat(ops.scalar_bin("+", n, m), ops.scalar_bin("+", n, m), None, name="D")
    ss.fields["solver"] = None
    return params, problem, ss, cur, log


@unit("C07.Extended.solve", ["C07", "C06", "C09"], [SOL + "extended_step_solver.ExtendedStepSolver.solve_scaled", SOL + "scaled_step_solver.ScaledStepSolver.solve", SOL + "step_solver.StepSolver.estimate_rcond"], config={"max_paths": 800})
def extended_solve(u):
    params, problem, ss, cur, log = scaled_setup(u, SOL + "extended_step_solver.ExtendedStepSolver", [SOL + "extended_step_solver.ExtendedStepSolver._compute_deriv"])
    u.it.abstract[SOL + "extended_step_solver.ExtendedStepSolver._compute_deriv"] = _assemble(u, ss, SOL + "extended_step_solver.ExtendedStepSolver._compute_deriv")
    check(u, ss, cur)


def _assemble(u, ss, qual):
    chk = no_fault_calls(u, qual)

    def f(it, self_, *a):
        n, m = u._n, u._m
        D = Mat(ops.scalar_bin("+", n, m), ops.scalar_bin("+", n, m), None, name=it.path.fresh_name("D"))
        self_.fields["_deriv"] = D
        return D

    return f


@unit("C07.Symmetric.solve", ["C07", "C06", "C09"], [SOL + "symmetric_step_solver.SymmetricStepSolver.solve_scaled", SOL + "symmetric_step_solver.SymmetricStepSolver._solve_active_set", SOL + "symmetric_step_solver.SymmetricStepSolver._solve_deriv", SOL + "scaled_step_solver.ScaledStepSolver.solve", SOL + "step_solver.StepSolver.estimate_rcond"], config={"max_paths": 1500})
def symmetric_solve(u):
    S = SOL + "symmetric_step_solver.SymmetricStepSolver."
    params, problem, ss, cur, log = scaled_setup(u, SOL + "symmetric_step_solver.SymmetricStepSolver", [S + "compute_hess_jac", S + "compute_rhs"])
    u.it.abstract[S + "_compute_deriv"] = lambda it, self_, active_set: (no_fault_calls(u, S + "_compute_deriv"), Mat(it.path.int("k"), it.path.int("k"), None, name=it.path.fresh_name("D")))[1]
    n, m = u._n, u._m
    u.it.abstract[S + "compute_rhs"] = lambda it, self_, ai, b0, b1, b2t: (no_fault_calls(u, S + "compute_rhs"), _fresh_vec(it, "rhs", ops.scalar_bin("+", b1.n, m)))[1]
    # np.where(active) / np.where(not active): index arrays partitioning the variables (sizes as in initial_rhs)
    calls = []

    def where(it, c, *r):
        calls.append(1)
        return (_fresh_int_vec(it, "idx", u._na if len(calls) % 2 == 1 else u._ni),)

    u.it.lib["numpy.where"] = where
    u.it.hooks["opaque_setitem"] = True
    # inertia correction (off by default): the factorisation may or may not report its inertia
    inertia = u.path.choose("inertia_correction")
    params.fields["inertia_correction"] = inertia
    seen = {"none": False}

    def num_neg_eigvals(it, self_):
        if it.path.choose("solver reports no inertia"):
            seen["none"] = True
            return None
        return it.path.int("num_neg_eigvals")

    u.it.abstract["pygradflow.linear_solver.lu_solver.LUSolver.num_neg_eigvals"] = num_neg_eigvals
    u.it.abstract["pygradflow.linear_solver.linear_solver.LinearSolver.num_neg_eigvals"] = num_neg_eigvals
    kind, val = u.raised(lambda: u.method(ss, "solve", cur))
    if kind == "raise" and not hasattr(val.exc.cls, "qualname"):
        # the one deliberate configuration error of this solver: inertia correction requested from a factorisation
        # that cannot provide the inertia (message-carrying, raised before any result exists)
        msg = val.exc.args[0] if val.exc.args else ""
        u.ensure(inertia and seen["none"] and val.exc.cls is Exception and isinstance(msg, str) and msg.startswith("Inertia correction requested"), "bare_Exception_only_for_inertia_correction_without_inertia", desc=f"escaping {val.exc!r} raised at {val.origin}")
        return
    if kind == "raise":
        nm = val.exc.name()
        u.ensure(nm in ("StepSolverError", "EvalError"), "raises_only{StepSolverError,EvalError}", desc=f"escaping {val.exc!r} raised at {val.origin}")
        if nm == "StepSolverError":
            u.ensure(val.exc.cause is not None and val.exc.cause.name() == "LinearSolverError", "StepSolverError_wraps_the_LinearSolverError")
    else:
        u.ensure(val.cls.name == "StepResult" and val.fields["orig_iterate"] is cur, "returns_StepResult_for_the_given_iterate")
    u.cover("end")


def _fresh_int_vec(it, name, k):
    from pyvc.values import Vec

    A = z3.Array(it.path.fresh_name(name), z3.IntSort(), z3.IntSort())
    v = Vec(k, lambda i: z3.Select(A, i), "int", arr=A)
    v.inverse = (lambda j: z3.BoolVal(False), lambda j: j)
    return Arr.new(v)


@unit("C07.Asymmetric.solve", ["C07", "C06", "C09"], [SOL + "asymmetric_step_solver.AsymmetricStepSolver.solve_scaled", SOL + "scaled_step_solver.ScaledStepSolver.solve", SOL + "step_solver.StepSolver.estimate_rcond"], config={"max_paths": 1500})
def asymmetric_solve(u):
    S = SOL + "asymmetric_step_solver.AsymmetricStepSolver."
    params, problem, ss, cur, log = scaled_setup(u, SOL + "asymmetric_step_solver.AsymmetricStepSolver", [S + "compute_rhs", S + "initial_sol"])
    u.it.abstract[S + "compute_deriv"] = lambda it, self_, active_set: (no_fault_calls(u, S + "compute_deriv"), Mat(1, 1, None, name=it.path.fresh_name("D")))[1]
    check(u, ss, cur)


@unit("C07.newton_steps", ["C07", "C15", "C14"], ["pygradflow.step.newton_control.NewtonController.newton_steps", "pygradflow.step.newton_control.NewtonController.compute_tau"], config={"max_paths": 300})
def newton_steps(u):
    """the generator hands out method.step(orig), method.step(previous result), ... and lets only the method's own
    exceptions through (at any position)"""
    params = mk_params(u)
    problem = mk_problem(u)
    ctrl = u.construct("pygradflow.step.fixed_control.FixedStepSizeController", problem, params)
    orig = mk_iterate(u, problem, params, "orig", in_box=True)
    rho, dt = u.real("rho"), u.real("dt")
    u.assume(rho > 0)
    u.assume(dt > 0)
    calls = []

    def newton_method(it, problem_, params_, iterate_, dt_, rho_, tau=None):
        calls.append(("make", iterate_, dt_, rho_, tau))
        return u.obj("pygradflow.newton.SimplifiedNewtonMethod", orig_iterate=iterate_)

    def step(it, self_, iterate_):
        calls.append(("step", iterate_))
        c = it.path.choose_n(3, "method.step outcome")
        if c == 0:
            raise PyRaise(ExcVal(it.repo.lookup(SSE), ()), origin="method.step")
        if c == 1:
            raise PyRaise(eval_error(it), origin="method.step")
        nxt = mk_iterate(u, problem, params, f"n{len(calls)}", evaluated=False, in_box=True)
        return u.obj("pygradflow.step.solver.step_solver.StepResult", orig_iterate=iterate_, iterate=nxt)

    u.it.abstract["pygradflow.newton.newton_method"] = newton_method
    u.it.abstract["pygradflow.newton.SimplifiedNewtonMethod.step"] = step
    gen = u.method(ctrl, "newton_steps", orig, rho, dt)
    results = []
    for k in range(3):
        kind, val = u.raised(lambda: u.call(u.it.lookup("next", None) if False else __import__("pyvc.npmodel", fromlist=["BUILTINS"]).BUILTINS["next"], gen))
        if kind == "raise":
            u.ensure(val.exc.name() in ("StepSolverError", "EvalError"), "raises_only{StepSolverError,EvalError}", desc=f"escaping {val.exc!r} at {val.origin}")
            break
        results.append(val)
    steps = [c for c in calls if c[0] == "step"]
    u.ensure(calls and calls[0][0] == "make" and calls[0][1] is orig and calls[0][2] is dt and calls[0][3] is rho, "newton_method_built_once_for(orig,dt,rho)")
    u.ensure(sum(1 for c in calls if c[0] == "make") == 1, "method_built_exactly_once")
    if steps:
        u.ensure(steps[0][1] is orig, "first_step_from_orig_iterate")
    for k in range(1, len(steps)):
        u.ensure(steps[k][1] is results[k - 1].fields["iterate"], "next_step_from_previous_result")
    u.cover("end")
