"""C15 (and C07/C06 exception flow) - step-size controllers.

Base contract of StepController.step (what compute_step and Solver.solve rely on):
    raises_only {StepSolverError, EvalError}  (+ the deliberate line-search Exception of the Globalized variant,
                                               which comes out of newton_steps and is passed through)
    result.lamb > 0 ;  not result.accepted  =>  result.lamb > 1/dt
    result.iterate is the iterate of a StepResult produced by newton_steps (clipped into the box, C05)
Per controller (from the property statement):
    Exact:  accepted => || F(result.iterate) ||_2 <= newton_tol  and lamb' = (1/dt)/2 ; rejected => lamb' = 2/dt
    Distance/ResiduumRatio: rejected => lamb' = (1/dt)*lamb_inc ; accepted => lamb' > 0 (>= lamb_min in the PI branch)
    Fixed:  always accepted, lamb' = lamb_init
"""
from __future__ import annotations

import z3

from pyvc import npmodel, ops
from pyvc.harness import unit
from pyvc.npmodel import ModelGen
from pyvc.values import Arr, ExcVal, Obj, Opaque, PyRaise, Vec

from .common import mk_iterate, mk_params, mk_problem
from .models import _fresh_vec, eval_error, install_evaluator_contracts, mk_evaluator

SC = "pygradflow.step."
STEP_ERR = "pygradflow.step.step_solver_error.StepSolverError"


def setup_controller(u, qual, control_type, display_on=None):
    params = mk_params(u, step_control_type=u.enum("pygradflow.params.StepControlType", control_type))
    problem = mk_problem(u)
    ev = mk_evaluator(u, problem)
    ctrl = u.construct(qual, problem, params)
    iterate = mk_iterate(u, problem, params, "cur", in_box=True)
    iterate.fields["eval"] = ev
    rho, dt = u.real("rho"), u.real("dt")
    u.assume(rho > 0)
    u.assume(dt > 0)
    log = {"steps": [], "values": {}, "line_search_exc": False}

    def newton_steps(it, self_, orig_iterate, rho_, dt_):
        log["ns_args"] = (orig_iterate, rho_, dt_)

        def nxt(it_, k):
            c = it_.path.choose_n(3, "newton step outcome")
            if c == 0:
                raise PyRaise(ExcVal(it_.repo.lookup(STEP_ERR), ()), origin="newton_steps")
            if c == 1:
                raise PyRaise(eval_error(it_), origin="newton_steps")
            trial = mk_iterate(u, problem, params, f"trial{k}", evaluated=False, in_box=True)
            trial.fields["eval"] = ev
            diff = it_.path.real(f"diff{k}")
            it_.path.assume(diff >= 0)
            npmodel.tag_np(it_, diff)
            sr = u.obj(SC + "solver.step_solver.StepResult", orig_iterate=orig_iterate, iterate=trial, active_set=Opaque("active_set"), rcond=None, diff=diff)
            log["steps"].append(sr)
            return sr

        return ModelGen(nxt)

    def value_at(it, self_, iterate_, rho_, active_set=None):
        if it.path.choose("value_at raises EvalError"):
            raise PyRaise(eval_error(it), origin="ImplicitFunc.value_at")
        n = ops.scalar_bin("+", problem.fields["__n__"], problem.fields["num_cons"])
        v = _fresh_vec(it, "F", n)
        log["values"][id(iterate_)] = v
        return v

    def scaled_value_at(it, self_, iterate_, rho_, active_set=None):
        """ScaledImplicitFunc.value_at == (1/dt) * ImplicitFunc.value_at (definitions: C13.*.value_at)"""
        Fv = log["values"].get(id(iterate_))
        if Fv is None:
            Fv = value_at(it, self_, iterate_, rho_, active_set)
        lam_ = 1 / self_.fields["dt"]
        fv = Fv.vec()
        return Arr.new(Vec(fv.n, lambda i: lam_ * fv.f(i), "real"))

    u.it.abstract[SC + "newton_control.NewtonController.newton_steps"] = newton_steps
    u.it.abstract["pygradflow.implicit_func.ImplicitFunc.value_at"] = value_at
    u.it.abstract["pygradflow.implicit_func.ScaledImplicitFunc.value_at"] = scaled_value_at
    # the inner (per Newton step) display is an observer: display_step is seen through its contract
    # "raises nothing, writes only observer state", proved from the real code in unit C09.display_step
    if display_on is None:
        display_on = u.path.choose("inner display on")
    ctrl.fields["display"] = u.obj("pygradflow.display.Display", cols=[], interval=None, timer=None, last_state=None) if display_on else None
    log["display_calls"] = 0

    def display_step(it, self_, iteration, step):
        log["display_calls"] += 1
        return None

    u.it.abstract[SC + "step_control.StepController.display_step"] = display_step
    timer = u.construct("pygradflow.timer.Timer", params.fields["time_limit"])
    havoc_history(u, ctrl)
    return params, problem, ctrl, iterate, rho, dt, timer, log, display_on


def lamb_writers(u, ctrl):
    """(class, method) pairs of the controller's class hierarchy that store to self.lamb outside a constructor"""
    import ast as _ast

    out = []
    for c in ctrl.cls.mro():
        for m in c.methods.values():
            if m.name == "__init__":
                continue
            for n in _ast.walk(m.node):
                if isinstance(n, _ast.Attribute) and isinstance(n.ctx, _ast.Store) and n.attr == "lamb" and isinstance(n.value, _ast.Name) and n.value.id == "self":
                    out.append(f"{c.name}.{m.name}")
    return sorted(set(out))


def havoc_history(u, ctrl):
    """the controller object lives for a whole solve: whatever earlier steps left in its mutable state (cached inverse
    step size, PI controller sums / values, last residual function) must not matter for the contract of the next step"""
    F = ctrl.fields
    writers = lamb_writers(u, ctrl)
    if not writers:
        # class invariant by frame: nothing but the constructor ever stores self.lamb (Fixed controller)
        u.ensure(True, "frame:self.lamb_is_written_by_the_constructor_only")
    if "lamb" in F and writers:
        lam = u.real("ctrl_lamb_left_by_earlier_steps")
        u.assume(lam > 0)
        F["lamb"] = lam
    lc = F.get("controller")
    if isinstance(lc, Obj):
        inner = lc.fields.get("controller")
        if isinstance(inner, Obj):
            inner.fields["error_sum"] = u.real("pi_error_sum")
            inner.fields["value"] = u.real("pi_value")
    if "res_func" in F:
        F["res_func"] = Opaque("res_func of an earlier step")


def run_step(u, ctrl, iterate, rho, dt, display_on, timer):
    return u.raised(lambda: u.method(ctrl, "step", iterate, rho, dt, display_on, timer))


def check_raises(u, kind, val, allowed=("StepSolverError", "EvalError")):
    if kind == "raise":
        nm = val.exc.name()
        u.ensure(nm in allowed, f"raises_only{{StepSolverError,EvalError}}", desc=f"escaping exception {val.exc!r} raised at {val.origin}")
        return False
    return True


def when_rejected(acc, goal):
    """the goal under the hypothesis 'the verdict is rejected': the verdict may be a Python bool (the code branched on
    it) or a formula (the comparison was stored without branching) - never skip the clause because it is a formula"""
    if acc is True:
        return None
    if acc is False:
        return goal
    return z3.Implies(z3.Not(acc), goal)


def when_accepted(acc, goal):
    if acc is False:
        return None
    if acc is True:
        return goal
    return z3.Implies(acc, goal)


def base_post(u, res, dt, log, iterate):
    lam = u.get(res, "lamb")
    acc = u.get(res, "accepted")
    u.ensure(lam > 0, "result.lamb>0")
    u.ensure(isinstance(acc, bool) or z3.is_bool(acc), "accepted_is_bool")
    g = when_rejected(acc, lam > 1 / dt)
    if g is not None:
        u.ensure(g, "rejected=>lamb_strictly_larger_than_1/dt")
    it_res = u.get(res, "iterate")
    u.ensure(any(it_res is s.fields["iterate"] for s in log["steps"]), "result.iterate_is_a_newton_step_iterate(in_box)")
    u.ensure(log["ns_args"][0] is iterate and log["ns_args"][1] is not None, "newton_steps_started_from_the_given_iterate")
    # C15: "each trial uses exactly the inverse step size returned by the previous one" - the solve loop proves that
    # compute_step receives dt = 1/lamb; here: the controller builds its Newton steps with THAT dt, not with one of its own
    nd = log["ns_args"][2]
    u.ensure((nd is dt) or (not isinstance(nd, (int, float)) and z3.is_expr(nd) and nd == dt) if not isinstance(nd, (int, float)) else nd == dt, "newton_steps_use_the_step_size_the_controller_was_given")
    return lam, acc


@unit("C15.Exact.step", ["C15", "C07", "C06", "C08"], [SC + "exact_control.ExactController.step", SC + "exact_control.ExactController.__init__", SC + "step_control.StepController.display_step", "pygradflow.timer.Timer.reached_time_limit"], config={"max_paths": 2500})
def exact_step(u):
    params, problem, ctrl, iterate, rho, dt, timer, log, disp = setup_controller(u, SC + "exact_control.ExactController", "Exact")
    kind, val = run_step(u, ctrl, iterate, rho, dt, disp, timer)
    if not check_raises(u, kind, val):
        return
    lam, acc = base_post(u, val, dt, log, iterate)
    res_it = u.get(val, "iterate")
    if acc is not False:
        u.ensure(when_accepted(acc, lam == (1 / dt) / 2), "exact:accepted=>lamb==(1/dt)/2")
        F = log["values"].get(id(res_it))
        u.ensure(F is not None, "exact:accepted=>residual_of_result_iterate_was_evaluated")
        if F is not None:
            nrm = npmodel.np_norm(u.it, F)
            u.ensure(when_accepted(acc, nrm <= params.fields["newton_tol"]), "exact:accepted=>||F(result.iterate)||<=newton_tol")
    if acc is not True:
        u.ensure(when_rejected(acc, lam == 2 * (1 / dt)), "exact:rejected=>lamb==2/dt")
    u.cover("end")


@unit("C15.Exact.step.deadline", ["C08", "C15"], [SC + "exact_control.ExactController.step"], config={"max_paths": 2500})
def exact_deadline(u):
    """C08: a deadline that expires inside the Newton loop raises StepSolverError (=> unaccepted trial)."""
    params, problem, ctrl, iterate, rho, dt, timer, log, disp = setup_controller(u, SC + "exact_control.ExactController", "Exact", display_on=False)
    kind, val = run_step(u, ctrl, iterate, rho, dt, disp, timer)
    reads = u.path.ghost.get("__clock_reads__", [])
    start = timer.fields["start"]
    limit = timer.fields["time_limit"]
    if kind == "ok":
        # every clock read made by the Newton loop saw the deadline not yet reached
        for k, t in enumerate(reads[1:]):
            u.ensure(t - start < limit, f"returns=>deadline_not_reached_at_any_read")
    u.ensure(True, "ran")


@unit("C15.DistanceRatio.step", ["C15", "C07", "C06"], [SC + "distance_ratio_control.DistanceRatioController.step", SC + "distance_ratio_control.DistanceRatioController.__init__", "pygradflow.controller.LogController.update", "pygradflow.controller.Controller.update", "pygradflow.controller.LogController.__init__", "pygradflow.controller.ControllerSettings.__post_init__", SC + "step_control.StepController.display_step"], config={"max_paths": 2500})
def distance_ratio_step(u):
    params, problem, ctrl, iterate, rho, dt, timer, log, disp = setup_controller(u, SC + "distance_ratio_control.DistanceRatioController", "DistanceRatio")
    kind, val = run_step(u, ctrl, iterate, rho, dt, disp, timer)
    if not check_raises(u, kind, val):
        return
    lam, acc = base_post(u, val, dt, log, iterate)
    g = when_rejected(acc, lam == (1 / dt) * params.fields["lamb_inc"])
    if g is not None:
        u.ensure(g, "ratio:rejected=>lamb==(1/dt)*lamb_inc")
    u.cover("end")


@unit("C15.ResiduumRatio.step", ["C15", "C07", "C06"], [SC + "residuum_ratio_control.ResiduumRatioController.step", SC + "residuum_ratio_control.ResiduumRatioController.__init__", "pygradflow.controller.LogController.update", SC + "step_control.StepController.display_step"], config={"max_paths": 2500})
def residuum_ratio_step(u):
    params, problem, ctrl, iterate, rho, dt, timer, log, disp = setup_controller(u, SC + "residuum_ratio_control.ResiduumRatioController", "ResiduumRatio")
    kind, val = run_step(u, ctrl, iterate, rho, dt, disp, timer)
    if not check_raises(u, kind, val):
        return
    lam, acc = base_post(u, val, dt, log, iterate)
    g = when_rejected(acc, lam == (1 / dt) * params.fields["lamb_inc"])
    if g is not None:
        u.ensure(g, "ratio:rejected=>lamb==(1/dt)*lamb_inc")
    u.cover("end")


@unit("C15.Fixed.step", ["C15", "C07", "C06"], [SC + "fixed_control.FixedStepSizeController.step", SC + "fixed_control.FixedStepSizeController.__init__"])
def fixed_step(u):
    params, problem, ctrl, iterate, rho, dt, timer, log, disp = setup_controller(u, SC + "fixed_control.FixedStepSizeController", "Fixed")
    kind, val = run_step(u, ctrl, iterate, rho, dt, disp, timer)
    if not check_raises(u, kind, val):
        return
    lam, acc = base_post(u, val, dt, log, iterate)
    u.ensure(acc is True, "fixed:always_accepted")
    u.ensure(lam == params.fields["lamb_init"], "fixed:lamb==lamb_init")
    u.cover("end")


@unit("C15.step_controller.dispatch", ["C15", "C06"], [SC + "step_control.step_controller"])
def dispatch(u):
    params = mk_params(u)
    problem = mk_problem(u)
    expect = {"Exact": "ExactController", "Fixed": "FixedStepSizeController", "ResiduumRatio": "ResiduumRatioController", "DistanceRatio": "DistanceRatioController"}
    names = list(expect)
    k = u.path.choose_n(len(names), "controller")
    params.fields["step_control_type"] = u.enum("pygradflow.params.StepControlType", names[k])
    kind, val = u.raised(lambda: u.call(SC + "step_control.step_controller", problem, params))
    u.ensure(kind == "ok", f"dispatch:{names[k]}:no-raise")
    if kind == "ok":
        u.ensure(val.cls.name == expect[names[k]], f"dispatch:{names[k]}:class")
        u.ensure(val.fields.get("lamb") is params.fields["lamb_init"], f"dispatch:{names[k]}:lamb==lamb_init")


@unit("C09.display_step", ["C09", "C06"], [SC + "step_control.StepController.display_step", "pygradflow.display.StateData.__init__", "pygradflow.display.StateData.__getitem__", "pygradflow.display.StateData.__setitem__", "pygradflow.display.Display.row", "pygradflow.display.inner_display", "pygradflow.display.AttrColumn.content", "pygradflow.display.StateAttr.__call__"], config={"max_paths": 500})
def display_step(u):
    """observer contract of the inner display: never raises (any log level, display on or off), and writes nothing
    but the controller's display object"""
    params = mk_params(u)
    problem = mk_problem(u)
    ctrl = u.construct(SC + "fixed_control.FixedStepSizeController", problem, params)
    on = u.path.choose("inner display on")
    if on:
        ctrl.fields["display"] = u.call("pygradflow.display.inner_display", problem, params)
        ctrl.fields["res_func"] = PyFuncRaise()
    else:
        ctrl.fields["display"] = None
    before = dict(ctrl.fields)
    trial = mk_iterate(u, problem, params, "trial", evaluated=False)
    diff = u.real("diff")
    sr = u.obj(SC + "solver.step_solver.StepResult", orig_iterate=trial, iterate=trial, active_set=Opaque("active_set"), rcond=None, diff=diff)
    k = u.int("newton_iteration")
    kind, val = u.raised(lambda: u.method(ctrl, "display_step", k, sr))
    u.ensure(kind == "ok", "display_step:raises_nothing", desc=("" if kind == "ok" else f"escaping {val.exc!r} raised at {val.origin}"))
    changed = [f for f in ctrl.fields if ctrl.fields[f] is not before.get(f)]
    u.ensure(not changed, "display_step:writes_no_controller_state", desc=f"changed {changed}")
    u.cover("end")


def PyFuncRaise():
    """res_func: may raise anything (it evaluates the problem at the trial point) - the display must swallow it"""
    from pyvc.interp import PyFunc

    def f(it, *a):
        if it.path.choose("res_func raises"):
            raise PyRaise(eval_error(it), origin="res_func")
        return it.path.real("residuum")

    return PyFunc(f, "res_func")


@unit("C06.compute_tau", ["C06", "C13"], [SC + "newton_control.NewtonController.compute_tau", SC + "newton_control.NewtonController.tau_vals"], config={"max_paths": 200, "implicit_props": ["C06"]})
def compute_tau(u):
    """active-set rule: never dies from an empty reduction / failed assertion, for every ActiveSetType"""
    names = u.enum_members("pygradflow.params.ActiveSetType")
    k = u.path.choose_n(len(names), "active set type")
    params = mk_params(u, active_set_type=u.enum("pygradflow.params.ActiveSetType", names[k]))
    if names[k] == "Explicit":
        tau = u.real("active_set_tau")
        params.fields["active_set_tau"] = tau
    problem = mk_problem(u)
    # requires n >= 1: compute_tau runs inside a step computation, and the termination gate lets the loop reach one
    # only for a problem with at least one variable (proved: C02._check_terminate:no_status=>the_problem_has_at_least
    # _one_variable).  Without it `np.max(tau_vals)` of the LargestActiveSet rule is a reduction of an empty array.
    u.assume(problem.fields["__n__"] >= 1)
    ctrl = u.construct(SC + "fixed_control.FixedStepSizeController", problem, params)
    itx = mk_iterate(u, problem, params, "it", in_box=True)
    rho = u.real("rho")
    u.assume(rho > 0)
    kind, val = u.raised(lambda: u.method(ctrl, "compute_tau", itx, rho))
    u.ensure(kind == "ok", f"compute_tau:{names[k]}:raises_nothing", desc=("" if kind == "ok" else f"escaping {val.exc!r} raised at {val.origin}"))
    if kind == "ok" and val is not None and names[k] != "Explicit":
        u.ensure(val > 0 if not isinstance(val, float) else val > 0, f"compute_tau:{names[k]}:tau>0")
    u.cover("end")
