"""C04 - the internally solved problem is an exact reformulation of the user's problem (and the C11 frame
obligations on the same functions, and the C05 'slack start is a clip' clause).

Spec (change of variables x = x_s * P(-vw), f_s = f * P(ow), c_s = c * P(cw); P(k) = 2^k):
  ScaledProblem.obj(x_s) = f(x) P(ow); obj_grad[j] = g(x)[j] P(ow - vw[j]); cons[i] = c(x)[i] P(cw[i])
      cons_jac: same coordinates as J(x), data[k] P(cw[row k] - vw[col k])
      lag_hess: same coordinates as H(x, y), y = y_s P(cw - ow), data[k] P(ow - vw[row k] - vw[col k])
      bounds: var_lb P(vw), var_ub P(vw), cons_lb P(cw), cons_ub P(cw)
  Scaling.scale_* / unscale_*: mutually inverse multiplications by exact powers of two
  ConstrainedProblem (rows split by cl == cu / cl < cu): see unit docstrings   [bounded: m <= 3]
ldexp(x, w) = x * pow2(w) with ground-instantiated laws of pow2 (exact absent overflow / underflow).
"""
from __future__ import annotations

import ast

import z3

from pyvc import matmodel, npmodel, ops
from pyvc.core import QAll, UFact, Unsupported
from pyvc.harness import unit
from pyvc.npmodel import pow2_at
from pyvc.values import Arr, Mat, Obj, Opaque, Vec

from .common import mk_params, mk_problem
from .models import _fresh_vec
from .spec import V

SC = "pygradflow.scale."
FORMATS = ["coo", "csr", "csc"]


class UserProblem:
    """abstract user callbacks: log the argument, return fresh caller-owned values in the chosen sparse format"""

    def __init__(self, u, problem, fmt="coo", nnz=None):
        self.u, self.problem, self.fmt = u, problem, fmt
        self.calls = []
        self.ret = {}
        self.ret0 = {}
        n, m = problem.fields["__n__"], problem.fields["num_cons"]
        A = u.it.abstract
        P = "pygradflow.problem.Problem."

        def obj(it, self_, x):
            self.calls.append(("obj", x))
            self.ret["obj"] = it.path.real("f_user")
            return self.ret["obj"]

        def obj_grad(it, self_, x):
            self.calls.append(("obj_grad", x))
            self.ret["obj_grad"] = _fresh_vec(it, "g_user", n, region="USER")
            return self.ret["obj_grad"]

        def cons(it, self_, x):
            self.calls.append(("cons", x))
            self.ret["cons"] = _fresh_vec(it, "c_user", m, region="USER")
            self.ret0["cons"] = self.ret["cons"].vec()  # value at return time (the array may be overwritten later)
            return self.ret["cons"]

        def cons_jac(it, self_, x):
            self.calls.append(("cons_jac", x))
            self.ret["cons_jac"] = matmodel.user_matrix(it, m, n, it.path.fresh_name("J_user"), fmt=fmt, nnz=nnz)
            return self.ret["cons_jac"]

        def lag_hess(it, self_, x, y):
            self.calls.append(("lag_hess", x, y))
            self.ret["lag_hess"] = matmodel.user_matrix(it, n, n, it.path.fresh_name("H_user"), fmt=fmt, nnz=nnz)
            return self.ret["lag_hess"]

        for k, f in (("obj", obj), ("obj_grad", obj_grad), ("cons", cons), ("cons_jac", cons_jac), ("lag_hess", lag_hess)):
            A[P + k] = f


def mk_scaling(u, n, m, zero_obj=False):
    vw = u.vec("var_weights", n, kind="int", region="USER")
    cw = u.vec("cons_weights", m, kind="int", region="USER")
    ow = 0 if zero_obj else u.int("obj_weight")
    return u.obj(SC + "Scaling", var_weights=vw, cons_weights=cw, obj_weight=ow), vw, cw, ow


class StoreLog:
    """C11 frame obligations: every store is recorded with the region of the cell it reaches"""

    def __init__(self, u, label="modifies:no_store_reaches_caller-owned_data"):
        self.u = u
        self.stores = []
        self.label = label
        u.it.hooks["store"] = self.hook

    def hook(self, it, cell, frame, node, what):
        fn = frame.name if frame is not None else "lib"
        src = ast.unparse(node) if node is not None else what
        self.stores.append((cell, what, fn, src))
        # the obligation is emitted AT the store (a path may end before the function returns)
        self.u.ensure(cell.region != "USER", f"{self.label}@{fn.split('.')[-1]}", props=["C11"], desc=f"store `{src}` in {fn} reaches a caller-owned array (region USER)")

    def check(self, label=None):
        bad = [(s[2], s[3]) for s in self.stores if s[0].region == "USER"]
        self.u.ensure(not bad, (label or self.label) + "@return", props=["C11"], desc=f"store into caller-owned array: {bad[:3]}")


@unit("C04.Scaling", ["C04", "C01"], [SC + "Scaling.scale_primal", SC + "Scaling.unscale_primal", SC + "Scaling.scale_dual", SC + "Scaling.unscale_dual", SC + "Scaling.scale_bounds_dual", SC + "Scaling.unscale_bounds_dual", SC + "Scaling._dual_weights", SC + "Scaling._bound_weights"])
def scaling(u):
    p = u.path
    n, m = u.int("n"), u.int("m")
    u.assume(n >= 0)
    u.assume(m >= 0)
    sc, vw, cw, ow = mk_scaling(u, n, m)
    log = StoreLog(u)
    x, y, d = u.vec("x", n, region="USER"), u.vec("y", m, region="USER"), u.vec("d", n, region="USER")
    P = lambda e: pow2_at(u.it, e)
    vwv, cwv = V(vw), V(cw)
    xs = V(u.method(sc, "scale_primal", x))
    u.ensure(QAll(n, lambda j: xs.f(j) == V(x).f(j) * P(vwv.f(j))), "scale_primal==x*P(vw)")
    xu = V(u.method(sc, "unscale_primal", Arr.new(xs)))
    u.ensure(QAll(n, lambda j: xu.f(j) == V(x).f(j)), "unscale_primal(scale_primal(x))==x")
    ys = V(u.method(sc, "scale_dual", y))
    u.ensure(QAll(m, lambda i: ys.f(i) == V(y).f(i) * P(-(cwv.f(i) - ow))), "scale_dual==y*P(ow-cw)")
    yu = V(u.method(sc, "unscale_dual", Arr.new(ys)))
    u.ensure(QAll(m, lambda i: yu.f(i) == V(y).f(i)), "unscale_dual(scale_dual(y))==y")
    yu2 = V(u.method(sc, "unscale_dual", y))
    u.ensure(QAll(m, lambda i: yu2.f(i) == V(y).f(i) * P(cwv.f(i) - ow)), "unscale_dual==y*P(cw-ow)")
    ds = V(u.method(sc, "scale_bounds_dual", d))
    du = V(u.method(sc, "unscale_bounds_dual", Arr.new(ds)))
    u.ensure(QAll(n, lambda j: du.f(j) == V(d).f(j)), "unscale_bounds_dual(scale_bounds_dual(d))==d")
    du2 = V(u.method(sc, "unscale_bounds_dual", d))
    u.ensure(QAll(n, lambda j: du2.f(j) == V(d).f(j) * P(vwv.f(j) - ow)), "unscale_bounds_dual==d*P(vw-ow)")
    log.check()
    u.canary(QAll(n, lambda j: xs.f(j) == V(x).f(j) * P(-vwv.f(j))), "scale_primal_with_negated_weights")


def mk_scaled(u, fmt="coo", nnz=None):
    problem = mk_problem(u, name="user")
    n, m = problem.fields["__n__"], problem.fields["num_cons"]
    up = UserProblem(u, problem, fmt=fmt, nnz=nnz)
    sc, vw, cw, ow = mk_scaling(u, n, m)
    sp = u.construct(SC + "ScaledProblem", problem, sc)
    sp.fields["__n__"] = n
    return problem, up, sc, vw, cw, ow, sp


@unit("C04.ScaledProblem.init", ["C04", "C05", "C11"], [SC + "ScaledProblem.__init__", "pygradflow.problem.Problem.__init__"])
def scaled_init(u):
    problem = mk_problem(u, name="user")
    n, m = problem.fields["__n__"], problem.fields["num_cons"]
    sc, vw, cw, ow = mk_scaling(u, n, m)
    log = StoreLog(u)
    sp = u.construct(SC + "ScaledProblem", problem, sc)
    P = lambda e: pow2_at(u.it, e)
    for nm, w, k in (("var_lb", vw, n), ("var_ub", vw, n), ("cons_lb", cw, m), ("cons_ub", cw, m)):
        a, b = V(sp.fields[nm]), V(problem.fields[nm])
        wv = V(w)
        u.ensure(QAll(k, lambda j: a.f(j) == b.f(j) * P(wv.f(j))), f"{nm}==user_{nm}*P(weight)")
        u.ensure(sp.fields[nm].cell is not problem.fields[nm].cell, f"{nm}_is_a_fresh_array", props=["C11"])
    u.ensure(sp.fields["num_cons"] is m or sp.fields["num_cons"] == m, "num_cons_preserved")
    # C05: scaling maps in-box points to in-box points (monotone multiplication by P > 0)
    xs = u.vec("xs", n)
    lbs, ubs, lbu, ubu, vwv, xv = V(sp.fields["var_lb"]), V(sp.fields["var_ub"]), V(problem.fields["var_lb"]), V(problem.fields["var_ub"]), V(vw), V(xs)
    u.ensure(QAll(n, lambda j: z3.Implies(z3.And(lbs.f(j) <= xv.f(j), xv.f(j) <= ubs.f(j)), z3.And(lbu.f(j) <= xv.f(j) * P(-vwv.f(j)), xv.f(j) * P(-vwv.f(j)) <= ubu.f(j)))), "in_scaled_box=>unscaled_point_in_user_box", props=["C05"])
    log.check()


def scaled_eval_unit(fmt):
    @unit(f"C04.ScaledProblem.values[{fmt}]", ["C04", "C01", "C05", "C11"], [SC + "ScaledProblem.obj", SC + "ScaledProblem.obj_grad", SC + "ScaledProblem.cons", SC + "ScaledProblem._orig_x"])
    def values(u, fmt=fmt):
        problem, up, sc, vw, cw, ow, sp = mk_scaled(u, fmt)
        n, m = problem.fields["__n__"], problem.fields["num_cons"]
        log = StoreLog(u)
        xs = u.vec("xs", n, region="USER")
        P = lambda e: pow2_at(u.it, e)
        vwv, cwv, xv = V(vw), V(cw), V(xs)
        f = u.method(sp, "obj", xs)
        g = V(u.method(sp, "obj_grad", xs))
        c = V(u.method(sp, "cons", xs))
        for (kind, arg) in [(k[0], k[1]) for k in up.calls]:
            av = V(arg)
            u.ensure(QAll(n, lambda j: av.f(j) == xv.f(j) * P(-vwv.f(j))), f"user_{kind}_evaluated_at_x_s*P(-vw)")
        u.ensure(f == up.ret["obj"] * P(ow), "obj==f*P(ow)")
        gu, cu = V(up.ret["obj_grad"]), V(up.ret["cons"])
        u.ensure(QAll(n, lambda j: g.f(j) == gu.f(j) * P(ow - vwv.f(j))), "obj_grad[j]==g[j]*P(ow-vw[j])")
        u.ensure(QAll(m, lambda i: c.f(i) == cu.f(i) * P(cwv.f(i))), "cons[i]==c[i]*P(cw[i])")
        log.check()
        u.canary(QAll(n, lambda j: g.f(j) == gu.f(j) * P(ow + vwv.f(j))), "gradient_scaled_with_+vw")

    return values


scaled_eval_unit("coo")


class TripletLoop:
    """for k, (i, j, v) in enumerate(zip(row, col, data)): data[k] = F(i, j, v)   (in place, one entry per iteration)
    invariant(k):  forall k' < k. data[k'] == spec(k')   and   forall k' >= k. data[k'] == data0[k']"""

    def __init__(self, u, array_local, spec):
        self.u, self.name, self.spec = u, array_local, spec

    def sequence(self, it, frame, iterable):
        self.arr = frame.locals[self.name]
        self.data0 = self.arr.vec()
        return npmodel.seq_view(it, iterable)

    def _inv(self, cur, k, n):
        d0, sp = self.data0, self.spec
        return QAll(n, lambda q: z3.And(z3.Implies(q < k, cur.f(q) == sp(q)), z3.Implies(q >= k, cur.f(q) == d0.f(q))))

    def establish(self, it, frame, site, n):
        self.check_body(frame, site)
        it.path.prove(self._inv(self.arr.vec(), 0, n), f"{site}:invariant:establish", kind="invariant")

    def havoc(self, it, frame, site, k, n):
        p = it.path
        A = z3.Array(p.fresh_name(self.name + "_h"), z3.IntSort(), z3.RealSort())
        h = Vec(n, lambda q: z3.Select(A, q if not isinstance(q, int) else z3.IntVal(q)), "real", arr=A)
        self.arr.cell.val = h
        p.assume(self._inv(h, k, n))

    def preserve(self, it, frame, site, k, n):
        it.path.prove(self._inv(self.arr.vec(), k + 1, n), f"{site}:invariant:preserve", kind="invariant")

    def at_break(self, it, frame, site, k, n):
        raise Unsupported("break in triplet loop")

    def check_body(self, frame, site):
        loops = [n for n in ast.walk(frame.func.node) if isinstance(n, ast.For)]
        for lp in loops:
            for n in ast.walk(lp):
                if isinstance(n, (ast.Name, ast.Attribute, ast.Subscript)) and isinstance(getattr(n, "ctx", None), ast.Store):
                    if isinstance(n, ast.Subscript) and isinstance(n.value, ast.Name) and n.value.id == self.name:
                        continue
                    if isinstance(n, ast.Name) and any(n in ast.walk(lp.target) for _ in [0]):
                        continue
                    if isinstance(n, ast.Name):
                        continue  # loop-local temporaries
                    raise Unsupported(f"triplet loop at {site} stores to {ast.unparse(n)}")


def jac_hess_unit(fmt):
    @unit(f"C04.ScaledProblem.cons_jac[{fmt}]", ["C04", "C01", "C11"], [SC + "ScaledProblem.cons_jac"])
    def cons_jac(u, fmt=fmt):
        problem, up, sc, vw, cw, ow, sp = mk_scaled(u, fmt)
        n, m = problem.fields["__n__"], problem.fields["num_cons"]
        log = StoreLog(u)
        xs = u.vec("xs", n, region="USER")
        P = lambda e: pow2_at(u.it, e)
        vwv, cwv = V(vw), V(cw)
        holder = {}

        def spec(q):
            Ju = up.ret["cons_jac"]
            nnz, row, col, data = holder["coo0"]
            return data.f(q) * P(cwv.f(u.path.index_term(row.f(q), m)) - vwv.f(u.path.index_term(col.f(q), n)))

        def convert_hook(it, mat, how, a, k):
            return None

        loop = TripletLoop(u, "jac_data", spec)
        orig_seq = loop.sequence

        def seq(it, frame, iterable):
            Ju = up.ret["cons_jac"]
            holder["coo0"] = (Ju.coo[0], Ju.coo[1].vec(), Ju.coo[2].vec(), Ju.coo[3].vec())
            return orig_seq(it, frame, iterable)

        loop.sequence = seq
        u.it.loop_specs[SC + "ScaledProblem.cons_jac/loop#0"] = loop
        res = u.method(sp, "cons_jac", xs)
        Ju = up.ret["cons_jac"]
        nnz0, row0, col0, data0 = holder.get("coo0", (Ju.coo[0], Ju.coo[1].vec(), Ju.coo[2].vec(), Ju.coo[3].vec()))
        nnz, row, col, data = res.coo
        u.ensure(res.rows is Ju.rows and res.cols is Ju.cols, "same_shape_as_J(x)")
        u.ensure(nnz is nnz0 or nnz == nnz0, "same_number_of_stored_entries")
        u.ensure(QAll(nnz0, lambda q: z3.And(row.vec().f(q) == row0.f(q), col.vec().f(q) == col0.f(q))), "same_coordinates_as_J(x)")
        u.ensure(QAll(nnz0, lambda q: data.vec().f(q) == data0.f(q) * P(cwv.f(u.path.index_term(row0.f(q), m)) - vwv.f(u.path.index_term(col0.f(q), n)))), "data[k]==J.data[k]*P(cw[row]-vw[col])")
        av = V(up.calls[0][1])
        u.ensure(QAll(n, lambda j: av.f(j) == V(xs).f(j) * P(-vwv.f(j))), "user_cons_jac_evaluated_at_x_s*P(-vw)")
        log.check("modifies:user's_Jacobian_data_not_rescaled_in_place")
        u.cover("end")

    @unit(f"C04.ScaledProblem.lag_hess[{fmt}]", ["C04", "C11"], [SC + "ScaledProblem.lag_hess"])
    def lag_hess(u, fmt=fmt):
        problem, up, sc, vw, cw, ow, sp = mk_scaled(u, fmt)
        n, m = problem.fields["__n__"], problem.fields["num_cons"]
        log = StoreLog(u)
        xs = u.vec("xs", n, region="USER")
        ys = u.vec("ys", m, region="USER")
        P = lambda e: pow2_at(u.it, e)
        vwv, cwv = V(vw), V(cw)
        holder = {}

        def spec(q):
            nnz, row, col, data = holder["coo0"]
            return data.f(q) * P(ow - vwv.f(u.path.index_term(row.f(q), n)) - vwv.f(u.path.index_term(col.f(q), n)))

        loop = TripletLoop(u, "hess_data", spec)
        orig_seq = loop.sequence

        def seq(it, frame, iterable):
            Hu = up.ret["lag_hess"]
            holder["coo0"] = (Hu.coo[0], Hu.coo[1].vec(), Hu.coo[2].vec(), Hu.coo[3].vec())
            return orig_seq(it, frame, iterable)

        loop.sequence = seq
        u.it.loop_specs[SC + "ScaledProblem.lag_hess/loop#0"] = loop
        res = u.method(sp, "lag_hess", xs, ys)
        Hu = up.ret["lag_hess"]
        nnz0, row0, col0, data0 = holder.get("coo0", (Hu.coo[0], Hu.coo[1].vec(), Hu.coo[2].vec(), Hu.coo[3].vec()))
        nnz, row, col, data = res.coo
        u.ensure(QAll(nnz0, lambda q: z3.And(row.vec().f(q) == row0.f(q), col.vec().f(q) == col0.f(q))), "same_coordinates_as_H(x,y)")
        u.ensure(QAll(nnz0, lambda q: data.vec().f(q) == data0.f(q) * P(ow - vwv.f(u.path.index_term(row0.f(q), n)) - vwv.f(u.path.index_term(col0.f(q), n)))), "data[k]==H.data[k]*P(ow-vw[row]-vw[col])")
        _, xarg, yarg = up.calls[0]
        u.ensure(QAll(n, lambda j: V(xarg).f(j) == V(xs).f(j) * P(-vwv.f(j))), "user_lag_hess_evaluated_at_x_s*P(-vw)")
        u.ensure(QAll(m, lambda i: V(yarg).f(i) == V(ys).f(i) * P(cwv.f(i) - ow)), "user_lag_hess_multiplier==y_s*P(cw-ow)")
        log.check("modifies:user's_Hessian_data_not_rescaled_in_place")
        u.cover("end")

    return cons_jac, lag_hess


for _f in FORMATS:
    jac_hess_unit(_f)


# ----------------------------------------------------------------------------------------------------
# ConstrainedProblem: slack / offset embedding.   BOUNDED in the number of constraint rows (m <= 3, every row-kind
# pattern), unbounded in n and in all values: the loops over constraint rows are unrolled.

CP = "pygradflow.cons_problem.ConstrainedProblem."
M_BOUND = 3


def mk_constrained(u, fmt="coo", m=None):
    if m is None:
        m = u.path.choose_n(M_BOUND + 1, "number of constraints")
    inner = mk_problem(u, m=m, name="inner")
    n = inner.fields["__n__"]
    up = UserProblem(u, inner, fmt=fmt, nnz=None)
    cp = u.construct("pygradflow.cons_problem.ConstrainedProblem", inner)
    cl, cu = V(inner.fields["cons_lb"]), V(inner.fields["cons_ub"])
    is_eq = [u.it.truth(cl.f(i) == cu.f(i)) for i in range(m)]
    pos = [i for i in range(m) if not is_eq[i]]
    return inner, up, cp, n, m, cl, cu, is_eq, pos


@unit("C04.ConstrainedProblem.init[bounded m<=3]", ["C04", "C01", "C05", "C11"], [CP + "__init__", CP + "create_slacks"], config={"max_paths": 400})
def cons_init(u):
    log = StoreLog(u)
    inner, up, cp, n, m, cl, cu, is_eq, pos = mk_constrained(u)
    sp = cp.fields["slack_positions"]
    u.ensure(isinstance(sp.n, int) and sp.n == len(pos), "number_of_slacks==number_of_rows_with_cl!=cu")
    spv = V(sp)
    u.ensure(ops.zand(*[spv.f(t) == pos[t] for t in range(len(pos))]), "slack_positions==increasing_enumeration_of_inequality_rows")
    off = cp.fields["cons_offsets"]
    any_off = ops.zor(*[ops.zand(is_eq[i], cl.f(i) != 0) for i in range(m)]) if m else False
    if off is None:
        u.ensure(z3.Not(ops.zbool(any_off)) if not isinstance(any_off, bool) else (not any_off), "cons_offsets_None_only_if_all_equality_rhs_are_0")
    else:
        ov = V(off)
        u.ensure(ops.zand(*[ov.f(i) == (-cl.f(i) if is_eq[i] else 0) for i in range(m)]), "cons_offsets[i]==-cl[i]_on_equality_rows_else_0")
    k = len(pos)
    lb, ub = V(cp.fields["var_lb"]), V(cp.fields["var_ub"])
    ilb, iub = V(inner.fields["var_lb"]), V(inner.fields["var_ub"])
    u.ensure(QAll(n, lambda j: z3.And(lb.f(j) == ilb.f(j), ub.f(j) == iub.f(j))), "var_bounds[:n]==inner_var_bounds")
    u.ensure(ops.zand(*[z3.And(lb.f(n + t) == cl.f(pos[t]), ub.f(n + t) == cu.f(pos[t])) for t in range(k)]), "slack_bounds==(cl,cu)[slack_positions]")
    u.ensure((lb.n == n + k) if not isinstance(lb.n, int) else lb.n == k, "num_vars==n+num_slacks")
    u.ensure(cp.fields["num_cons"] == m, "num_cons_preserved")
    cpl, cpu = V(cp.fields["cons_lb"]), V(cp.fields["cons_ub"])
    u.ensure(ops.zand(*[z3.And(cpl.f(i) == 0, cpu.f(i) == 0) for i in range(m)]), "internal_constraints_are_equalities_c=0")
    u.cover("end")


@unit("C04.ConstrainedProblem.values[bounded m<=3]", ["C04", "C01", "C11", "C05"], [CP + "cons", CP + "obj", CP + "obj_grad", CP + "orig_vals", CP + "slack_vals"], config={"max_paths": 400})
def cons_values(u):
    inner, up, cp, n, m, cl, cu, is_eq, pos = mk_constrained(u)
    k = len(pos)
    log = StoreLog(u)
    x = u.vec("xint", n + k, region="USER")
    xv = V(x)
    c = V(u.method(cp, "cons", x))
    g = V(u.method(cp, "obj_grad", x))
    f = u.method(cp, "obj", x)
    for call in up.calls:
        av = V(call[1])
        u.ensure(QAll(n, lambda j: av.f(j) == xv.f(j)), f"inner_{call[0]}_evaluated_at_x[:n]")
        u.ensure(av.n is n or (not isinstance(av.n, int) and z3.is_true(z3.simplify(av.n == n))) or av.n == n, f"inner_{call[0]}_argument_has_length_n")
    cu_ = up.ret0["cons"]
    goals = []
    for i in range(m):
        if is_eq[i]:
            goals.append(c.f(i) == cu_.f(i) - cl.f(i))
        else:
            goals.append(c.f(i) == cu_.f(i) - xv.f(n + pos.index(i)))
    u.ensure(ops.zand(*goals) if goals else True, "cons[i]==c[i]-cl[i](equality)_or_c[i]-s[k(i)](slack)")
    gu = V(up.ret["obj_grad"])
    u.ensure(QAll(n, lambda j: g.f(j) == gu.f(j)), "obj_grad[:n]==g")
    u.ensure(ops.zand(*[g.f(n + t) == 0 for t in range(k)]) if k else True, "obj_grad[n:]==0")
    u.ensure(f is up.ret["obj"], "obj==inner_obj")
    log.check()
    u.cover("end")


@unit("C04.ConstrainedProblem.derivs[bounded m<=3]", ["C04", "C01", "C11"], [CP + "cons_jac", CP + "lag_hess"], config={"max_paths": 400})
def cons_derivs(u):
    inner, up, cp, n, m, cl, cu, is_eq, pos = mk_constrained(u)
    k = len(pos)
    log = StoreLog(u)
    x = u.vec("xint", n + k, region="USER")
    y = u.vec("y", m, region="USER")
    J = u.method(cp, "cons_jac", x)
    H = u.method(cp, "lag_hess", x, y)
    Ju, Hu = up.ret["cons_jac"], up.ret["lag_hess"]
    eJ, eH = matmodel.entry_fn(u.it, J), matmodel.entry_fn(u.it, H)
    eJu, eHu = matmodel.entry_fn(u.it, Ju), matmodel.entry_fn(u.it, Hu)
    i, j = u.int("i"), u.int("j")
    if k == 0:
        u.ensure(J is Ju and H is Hu, "no_slacks=>inner_matrices_returned_as_they_are")
    else:
        u.ensure(z3.Implies(z3.And(i >= 0, i < m, j >= 0, j < n), eJ(i, j) == eJu(i, j)), "cons_jac[:, :n]==J")
        for t in range(k):
            u.ensure(z3.Implies(z3.And(i >= 0, i < m), eJ(i, n + t) == z3.If(i == pos[t], z3.RealVal(-1), z3.RealVal(0))), f"cons_jac[:, n+{t}]==-e_pos[{t}]")
        u.ensure(z3.Implies(z3.And(i >= 0, i < n, j >= 0, j < n), eH(i, j) == eHu(i, j)), "lag_hess[:n,:n]==H")
        u.ensure(z3.Implies(z3.And(i >= 0, j >= 0, i < n + k, j < n + k, z3.Or(i >= n, j >= n)), eH(i, j) == 0), "lag_hess_zero_in_slack_rows_and_columns")
    hc = [c for c in up.calls if c[0] == "lag_hess"][0]
    u.ensure(QAll(n, lambda q: V(hc[1]).f(q) == V(x).f(q)), "inner_lag_hess_evaluated_at_x[:n]")
    u.ensure(hc[2] is y, "inner_lag_hess_multiplier_is_y")
    log.check()
    u.cover("end")


@unit("C04.ConstrainedProblem.sol[bounded m<=3]", ["C04", "C01", "C05", "C11"], [CP + "transform_sol", CP + "restore_sol"], config={"max_paths": 400})
def cons_sol(u):
    inner, up, cp, n, m, cl, cu, is_eq, pos = mk_constrained(u)
    k = len(pos)
    log = StoreLog(u)
    x0 = u.vec("x0", n, region="USER")
    y0 = u.vec("y0", m, region="USER")
    xt, yt = u.method(cp, "transform_sol", x0, y0)
    xtv = V(xt)
    u.ensure(QAll(n, lambda j: xtv.f(j) == V(x0).f(j)), "transform_sol.x[:n]==x0")
    if k and "cons" not in up.ret0:
        u.ensure(False, "starting_slacks_computed_from_c(x0)", desc="transform_sol did not evaluate the constraints although there are inequality rows")
    elif k:
        c0 = up.ret0["cons"]
        clip = lambda t, lo, hi: ops.zmin(ops.zmax(t, lo), hi)
        u.ensure(ops.zand(*[xtv.f(n + t) == clip(c0.f(pos[t]), cl.f(pos[t]), cu.f(pos[t])) for t in range(k)]), "starting_slacks==clip(c(x0)[pos],cl[pos],cu[pos])")
        u.ensure(ops.zand(*[z3.And(cl.f(pos[t]) <= xtv.f(n + t), xtv.f(n + t) <= cu.f(pos[t])) for t in range(k)]), "starting_slacks_inside_their_bounds", props=["C05", "C04"])
        u.ensure(QAll(n, lambda j: V(up.calls[0][1]).f(j) == V(x0).f(j)), "inner_cons_evaluated_at_x0")
    u.ensure(yt is y0 or V(yt) is V(y0), "transform_sol.y==y0")
    d = u.vec("dint", n + k, region="USER")
    xr, yr, dr = u.method(cp, "restore_sol", xt, yt, d)
    u.ensure(QAll(n, lambda j: V(xr).f(j) == V(x0).f(j)), "restore_sol(transform_sol(x0))==x0")
    u.ensure((V(xr).n is n) or V(xr).n == n, "restored_x_has_length_n")
    u.ensure(yr is yt, "restore_sol.y==y")
    u.ensure(QAll(n, lambda j: V(dr).f(j) == V(d).f(j)), "restore_sol.d==d[:n]")
    log.check()
    u.cover("end")


# ----------------------------------------------------------------------------------------------------
# Transformation: scale -> slack stack, start iterate, solution mapping   [bounded m <= 3]

TR = "pygradflow.transform.Transformation."


def mk_transformation(u, scaled=None, fmt="coo", mbound=M_BOUND):
    if scaled is None:
        scaled = u.path.choose("custom scaling")
    m = u.path.choose_n(mbound + 1, "number of constraints")
    user = mk_problem(u, m=m, name="user")
    n = user.fields["__n__"]
    up = UserProblem(u, user, fmt=fmt)
    params = mk_params(u)
    sc = None
    if scaled:
        sc, vw, cw, ow = mk_scaling(u, n, m)
        params.fields["scaling"] = sc
        params.fields["scaling_type"] = u.enum("pygradflow.params.ScalingType", "Custom")
    u.it.abstract["pygradflow.eval.create_evaluator"] = lambda it, problem, params_: Opaque("evaluator")
    tr = u.construct("pygradflow.transform.Transformation", user, params)
    return user, up, params, sc, tr, n, m


TR_FUNCS = [TR + "__init__", TR + "transform_sol", TR + "restore_sol", TR + "scaled_problem", TR + "trans_problem", TR + "create_transformed_iterate", SC + "create_scaling"]


@unit("C04.Transformation.sol[bounded m<=3]", ["C04", "C01", "C05", "C11", "C12"], TR_FUNCS, config={"max_paths": 1500}, tier="thorough")
def transformation_sol_thorough(u):
    transformation_sol(u, 3)


def transformation_sol(u, mbound):
    log = StoreLog(u)
    user, up, params, sc, tr, n, m = mk_transformation(u, mbound=mbound)
    P = lambda e: pow2_at(u.it, e)
    tp = tr.fields["trans_problem"]
    k = tp.fields["slack_positions"].n
    pos = [V(tp.fields["slack_positions"]).f(t) for t in range(k)]
    vw = V(sc.fields["var_weights"]) if sc else None
    cw = V(sc.fields["cons_weights"]) if sc else None
    ow = sc.fields["obj_weight"] if sc else 0
    W = (lambda j: P(vw.f(j))) if sc else (lambda j: 1)
    # start iterate: from an in-box x0 (array) or from None
    mode = u.path.choose_n(2, "x0 given / None")
    ulb, uub = V(user.fields["var_lb"]), V(user.fields["var_ub"])
    if mode == 0:
        x0 = u.vec("x0", n, region="USER")
        u.path.add_ufact(UFact(1, lambda j: z3.And(ulb.f(j) <= V(x0).f(j), V(x0).f(j) <= uub.f(j)), [(0, n)], "requires:in_box(x0)"))
        y0 = u.vec("y0", m, region="USER")
    else:
        x0, y0 = None, None
    itx = u.method(tr, "create_transformed_iterate", x0, y0)
    xi, yi = V(itx.fields["x"]), V(itx.fields["y"])
    tlb, tub = V(tp.fields["var_lb"]), V(tp.fields["var_ub"])
    u.ensure(itx.fields["problem"] is tp, "start_iterate_belongs_to_the_transformed_problem")
    u.ensure(QAll(n, lambda j: z3.And(tlb.f(j) <= xi.f(j), xi.f(j) <= tub.f(j))), "start_iterate_in_box(variables)", props=["C05"])
    u.ensure(ops.zand(*[z3.And(tlb.f(n + t) <= xi.f(n + t), xi.f(n + t) <= tub.f(n + t)) for t in range(k)]) if k else True, "start_iterate_in_box(slacks)", props=["C05"])
    if mode == 0:
        u.ensure(QAll(n, lambda j: xi.f(j) == V(x0).f(j) * W(j)), "start_x[:n]==x0*P(vw)")
        u.ensure(ops.zand(*[yi.f(i) == V(y0).f(i) * (P(ow - cw.f(i)) if sc else 1) for i in range(m)]) if m else True, "start_y==y0*P(ow-cw)")
    else:
        u.ensure(QAll(n, lambda j: xi.f(j) * (P(-vw.f(j)) if sc else 1) == ops.zmin(ops.zmax(z3.RealVal(0), ulb.f(j)), uub.f(j))), "start_x[:n]==scaled_clip(0,lb,ub)")
    # every user evaluation made so far was at an in-box point of the user's problem
    for call in up.calls:
        av = V(call[1])
        u.ensure(QAll(n, lambda j: z3.And(ulb.f(j) <= av.f(j), av.f(j) <= uub.f(j))), f"user_{call[0]}_evaluated_inside_the_user's_box", props=["C05"])
    # solution mapping back
    d = u.vec("d_int", n + k if k else n)
    xr, yr, dr = u.method(tr, "restore_sol", itx.fields["x"], itx.fields["y"], d)
    if mode == 0:
        u.ensure(QAll(n, lambda j: V(xr).f(j) == V(x0).f(j)), "restore_sol(start)==x0(exact_round_trip)")
        u.ensure(ops.zand(*[V(yr).f(i) == V(y0).f(i) for i in range(m)]) if m else True, "restore_sol(start).y==y0")
    u.ensure(QAll(n, lambda j: V(xr).f(j) == xi.f(j) * (P(-vw.f(j)) if sc else 1)), "restored_x==x_int[:n]*P(-vw)")
    u.ensure(ops.zand(*[V(yr).f(i) == yi.f(i) * (P(cw.f(i) - ow) if sc else 1) for i in range(m)]) if m else True, "restored_y==y_int*P(cw-ow)")
    u.ensure(QAll(n, lambda j: V(dr).f(j) == V(d).f(j) * (P(vw.f(j) - ow) if sc else 1)), "restored_d==d_int[:n]*P(vw-ow)")
    # returned x is inside the user's box whenever the internal point is inside the internal box
    u.ensure(QAll(n, lambda j: z3.And(ulb.f(j) <= V(xr).f(j), V(xr).f(j) <= uub.f(j))), "restored_x_inside_user_box", props=["C05", "C01"])
    log.check()
    u.cover("end")
