"""C11 on the flow-integration path: the right-hand sides the SciPy integrator calls at every stage.

Flow.rhs / aug_lag_deriv_x / aug_lag_deriv_y / neg_aug_lag_deriv_x and RestrictedFlow.rhs / residuum are executed on
an arbitrary state z = (x ; y) with an evaluator that hands out CALLER-OWNED arrays and matrices (region USER: without
scaling and slacks they are the very objects the user's callbacks returned, possibly cached).  Obligations:
    modifies: no store reaches a caller-owned array (emitted at every store site), z itself included
    values:   aug_lag_deriv_x == grad f + J^T (rho c + y)   (a fresh array),   rhs == (-that * filter ; c)
The rest of IntegrationSolver (BDF integration, events) is outside the contract reach; native.c11.caller_data runs
real IntegrationSolver solves with cached / memoised callbacks as the bounded stand-in.
"""
from __future__ import annotations

import z3

from pyvc import matmodel
from pyvc.core import QAll
from pyvc.harness import unit
from pyvc.values import Arr, Mat, Vec

from .c04_transform import StoreLog
from .common import mk_params, mk_problem
from .models import _fresh_vec, mk_evaluator
from .spec import V

INT = "pygradflow.integration."
FUNCS = [INT + "flow.Flow.rhs", INT + "flow.Flow.aug_lag_deriv_x", INT + "flow.Flow.aug_lag_deriv_y", INT + "flow.Flow.neg_aug_lag_deriv_x", INT + "flow.Flow.split_states",
         INT + "restricted_flow.RestrictedFlow.rhs", INT + "restricted_flow.RestrictedFlow.residuum", INT + "restricted_flow.RestrictedFlow.rhs_jac", INT + "flow.Flow.neg_aug_lag_deriv_xx"]


@unit("C11.Flow.frame", ["C11"], FUNCS, config={"max_paths": 400})
def flow_frame(u):
    params = mk_params(u)
    problem = mk_problem(u)
    n, m = problem.fields["__n__"], problem.fields["num_cons"]
    ev = mk_evaluator(u, problem)
    A = u.it.abstract
    EV = "pygradflow.eval.Evaluator."
    handed = {}

    def rec(kind, val):
        handed.setdefault(kind, []).append(val)
        return val

    # one caller-owned object per kind, handed out again on every call (a caching callback)
    g = _fresh_vec(u.it, "g_user", n, region="USER")
    c = _fresh_vec(u.it, "c_user", m, region="USER")
    fmt = ["coo", "csr", "csc"][u.path.choose_n(3, "sparse format of the callbacks' matrices")]
    J = matmodel.user_matrix(u.it, m, n, "J_user", fmt=fmt)
    A[EV + "obj_grad"] = lambda it, s, xx: rec("obj_grad", g)
    A[EV + "cons"] = lambda it, s, xx: rec("cons", c)
    A[EV + "cons_jac"] = lambda it, s, xx: rec("cons_jac", J)
    H = matmodel.user_matrix(u.it, n, n, "H_user", fmt=fmt)
    J0 = Vec(J.coo[0], V(J.coo[3]).f, "real")
    H0 = Vec(H.coo[0], V(H.coo[3]).f, "real")
    A[EV + "lag_hess"] = lambda it, s, xx, yy: rec("lag_hess", H)
    z = u.vec("z", n + m, region="USER")
    zv, gv, cv = V(z), V(g), V(c)
    z0 = Vec(n + m, zv.f, "real")
    g0 = Vec(n, gv.f, "real")
    c0 = Vec(m, cv.f, "real")
    flow = u.obj(INT + "flow.Flow", problem=problem, params=params, eval=ev)
    rho = u.real("rho")
    u.assume(rho >= 0)
    log = StoreLog(u)

    def convert(it, mat, how, a, k):
        # an entrywise sum (H + rho J^T J) has no triplet form in the model: its tocoo() is a FRESH triplet matrix of
        # the same shape whose values this frame unit does not need (only who owns the arrays matters here)
        if mat.coo is None and how == "tocoo":
            return matmodel.user_matrix(it, mat.rows, mat.cols, it.path.fresh_name("sum_coo"), fmt="coo", region="FRESH")
        return None

    u.it.hooks["convert"] = convert
    y = Arr.new(Vec(m, lambda i: z0.f(i + n), "real"))
    lhs = Arr.new(Vec(m, lambda i: rho * c0.f(i) + z0.f(i + n), "real"))
    j, i = u.int("j"), u.int("i")
    u.path.index_term(j, n)
    u.path.index_term(j, n + m)
    u.path.index_term(i, m)
    u.path.index_term(n + i, n + m)
    which = u.path.choose_n(6, "entry point")
    if which == 0:
        r = u.method(flow, "aug_lag_deriv_x", z, rho)
        jt = V(matmodel.mtv(u.it, J, lhs))
        ok = u.ensure(isinstance(r, Arr), "aug_lag_deriv_x:returns_an_array")
        if ok:
            u.ensure(z3.Implies(z3.And(j >= 0, j < n), V(r).f(j) == g0.f(j) + jt.f(j)), "aug_lag_deriv_x==grad_f+J^T(rho*c+y)")
            u.ensure(r.cell is not g.cell and r.cell is not z.cell, "aug_lag_deriv_x:result_is_not_the_caller's_gradient_array")
    elif which == 1:
        r = u.method(flow, "rhs", z, rho)
        jt = V(matmodel.mtv(u.it, J, lhs))
        u.ensure(z3.Implies(z3.And(j >= 0, j < n), V(r).f(j) == -(g0.f(j) + jt.f(j))), "rhs[:n]==-(grad_f+J^T(rho*c+y))")
        u.ensure(z3.Implies(z3.And(i >= 0, i < m), V(r).f(n + i) == c0.f(i)), "rhs[n:]==c")
        u.ensure(r.cell is not g.cell and r.cell is not c.cell and r.cell is not z.cell, "rhs:result_is_a_fresh_array")
    elif which == 2:
        r = u.method(flow, "aug_lag_deriv_y", z, rho)
        u.ensure(z3.Implies(z3.And(i >= 0, i < m), V(r).f(i) == c0.f(i)), "aug_lag_deriv_y==c")
    elif which == 4:
        # second-order data of the event logic: built from the Hessian / Jacobian objects of the callbacks
        r = u.method(flow, "neg_aug_lag_deriv_xx", z, rho)
        u.ensure(isinstance(r, Arr) and r.cell is not g.cell and r.cell is not c.cell and r.cell is not z.cell, "neg_aug_lag_deriv_xx:result_is_a_fresh_array")
    elif which == 5:
        filt = u.vec("filter", n, kind="bool")
        rflow = u.obj(INT + "restricted_flow.RestrictedFlow", flow=flow, problem=problem, params=params, eval=ev, filter=filt)
        r = u.method(rflow, "rhs_jac", z, rho)
        u.ensure(isinstance(r, Mat) and r is not J and r is not H and r.region != "USER", "rhs_jac:result_is_a_fresh_matrix")
    else:
        filt = u.vec("filter", n, kind="bool")
        rflow = u.obj(INT + "restricted_flow.RestrictedFlow", flow=flow, problem=problem, params=params, eval=ev, filter=filt)
        r = u.method(rflow, "rhs", z, rho)
        jt = V(matmodel.mtv(u.it, J, lhs))
        fv = V(filt)
        u.ensure(z3.Implies(z3.And(j >= 0, j < n), V(r).f(j) == z3.If(fv.f(j), -(g0.f(j) + jt.f(j)), 0)), "restricted_rhs[:n]==-(grad_f+J^T(rho*c+y))*filter")
        u.ensure(z3.Implies(z3.And(i >= 0, i < m), V(r).f(n + i) == c0.f(i)), "restricted_rhs[n:]==c")
        u.ensure(r.cell is not g.cell and r.cell is not c.cell and r.cell is not z.cell, "restricted_rhs:result_is_a_fresh_array")
    # values of everything the caller owns are what they were (the store log already forbids every store into them)
    u.ensure(z3.Implies(z3.And(j >= 0, j < n), V(g).f(j) == g0.f(j)), "caller's_gradient_array_keeps_its_values")
    u.ensure(z3.Implies(z3.And(i >= 0, i < m), V(c).f(i) == c0.f(i)), "caller's_constraint_array_keeps_its_values")
    u.ensure(z3.Implies(z3.And(j >= 0, j < n + m), V(z).f(j) == z0.f(j)), "state_vector_keeps_its_values")
    u.ensure(QAll(J.coo[0], lambda q: V(J.coo[3]).f(q) == J0.f(q)), "caller's_Jacobian_data_keeps_its_values")
    u.ensure(QAll(H.coo[0], lambda q: V(H.coo[3]).f(q) == H0.f(q)), "caller's_Hessian_data_keeps_its_values")
    log.check()
    u.cover("end")
