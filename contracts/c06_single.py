"""C06 / C05 - single precision: projections onto the bounds stay inside the bounds.

Outside assumption A4 (double precision = reals) the symbolic units say nothing; the defect repaired by 2baafdd lived
exactly there.  This module models `Precision.Single` for the ORDER facts only: rounding to float32 is an uninterpreted
function rd32 that is monotone, lands on float32 values and fixes them (no error magnitude, no overflow).  Stores into
float32 arrays and astype(float32) round.  Two links:
  * Transformation.trans_problem (real code): the internal problem's variable bounds are float32 arrays, equal to the
    rounded user / slack bounds, still ordered  -> precondition of
  * StepFunc.project_box (real code, float32 x, float32 bounds): its three assertions hold, the result is float32,
    inside the bounds on the active components and equal to x elsewhere.
With float64 bounds the second link is NOT provable (canary) - that was the defect.
"""
from __future__ import annotations

import z3

from pyvc import npmodel, ops
from pyvc.core import QAll, UFact
from pyvc.harness import unit
from pyvc.values import Arr, Opaque

from .common import mk_params, mk_problem
from .spec import V

IF = "pygradflow.implicit_func."


@unit("C06.project_box[single precision]", ["C06", "C05"], [IF + "StepFunc.project_box"], config={"max_paths": 20, "single_precision": True, "implicit_props": ["C06", "C05"]})
def project_box_single(u):
    n = u.int("n")
    u.assume(n >= 0)
    x = npmodel.f32_array(u, "x", n)
    lb, ub = npmodel.f32_array(u, "lb", n), npmodel.f32_array(u, "ub", n)
    lbv, ubv, xv = V(lb), V(ub), V(x)
    u.path.add_ufact(UFact(1, lambda j: lbv.f(j) <= ubv.f(j), [(0, n)], "requires:lb<=ub"))
    act = u.vec("active_set", n, kind="bool")
    func = u.obj(IF + "ImplicitFunc")
    p = u.method(func, "project_box", x, lb, ub, act)
    pv, av = V(p), V(act)
    u.ensure(isinstance(p, Arr) and p.dtype == "float32", "result_is_a_float32_array")
    u.ensure(QAll(n, lambda j: z3.Implies(av.f(j), z3.And(lbv.f(j) <= pv.f(j), pv.f(j) <= ubv.f(j)))), "active_components_inside_the_bounds")
    u.ensure(QAll(n, lambda j: z3.Implies(z3.Not(av.f(j)), pv.f(j) == xv.f(j))), "inactive_components_unchanged")
    u.ensure(p.cell is not x.cell, "x_itself_is_not_modified")
    # vacuity guard of the rounding model (and the defect repaired by 2baafdd): with a DOUBLE-precision bound the
    # value stored into the float32 result, rd32(clip(x, lb64, ub64)), need not respect the bound
    lb64, ub64, x0 = u.real("lb64"), u.real("ub64"), u.real("x32")
    u.assume(z3.And(lb64 <= ub64, npmodel.is32(x0)))
    stored = npmodel.rd32(u.it, ops.zmin(ops.zmax(x0, lb64), ub64))
    u.canary(lb64 <= stored, "float64_lower_bound_respected_after_rounding_the_projection_to_float32")
    u.cover("end")


@unit("C06.Transformation.bounds[single precision]", ["C06", "C05"], ["pygradflow.transform.Transformation.trans_problem", "pygradflow.params.Params.dtype"], config={"max_paths": 50, "single_precision": True, "implicit_props": ["C06", "C05"]})
def transformation_bounds_single(u):
    from .c04_slacks_general import slack_contract

    params = mk_params(u)
    single = u.path.choose("Precision.Single")
    params.fields["precision"] = u.enum("pygradflow.params.Precision", "Single" if single else "Double")
    user = mk_problem(u, name="user")
    n, m = user.fields["__n__"], user.fields["num_cons"]
    u.it.abstract["pygradflow.eval.create_evaluator"] = lambda it, problem, params_: Opaque("evaluator")
    h = slack_contract(u)
    tr = u.construct("pygradflow.transform.Transformation", user, params)
    tp = tr.fields["trans_problem"]
    lb, ub = tp.fields["var_lb"], tp.fields["var_ub"]
    want = "float32" if single else "float"
    u.ensure(lb.dtype == want and ub.dtype == want, "internal_variable_bounds_are_held_in_the_working_precision", desc=f"dtype of the internal bounds: {lb.dtype}/{ub.dtype}, working precision: {want}")
    u.ensure(lb.cell is not user.fields["var_lb"].cell and ub.cell is not user.fields["var_ub"].cell, "internal_bounds_do_not_alias_the_user's_arrays", props=["C11", "C06"])
    N = V(lb).n
    lbv, ubv = V(lb), V(ub)
    u.ensure(QAll(N, lambda j: lbv.f(j) <= ubv.f(j)), "internal_bounds_still_ordered(lb<=ub)")
    if single:
        ulb, uub = V(user.fields["var_lb"]), V(user.fields["var_ub"])
        u.ensure(QAll(n, lambda j: z3.And(npmodel.is32(lbv.f(j)), npmodel.is32(ubv.f(j)))), "internal_bounds_are_float32_values")
        u.ensure(QAll(n, lambda j: z3.And(lbv.f(j) == npmodel.rd32(u.it, ulb.f(j)), ubv.f(j) == npmodel.rd32(u.it, uub.f(j)))), "internal_bounds==user_bounds_rounded_to_float32")
    u.cover("end")


@unit("C05.StepResult[single precision]", ["C05", "C06"], ["pygradflow.step.solver.step_solver.StepResult.__init__", "pygradflow.step.solver.step_solver.StepResult._compute_xn", "pygradflow.step.solver.step_solver.StepResult.iterate"], config={"max_paths": 50, "single_precision": True, "implicit_props": ["C05", "C06"]})
def step_result_single(u):
    """the trial point of a step in single precision: xn = rd32(x - dx) snapped onto the float32 bounds is a float32
    vector inside the (working-precision) bounds, and so is the iterate built from it"""
    from .common import mk_iterate

    params = mk_params(u)
    params.fields["precision"] = u.enum("pygradflow.params.Precision", "Single")
    problem = mk_problem(u)
    n, m = problem.fields["__n__"], problem.fields["num_cons"]
    lb, ub = npmodel.f32_array(u, "lb", n), npmodel.f32_array(u, "ub", n)
    lbv, ubv = V(lb), V(ub)
    u.path.add_ufact(UFact(1, lambda j: lbv.f(j) <= ubv.f(j), [(0, n)], "requires:lb<=ub"))
    problem.fields["var_lb"], problem.fields["var_ub"] = lb, ub  # established by C06.Transformation.bounds[single precision]
    orig = mk_iterate(u, problem, params, "orig", evaluated=False)
    x = npmodel.f32_array(u, "x", n)
    orig.fields["x"] = x
    orig.fields["y"] = npmodel.f32_array(u, "y", m)
    dx, dy = npmodel.f32_array(u, "dx", n), npmodel.f32_array(u, "dy", m)
    sr = u.construct("pygradflow.step.solver.step_solver.StepResult", orig, dx, dy, None)
    xn = sr.fields["xn"]
    xv = V(xn)
    u.ensure(xn.dtype == "float32", "trial_point_is_a_float32_array")
    u.ensure(QAll(n, lambda j: z3.And(lbv.f(j) <= xv.f(j), xv.f(j) <= ubv.f(j))), "trial_point_inside_the_working-precision_bounds")
    nxt = u.get(sr, "iterate")
    nx = nxt.fields["x"]
    u.ensure(nx.dtype == "float32" and nx.cell is xn.cell or nx.dtype == "float32", "next_iterate.x_is_float32")
    u.ensure(QAll(n, lambda j: z3.And(lbv.f(j) <= V(nx).f(j), V(nx).f(j) <= ubv.f(j))), "next_iterate_inside_the_working-precision_bounds")
    u.cover("end")


@unit("C11.eval.astype", ["C11", "C05"], ["pygradflow.eval.astype"], config={"max_paths": 50, "single_precision": True})
def eval_astype(u):
    """the evaluators' dtype conversion never changes the caller's object: same dtype -> the object itself is handed
    on (no store), other dtype (single precision) -> a NEW array / matrix; nothing is stored into the caller's data"""
    from pyvc import matmodel
    from pyvc.values import Mat

    from .c04_transform import StoreLog

    n = u.int("n")
    u.assume(n >= 1)
    kind = u.path.choose_n(4, "vector / COO / CSR / CSC")
    single = u.path.choose("convert to float32")
    dt = Opaque("dtype:float32") if single else Opaque("dtype:float64")
    log = StoreLog(u)
    if kind == 0:
        a = u.vec("g_user", n, region="USER")
    else:
        fmt = ["coo", "csr", "csc"][kind - 1]
        a = matmodel.user_matrix(u.it, n, n, "J_user", fmt=fmt)
        a.region = "USER"
    r = u.call("pygradflow.eval.astype", a, dt)
    log.check()
    if not single:
        u.ensure(r is a, "same_dtype:the_object_itself_is_returned")
    else:
        u.ensure(r is not a, "other_dtype:a_new_object_is_returned")
        if kind == 0:
            u.ensure(r.cell is not a.cell and r.dtype == "float32", "other_dtype:new_float32_array")
        else:
            u.ensure(getattr(r, "region", None) != "USER", "other_dtype:new_matrix_shares_nothing_with_the_caller's")
    u.cover("end")


@unit("C05.Transformation.start[single precision]", ["C05", "C06"], ["pygradflow.transform.Transformation.create_transformed_iterate", "pygradflow.transform.Transformation.trans_problem"], config={"max_paths": 100, "single_precision": True, "implicit_props": ["C05", "C06"]})
def start_single(u):
    """single precision, no constraints rows with slacks involved in this statement: the start iterate is the user's
    in-box x0 rounded to float32, and it lies inside the working-precision bounds (rounding is monotone and the
    working bounds are the rounded user bounds)"""
    from .c04_slacks_general import SlackStartLoop, slack_contract, CP

    params = mk_params(u)
    params.fields["precision"] = u.enum("pygradflow.params.Precision", "Single")
    user = mk_problem(u, name="user")
    n, m = user.fields["__n__"], user.fields["num_cons"]
    u.it.abstract["pygradflow.eval.create_evaluator"] = lambda it, problem, params_: Opaque("evaluator")
    from .c04_transform import UserProblem

    up = UserProblem(u, user)
    h = slack_contract(u)
    u.it.loop_specs[CP + "transform_sol/loop#0"] = SlackStartLoop(u, h)
    tr = u.construct("pygradflow.transform.Transformation", user, params)
    tp = tr.fields["trans_problem"]
    ulb, uub = V(user.fields["var_lb"]), V(user.fields["var_ub"])
    x0 = u.vec("x0", n, region="USER")
    u.path.add_ufact(UFact(1, lambda j: z3.And(ulb.f(j) <= V(x0).f(j), V(x0).f(j) <= uub.f(j)), [(0, n)], "requires:in_box(x0)"))
    y0 = u.vec("y0", m, region="USER")
    itx = u.method(tr, "create_transformed_iterate", x0, y0)
    xi = itx.fields["x"]
    tlb, tub = V(tp.fields["var_lb"]), V(tp.fields["var_ub"])
    xv = V(xi)
    N = xv.n
    u.ensure(xi.dtype == "float32" and itx.fields["y"].dtype == "float32", "start_iterate_is_held_in_float32")
    u.ensure(QAll(N, lambda j: z3.And(tlb.f(j) <= xv.f(j), xv.f(j) <= tub.f(j))), "start_iterate_inside_the_working-precision_bounds(variables_and_slacks)")
    u.ensure(QAll(n, lambda j: xv.f(j) == npmodel.rd32(u.it, V(x0).f(j))), "start_x==x0_rounded_to_float32")
    u.cover("end")
