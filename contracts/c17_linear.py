"""C17 - linear solvers return the solution or fail loudly: contracts of the wrappers under ASSUMED SciPy contracts.

Assumed (listed in the evidence, exercised natively only):
    splu(A)       raises RuntimeError iff A is (structurally / exactly) singular, else a factor object F with
                  F.solve(b, trans='N'|'T') = A^-1 b / A^-T b  (backward error at rounding level)
    gmres/minres  return (x, info); info == 0  =>  ||b - A x||_2 <= max(rtol ||b||, atol)
Proved on the wrappers:
    LUSolver.__init__   raises_only {LinearSolverError}; a RuntimeError of splu is mapped to it
    LUSolver.solve      returns F.solve(rhs, trans='T' iff trans)
    GMRESSolver.solve   solves with mat.T iff trans; evaluates the initial-guess thunk exactly once; returns the
                        guess early only if ||rhs - M x0||inf < atol (M the matrix actually solved with);
                        otherwise returns gmres' vector only when info == 0, else raises LinearSolverError
    MINRESSolver        same, requires symmetric
    linear_solver()     dispatch is total on {LU, GMRES, MINRES} and passes `symmetric` on
"""
from __future__ import annotations

import z3

from pyvc import matmodel, npmodel, ops
from pyvc.core import QAll
from pyvc.harness import unit
from pyvc.interp import PyFunc
from pyvc.values import PINF, Arr, ExcVal, Mat, Obj, Opaque, PyRaise

from .common import mk_params
from .models import _fresh_vec
from .spec import V

LS = "pygradflow.linear_solver."


def mk_mat(u, name="A"):
    k = u.int("size")
    u.assume(k >= 0)
    return Mat(k, k, None, name=name), k


@unit("C17.LU", ["C17", "C07", "C14"], [LS + "lu_solver.LUSolver.__init__", LS + "lu_solver.LUSolver.solve", LS + "linear_solver.LinearSolver.__init__"])
def lu(u):
    A, k = mk_mat(u)
    A.fmt = ["coo", "csr", "csc"][u.path.choose_n(3, "sparse format of the matrix")]
    calls = []

    def splu(it, mat, **kw):
        calls.append(("splu", mat, kw))
        if it.path.choose("splu raises RuntimeError (singular)"):
            if len([c for c in calls if c[0] == "splu"]) == 1:
                it.path.ghost["__splu_failed__"] = True
            raise PyRaise(ExcVal(RuntimeError, ("Factor is exactly singular",)), origin="scipy.sparse.linalg.splu")
        f = Obj(None, {}, tag="SuperLU")
        f.fields["solve"] = PyFunc(lambda it_, rhs, trans="N": (calls.append(("solve", rhs, trans)), _fresh_vec(it_, "x", k))[1], "SuperLU.solve")
        return f

    u.it.lib["scipy.sparse.linalg.splu"] = splu
    sym = u.path.choose("symmetric=True")
    kind, val = u.raised(lambda: u.construct(LS + "lu_solver.LUSolver", A, symmetric=sym) if sym else u.construct(LS + "lu_solver.LUSolver", A))
    # the ASSUMED SuperLU contract (backward error at rounding level, RuntimeError iff singular) is the one of the
    # default threshold partial pivoting: a column-ordering choice is harmless, anything that weakens pivoting
    # (diag_pivot_thresh < 1, SymmetricMode, ILU options) is a different routine with a different guarantee
    skw = calls[0][2] if calls else {}
    thr = skw.get("diag_pivot_thresh")
    u.ensure(set(skw) <= {"permc_spec", "diag_pivot_thresh"} and (thr is None or (isinstance(thr, (int, float)) and thr >= 1.0)), "init:factorisation_called_only_with_options_the_assumed_library_contract_covers", desc=f"splu keywords {sorted(skw)}" + (f", diag_pivot_thresh={thr}" if thr is not None else ""))
    n_fact = len([c for c in calls if c[0] == "splu"])
    u.ensure(n_fact == 1, "init:exactly_one_factorisation(of_the_matrix_given)", desc=f"{n_fact} calls of splu")
    first_failed = bool(u.path.ghost.get("__splu_failed__"))
    u.ensure((kind == "raise") == first_failed, "init:LinearSolverError_iff_the_factorisation_reports_a_singular_matrix(no_silent_repair)", desc=f"factorisation failed: {first_failed}, constructor: {kind}")
    if kind == "raise":
        u.ensure(val.exc.name() == "LinearSolverError", "init:raises_only{LinearSolverError}", desc=f"escaping {val.exc!r}")
        return
    s = val
    fact = calls[0][1]
    fact_T = getattr(fact, "transposed_of", None) is A  # the factorised matrix is A^T (a legitimate choice: CSR of A is CSC of A^T)
    u.ensure(fact is A or fact_T, "init:factorises_the_given_matrix_or_its_transpose")
    rhs = u.vec("rhs", k)
    trans = u.path.choose("trans")
    x = u.method(s, "solve", rhs, trans)
    sc = [c for c in calls if c[0] == "solve"]
    u.ensure(len(sc) == 1 and sc[0][1] is rhs, "solve:one_back-substitution_with_the_given_rhs")
    u.ensure(len(sc) == 1 and sc[0][2] in ("T", "N"), "solve:trans_flag_is_'T'_or_'N'")
    # F.solve(b, 'N') = M^-1 b and F.solve(b, 'T') = M^-T b for the factorised M: the system solved is the one with
    # A^T exactly when (M is A^T) differs from (flag is 'T')
    u.ensure(len(sc) == 1 and ((sc[0][2] == "T") != fact_T) == bool(trans), "solve:solves_with_A^T_iff_trans")
    u.cover("end")


def _iter_unit(cls_mod, cls_name, lib_name, symmetric):
    @unit(f"C17.{cls_name}", ["C17", "C07", "C09", "C10", "C14"], [LS + f"{cls_mod}.{cls_name}.solve", LS + f"{cls_mod}.{cls_name}.__init__"], config={"max_paths": 100})
    def solver(u):
        A, k = mk_mat(u)
        s = u.construct(LS + f"{cls_mod}.{cls_name}", A, symmetric=True if symmetric else u.path.choose("symmetric"))
        calls = []
        info = u.int("info")

        def krylov(it, mat, rhs, **kw):
            calls.append((mat, rhs, kw))
            return (_fresh_vec(it, "sol", k), info)

        u.it.lib[f"scipy.sparse.linalg.{lib_name}"] = krylov
        rhs = u.vec("rhs", k)
        trans = u.path.choose("trans")
        thunk_calls = []
        x0 = u.vec("x0", k)
        with_guess = u.path.choose("initial guess given")
        thunk = PyFunc(lambda it_: (thunk_calls.append(1), x0)[1], "initial_sol") if with_guess else None
        kind, val = u.raised(lambda: u.method(s, "solve", rhs, trans, thunk))
        M = matmodel.transpose(u.it, A) if (trans and not symmetric) else A
        if with_guess:
            u.ensure(len(thunk_calls) == 1, "initial-guess_thunk_evaluated_exactly_once")
        if kind == "raise":
            u.ensure(val.exc.name() == "LinearSolverError", "raises_only{LinearSolverError}", desc=f"escaping {val.exc!r}")
            u.ensure(len(calls) == 1 and z3.Not(info == 0), "raises_only_when_the_iteration_reports_info!=0")
            return
        if not calls:
            # early return of the initial guess
            u.ensure(with_guess and val is x0, "early_return_only_with_a_guess,returns_the_guess")
            resid = V(matmodel.mv(u.it, M, x0))
            r = V(rhs)
            from pyvc.values import Vec

            res = Arr.new(Vec(k, lambda i: r.f(i) - resid.f(i), "real"))
            # the early return happened because the inf-norm of rhs - M x0 is below atol
            norms = [(kk, v) for kk, v in u.path.ghost.get("__norms__", {}).items() if kk[0] == "norminf"]
            ok = False
            for kk, (N, vec) in norms:
                if u.path.prove(QAll(k, lambda i: vec.f(i) == r.f(i) - resid.f(i)), f"C17.{cls_name}:early_return_residual_is_rhs-M*x0_with_the_matrix_solved_with", kind="ensures", props=["C17"]):
                    u.ensure(N < ops._real(1e-8), "early_return=>||rhs-M*x0||inf<1e-8")
                    ok = True
            u.ensure(ok or not norms, "early_return_residual_identified")
        else:
            u.ensure(len(calls) == 1, "one_iteration_call")
            mat, r2, kw = calls[0]
            u.ensure(mat is M or (getattr(mat, "transposed_of", None) is A and trans and not symmetric), "iterates_with_mat.T_iff_trans")
            u.ensure(r2 is rhs, "iterates_with_the_given_rhs")
            u.ensure((kw.get("x0") is x0) if with_guess else (kw.get("x0") is None), "passes_the_initial_guess_on")
            # the ASSUMED library contract (info == 0 => ||b - A x||_2 <= max(rtol ||b||, atol), rtol = 1e-5) is a
            # statement about the plain call: a preconditioner M, a shift, a callback-driven stop or a looser
            # tolerance changes what info == 0 means (scipy then tests the PRECONDITIONED residual), so the
            # wrapper may pass nothing but the start vector, the iteration cap and tolerances that are not looser
            # (a progress callback is an observer: it cannot change the vector returned unless it raises)
            allowed = {"x0", "maxiter", "atol", "rtol", "tol", "restart", "callback", "callback_type"} if lib_name == "gmres" else {"x0", "maxiter", "rtol", "tol", "callback", "show"}
            u.ensure(set(kw) <= allowed, "iteration_called_only_with_keywords_the_assumed_library_contract_covers", desc=f"keywords {sorted(kw)}")
            for tk, cap in (("atol", 1e-8), ("rtol", 1e-5), ("tol", 1e-5)):
                if tk in kw:
                    tv = kw[tk]
                    u.ensure(tv <= cap if isinstance(tv, (int, float)) else ops._real(tv) <= ops._real(cap), f"{tk}_not_looser_than_the_assumed_contract")
            u.ensure(info == 0, "returns_a_vector_only_when_info==0")
            # the solver object keeps no state between solves: the condition estimator's extra solves (report_rcond)
            # and earlier Newton steps must not change what a later solve computes (C09 / C10)
            n_before = len(calls)
            rhs2 = u.vec("rhs2", k)
            kind2, val2 = u.raised(lambda: u.method(s, "solve", rhs2, trans, None))
            later = calls[n_before:]
            u.ensure(len(later) == 1 and later[0][1] is rhs2 and later[0][2].get("x0") is None, "a_later_solve_without_a_guess_starts_from_the_library_default(no_state_kept_between_solves)", props=["C09", "C10", "C17"],
                     desc=f"second solve called the iteration with x0={later[0][2].get('x0') if later else None!r}")
        u.cover("end")

    return solver


_iter_unit("gmres_solver", "GMRESSolver", "gmres", False)
_iter_unit("minres_solver", "MINRESSolver", "minres", True)


@unit("C17.MINRES.requires_symmetric", ["C17", "C06"], [LS + "minres_solver.MINRESSolver.__init__"])
def minres_sym(u):
    A, k = mk_mat(u)
    u.config = {}
    kind, val = u.raised(lambda: u.construct(LS + "minres_solver.MINRESSolver", A, symmetric=True))
    u.ensure(kind == "ok", "constructs_for_symmetric_matrices")


@unit("C17.dispatch", ["C17", "C06", "C14"], ["pygradflow.step.solver.step_solver.StepSolver.linear_solver", "pygradflow.step.solver.symmetric_step_solver.SymmetricStepSolver.linear_solver"])
def dispatch(u):
    A, k = mk_mat(u)
    made = []
    for q in ("lu_solver.LUSolver", "gmres_solver.GMRESSolver", "minres_solver.MINRESSolver"):
        u.it.abstract[LS + q] = (lambda q: (lambda it, mat, symmetric=False: (made.append((q, mat, symmetric)), Obj(u.cls(LS + q), {"mat": mat, "symmetric": symmetric}))[1]))(q)
    names = ["LU", "GMRES", "MINRES"]
    t = u.path.choose_n(3, "solver type")
    sym = u.path.choose("symmetric")
    st = u.enum("pygradflow.params.LinearSolverType", names[t])
    factory = u.repo.module("pygradflow.linear_solver").functions["linear_solver"]
    kind, val = u.raised(lambda: u.call(factory, A, st, symmetric=sym))
    u.ensure(kind == "ok", f"dispatch:{names[t]}:no-raise")
    if kind == "ok":
        u.ensure(len(made) == 1 and made[0][0].endswith({"LU": "LUSolver", "GMRES": "GMRESSolver", "MINRES": "MINRESSolver"}[names[t]]), f"dispatch:{names[t]}:class")
        u.ensure(made[0][1] is A and made[0][2] is sym, f"dispatch:{names[t]}:passes_matrix_and_symmetric_flag")
    # step solvers: the symmetric formulation asks for a symmetric solver, the others for a general one
    params = mk_params(u, linear_solver_type=st)
    made.clear()
    ss = u.obj("pygradflow.step.solver.symmetric_step_solver.SymmetricStepSolver", params=params)
    u.method(ss, "linear_solver", A)
    u.ensure(made and made[0][2] is True, "SymmetricStepSolver_requests_symmetric=True")
    made.clear()
    ss2 = u.obj("pygradflow.step.solver.standard_step_solver.StandardStepSolver", params=params)
    kind2, v2 = u.raised(lambda: u.method(ss2, "linear_solver", A))
    if names[t] != "MINRES":
        u.ensure(kind2 == "ok" and made and made[0][2] is False, "other_step_solvers_request_symmetric=False")
