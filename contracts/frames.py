"""Frame / ownership / read-set / arity obligations over the real AST (C06, C08, C09, C10, C11).

These are `modifies` / `reads` clauses checked against function bodies (no arithmetic): every obligation is
re-derived from /repo's source on each run, so a new store, a new read of a limit, a new global or an ill-formed
call shows up as a new, undischarged obligation.
"""
from __future__ import annotations

import ast

from pyvc.harness import unit
from pyvc.repo import ClassInfo, FuncInfo, ModuleInfo

OUT_OF_SCOPE = ("pygradflow.runners", "pygradflow.step.box_control", "pygradflow.step.opti_control", "pygradflow.step.box_solver", "pygradflow.integration",
                "pygradflow.linear_solver.cholesky_solver", "pygradflow.linear_solver.ma57_solver", "pygradflow.linear_solver.mumps_solver", "pygradflow.linear_solver.ssids_solver")


def in_scope_functions(repo):
    out = []
    for mod in repo.all_modules():
        if mod.name.startswith(OUT_OF_SCOPE):
            continue
        for f in mod.functions.values():
            out.append(f)
        for c in mod.classes.values():
            for f in c.methods.values():
                out.append(f)
    return out


# ----------------------------------------------------------------------------------------------------
# C06 class 3: arity / keyword conformance of every intra-package call


def _sig(f: FuncInfo, bound: bool):
    a = f.node.args
    params = [p.arg for p in a.posonlyargs + a.args]
    if bound and params and not f.is_static:
        params = params[1:]
    ndef = len(a.defaults)
    required = params[: len(params) - ndef] if ndef <= len(params) else []
    kwonly = [p.arg for p in a.kwonlyargs]
    kwreq = [p.arg for p, d in zip(a.kwonlyargs, a.kw_defaults) if d is None]
    return params, required, kwonly, kwreq, a.vararg is not None, a.kwarg is not None


def _check_call(call: ast.Call, f: FuncInfo, bound: bool):
    params, required, kwonly, kwreq, var, kw = _sig(f, bound)
    if any(isinstance(x, ast.Starred) for x in call.args) or any(k.arg is None for k in call.keywords):
        return None
    npos = len(call.args)
    kws = [k.arg for k in call.keywords]
    if npos > len(params) and not var:
        return f"takes {len(params)} positional argument(s) but {npos} given"
    given = set(params[:npos]) | set(kws)
    for k in kws:
        if k not in params and k not in kwonly and not kw:
            return f"unexpected keyword argument '{k}'"
        if k in params[:npos]:
            return f"multiple values for argument '{k}'"
    missing = [p for p in required if p not in given] + [p for p in kwreq if p not in given]
    if missing:
        return f"missing required argument(s) {missing}"
    return None


def _ctor(cls: ClassInfo):
    if cls.is_dataclass or cls.is_enum:
        return None
    bb = cls.builtin_base()
    init = cls.lookup("__init__")
    return init


def arity_problems(repo):
    probs, checked = [], 0
    for f in in_scope_functions(repo):
        mod = f.module
        for n in ast.walk(f.node):
            if not isinstance(n, ast.Call):
                continue
            target, bound = None, False
            fn = n.func
            if isinstance(fn, ast.Name):
                # local names (parameters, nested defs, assignments) shadow module names
                local = {a.arg for a in ast.walk(f.node) if isinstance(a, ast.arg)} | {x.id for x in ast.walk(f.node) if isinstance(x, ast.Name) and isinstance(x.ctx, ast.Store)} | {d.name for d in ast.walk(f.node) if isinstance(d, ast.FunctionDef) and d is not f.node}
                if fn.id in local:
                    continue
                try:
                    r = mod.resolve(fn.id)
                except Exception:
                    r = None
                if isinstance(r, FuncInfo):
                    target, bound = r, False
                elif isinstance(r, ClassInfo):
                    target, bound = _ctor(r), True
            elif isinstance(fn, ast.Attribute):
                if isinstance(fn.value, ast.Name) and fn.value.id == "self" and f.cls is not None:
                    m = f.cls.lookup(fn.attr)
                    if m is not None and not m.is_property and not m.is_cached_property:
                        target, bound = m, True
                elif isinstance(fn.value, ast.Call) and isinstance(fn.value.func, ast.Name) and fn.value.func.id == "super" and f.cls is not None:
                    m = f.cls.lookup_after(f.cls, fn.attr)
                    if m is not None:
                        target, bound = m, True
                elif isinstance(fn.value, ast.Name):
                    try:
                        r = mod.resolve(fn.value.id)
                    except Exception:
                        r = None
                    if isinstance(r, ClassInfo):
                        m = r.lookup(fn.attr)
                        if m is not None:
                            target, bound = m, m.is_static is False and False
                            if not m.is_static:
                                target = None  # unbound method call through the class: not checked
            if target is None:
                continue
            checked += 1
            msg = _check_call(n, target, bound)
            if msg:
                probs.append((f.qualname, n.lineno, ast.unparse(n)[:80], target.qualname, msg))
    return probs, checked


@unit("C06.arity", ["C06", "C09"], ["pygradflow.step.step_control.StepController.display_step"])
def arity(u):
    """every statically resolvable intra-package call conforms to the callee's signature (TypeError-freedom)"""
    probs, checked = arity_problems(u.repo)
    u.ensure(checked > 300, "arity:call_sites_resolved", desc=f"only {checked} call sites could be resolved")
    seen = set()
    for q, line, src, tgt, msg in probs:
        key = f"{q}->{tgt}"
        if key in seen:
            continue
        seen.add(key)
        u.ensure(False, f"arity:{q}:call_of_{tgt.split('.')[-1]}", desc=f"{q}:{line}: `{src}` - {tgt} {msg}")
    u.ensure(not probs, "arity:all_resolved_intra-package_calls_conform", desc=f"{len(probs)} ill-formed call(s): {[p[:2] for p in probs[:3]]}")


# ----------------------------------------------------------------------------------------------------
# C10: module-level / class-level mutable state, default-argument objects, stores to params / problem


MUTABLE_NODES = (ast.List, ast.Dict, ast.Set, ast.ListComp, ast.DictComp, ast.SetComp)
ALLOWED_MODULE_STATE = {
    ("pygradflow.eval", "warn_hessian_pattern"): "warn-once flag: observational (logging only)",
    ("pygradflow.eval", "warn_hessian_values"): "warn-once flag: observational (logging only)",
    ("pygradflow.log", "logger"): "logger",
    ("pygradflow.newton", "logger"): "logger",
    ("pygradflow.solver", "header_interval"): "constant",
    ("pygradflow.step.cond_estimate", "seed"): "constant seed of the condition estimator's own generator",
    ("pygradflow.linear_solver", "__all__"): "export list (never written)",
}


# stores into attributes of objects the function did not construct itself (audited one by one)
AUDITED_FOREIGN_STORES = {
    ("pygradflow.iterate._read_only", "a.flags.writeable"),  # numpy flag, not a value (see C11)
    ("pygradflow.newton.GlobalizedNewtonMethod.step", "step_result.active_set"),  # the StepResult just returned by this step's solver
}


def _is_package_class(repo, mod, name):
    """`name` (as visible in module `mod`) is a class of the package"""
    if name in mod.classes:
        return True
    imp = mod.imports.get(name)
    if imp and imp[0] == "attr":
        m2 = repo.try_module(imp[1])
        return m2 is not None and imp[2] in m2.classes
    return False


@unit("C10.no_shared_mutable_state", ["C10"], ["pygradflow.solver.Solver.__init__"])
def shared_state(u):
    repo = u.repo
    for mod in repo.all_modules():
        if mod.name.startswith(OUT_OF_SCOPE):
            continue
        for name, node in mod.globals_.items():
            ok = (mod.name, name) in ALLOWED_MODULE_STATE or isinstance(node, ast.Constant) or (isinstance(node, ast.Call) and "TypeVar" in ast.dump(node.func))
            u.ensure(ok, f"module_global:{mod.name}.{name}", desc=f"module-level object {mod.name}.{name} = {ast.unparse(node)[:60]} is not in the audited list of constants / observational state")
        for c in mod.classes.values():
            if c.is_enum:
                continue
            for an, av in c.class_attrs.items():
                u.ensure(not isinstance(av, MUTABLE_NODES + (ast.Call,)) or c.is_dataclass, f"class_attribute:{c.qualname}.{an}", desc=f"class-level mutable attribute {c.qualname}.{an}")
        for f in list(mod.functions.values()) + [m for c in mod.classes.values() for m in c.methods.values()]:
            # local names bound (only) to the result of a constructor call of a package class: fresh objects
            binds = {}
            for n in ast.walk(f.node):
                if isinstance(n, ast.Assign) and len(n.targets) == 1 and isinstance(n.targets[0], ast.Name):
                    binds.setdefault(n.targets[0].id, []).append(n.value)
                elif isinstance(n, (ast.AugAssign, ast.AnnAssign)) and isinstance(n.target, ast.Name):
                    binds.setdefault(n.target.id, []).append(None)
                elif isinstance(n, (ast.For, ast.comprehension)) :
                    for t in ast.walk(n.target):
                        if isinstance(t, ast.Name):
                            binds.setdefault(t.id, []).append(None)
            params_ = {a.arg for a in f.node.args.args + f.node.args.kwonlyargs}
            fresh = {nm for nm, vals in binds.items() if nm not in params_ and len(vals) == 1 and isinstance(vals[0], ast.Call) and isinstance(vals[0].func, ast.Name) and _is_package_class(repo, mod, vals[0].func.id)}
            for n in ast.walk(f.node):
                if isinstance(n, (ast.Global, ast.Nonlocal)):
                    u.ensure(False, f"global_statement:{f.qualname}", desc=f"{f.qualname} rebinds {'/'.join(n.names)} with a global/nonlocal statement")
                # stores into the shared default Params / the problem / the transformation
                if isinstance(n, ast.Attribute) and isinstance(n.ctx, ast.Store):
                    base = ast.unparse(n.value)
                    if base in fresh:
                        continue  # attribute of an object constructed in this very function
                    if base != "self" and not base.startswith("self.") or base.count(".") >= 1:
                        # a store into ANOTHER object's attribute: only the audited ones
                        u.ensure((f.qualname, ast.unparse(n)) in AUDITED_FOREIGN_STORES, f"store_to_foreign_object:{f.qualname}:{ast.unparse(n)}", desc=f"{f.qualname} stores to {ast.unparse(n)}: an attribute of an object it did not construct (audited list: {sorted(AUDITED_FOREIGN_STORES)})")
                        continue
                    if base.endswith("params") or base in ("self.problem", "problem", "self.orig_problem", "self.transform", "orig_problem"):
                        u.ensure(f.name in ("__init__", "__post_init__") and base == "self", f"store_to_persistent_input:{f.qualname}:{base}.{n.attr}", desc=f"{f.qualname} stores to {base}.{n.attr} (params / problem / transformation are inputs)")
            # a one-shot iterator kept on an object is history: the second consumer finds it exhausted
            for n in ast.walk(f.node):
                if isinstance(n, ast.Assign) and any(isinstance(t, ast.Attribute) for t in n.targets):
                    v = n.value
                    one_shot = isinstance(v, ast.GeneratorExp) or (isinstance(v, ast.Call) and isinstance(v.func, ast.Name) and v.func.id in ("zip", "map", "filter", "iter", "enumerate", "reversed"))
                    if one_shot:
                        u.ensure(False, f"one-shot_iterator_stored_on_an_object:{f.qualname}:{ast.unparse(n.targets[0])}", desc=f"{f.qualname} stores `{ast.unparse(v)[:60]}` in {ast.unparse(n.targets[0])}: an iterator is consumed by its first use, so later calls (a second solve on the same Solver) see different data")
            # mutable default arguments must never be written through
            for d in f.node.args.defaults + [x for x in f.node.args.kw_defaults if x is not None]:
                if isinstance(d, MUTABLE_NODES):
                    u.ensure(False, f"mutable_default:{f.qualname}", desc=f"{f.qualname} has a mutable default argument {ast.unparse(d)}")
                # a default that is COMPUTED (a call) is evaluated once, when the module is imported: every later call
                # shares that value - process history (e.g. the time of import) leaks into each solve
                if any(isinstance(c, ast.Call) and not (isinstance(c.func, ast.Name) and _is_package_class(repo, mod, c.func.id)) for c in ast.walk(d)):
                    # (a default INSTANCE of a package class, e.g. `params=Params()`, is covered by the rule that nothing ever
                    #  stores into the shared default object)
                    u.ensure(False, f"default_argument_evaluated_once_at_import:{f.qualname}", desc=f"{f.qualname} has the default argument `{ast.unparse(d)}`: computed once at import time and shared by all later calls")
    # persistent helper objects (created once per Solver) hold no state that a solve could change: outside their
    # constructors their methods never store to self (functools.cached_property is the only sanctioned cache)
    PERSISTENT = {"pygradflow.transform.Transformation": {"__init__"}, "pygradflow.scale.ScaledProblem": {"__init__"}, "pygradflow.cons_problem.ConstrainedProblem": {"__init__", "create_slacks"},
                  "pygradflow.scale.Scaling": {"__init__"}, "pygradflow.problem.Problem": {"__init__"}, "pygradflow.eval.Evaluator": {"__init__", "reset_num_evals"},
                  "pygradflow.eval.SimpleEvaluator": set(), "pygradflow.eval.ValidatingEvaluator": {"__init__"}}
    for q, ctor in PERSISTENT.items():
        c = u.cls(q)
        for m in c.methods.values():
            if m.name in ctor:
                continue
            for n in ast.walk(m.node):
                tgt = None
                if isinstance(n, ast.Attribute) and isinstance(n.ctx, ast.Store) and isinstance(n.value, ast.Name) and n.value.id == "self":
                    tgt = ast.unparse(n)
                if isinstance(n, ast.Subscript) and isinstance(n.ctx, ast.Store) and ast.unparse(n.value).startswith("self.") and ast.unparse(n.value) != "self.num_evals":
                    tgt = ast.unparse(n)
                if tgt:
                    u.ensure(False, f"persistent_object_state:{q.split('.')[-1]}.{m.name}:{tgt}", desc=f"{m.qualname} stores to {tgt}: state on an object that survives from one solve to the next")
    # what Solver.solve writes on self
    solve = u.func("pygradflow.solver.Solver.solve")
    written = sorted({n.attr for n in ast.walk(solve.node) if isinstance(n, ast.Attribute) and isinstance(n.ctx, ast.Store) and isinstance(n.value, ast.Name) and n.value.id == "self"})
    u.ensure(set(written) <= {"evaluator", "penalty_strategy", "rho"}, "solve_writes_only{self.evaluator,self.penalty_strategy,self.rho}", desc=f"Solver.solve writes self.{written}")
    # cached properties of persistent objects read construction-time fields only
    # (fields stored by __init__ and by no other method of the class, or other cached properties of that kind)
    for q in ("pygradflow.transform.Transformation.scaled_problem", "pygradflow.transform.Transformation.trans_problem", "pygradflow.problem.Problem.var_bounded"):
        f = u.func(q)
        c = u.cls(q.rsplit(".", 1)[0])
        stored_by = {}
        for m in c.methods.values():
            for n in ast.walk(m.node):
                if isinstance(n, ast.Attribute) and isinstance(n.ctx, ast.Store) and isinstance(n.value, ast.Name) and n.value.id == "self":
                    stored_by.setdefault(n.attr, set()).add(m.name)
        ctor_only = {a for a, ms in stored_by.items() if ms <= {"__init__"}}
        cached = {m.name for m in c.methods.values() if m.is_cached_property}
        reads = {n.attr for n in ast.walk(f.node) if isinstance(n, ast.Attribute) and isinstance(n.value, ast.Name) and n.value.id == "self"}
        u.ensure(f.is_cached_property and reads <= (ctor_only | cached), f"cached_property_history-independent:{q.split('.')[-1]}", desc=f"{q} reads self.{sorted(reads)}; construction-time fields: {sorted(ctor_only)}")
    # ... and the same for EVERY cached property in scope: a value memoised on an object may depend only on what the
    # object's constructor fixed.  A dataclass (Params) has public fields the caller may change between two solves:
    # nothing derived from them may be cached on it.
    for mod in repo.all_modules():
        if mod.name.startswith(OUT_OF_SCOPE):
            continue
        for c in mod.classes.values():
            cps = [m for m in c.methods.values() if m.is_cached_property]
            if not cps:
                continue
            stored_by = {}
            for k_ in [c] + [b for b in c.mro() if b is not c] if hasattr(c, "mro") else [c]:
                for m in k_.methods.values():
                    for n in ast.walk(m.node):
                        if isinstance(n, ast.Attribute) and isinstance(n.ctx, ast.Store) and isinstance(n.value, ast.Name) and n.value.id == "self":
                            stored_by.setdefault(n.attr, set()).add(m.name)
            # private helpers that only the constructor calls are part of construction
            callers = {}
            for m in c.methods.values():
                for n in ast.walk(m.node):
                    if isinstance(n, ast.Call) and isinstance(n.func, ast.Attribute) and isinstance(n.func.value, ast.Name) and n.func.value.id == "self":
                        callers.setdefault(n.func.attr, set()).add(m.name)
            ctor_helpers = {"__init__", "__post_init__"} | {h for h, cs in callers.items() if h.startswith("_") and cs <= {"__init__"}}
            ctor_only = {a for a, ms in stored_by.items() if ms <= ctor_helpers}
            cached = {m.name for m in cps}
            methods = set(c.methods)
            for f in cps:
                reads = {n.attr for n in ast.walk(f.node) if isinstance(n, ast.Attribute) and isinstance(n.value, ast.Name) and n.value.id == "self" and isinstance(n.ctx, ast.Load)}
                bad = sorted(r for r in reads if r not in ctor_only and r not in cached and r not in methods)
                u.ensure(not c.is_dataclass and not bad, f"cached_property_reads_only_construction-time_state:{c.qualname}.{f.name}",
                         desc=f"{c.qualname}.{f.name} is memoised but reads self.{bad or sorted(reads)}" + (" of a dataclass whose fields the caller may change between solves" if c.is_dataclass else " (not fixed by the constructor)"))
    # global numpy random state is never used (the condition estimator owns a seeded generator)
    for f in in_scope_functions(repo):
        for n in ast.walk(f.node):
            if isinstance(n, ast.Attribute) and ast.unparse(n).startswith(("np.random.", "numpy.random.")) and n.attr not in ("default_rng", "random"):
                if ast.unparse(n) not in ("np.random.default_rng",):
                    u.ensure(False, f"global_rng:{f.qualname}", desc=f"{f.qualname} uses {ast.unparse(n)}")
    u.ensure(True, "scan_complete")


# ----------------------------------------------------------------------------------------------------
# C08: read-set of the limits


LIMIT_READERS = {
    "iteration_limit": {"pygradflow.solver.Solver._check_terminate"},
    "time_limit": {"pygradflow.solver.Solver.solve", "pygradflow.timer.Timer.__init__", "pygradflow.timer.Timer.remaining"},
    "reached_time_limit": {"pygradflow.solver.Solver._check_terminate", "pygradflow.step.exact_control.ExactController.step"},
    "remaining": {"pygradflow.timer.Timer.reached_time_limit"},
}


@unit("C08.limits_read_set", ["C08"], ["pygradflow.solver.Solver._check_terminate", "pygradflow.timer.Timer.reached_time_limit", "pygradflow.step.exact_control.ExactController.step"])
def limits_read_set(u):
    """the limits are read only by the gate, the timer and the exact controller's deadline test: the loop body is a
    function of the loop state that does not depend on them"""
    for f in in_scope_functions(u.repo):
        for n in ast.walk(f.node):
            if isinstance(n, ast.Attribute) and n.attr in LIMIT_READERS and isinstance(n.ctx, ast.Load):
                u.ensure(f.qualname in LIMIT_READERS[n.attr], f"read_of_{n.attr}:{f.qualname}", desc=f"{f.qualname}:{n.lineno} reads {ast.unparse(n)}")
    # in solve, the time limit is only handed to the Timer constructor and timer only to the gate / compute_step / elapsed
    solve = u.func("pygradflow.solver.Solver.solve")
    uses = [ast.unparse(p) for p in ast.walk(solve.node) if isinstance(p, ast.Call) and any(isinstance(a, ast.Name) and a.id == "timer" for a in p.args)]
    ok = all(s.startswith(("self._check_terminate(", "self._compute_step(")) for s in uses)
    u.ensure(ok, "solve_passes_timer_only_to_gate_and_compute_step", desc=str(uses))
    tl = [ast.unparse(p) for p in ast.walk(solve.node) if isinstance(p, ast.Attribute) and p.attr == "time_limit"]
    tcalls = [ast.unparse(p) for p in ast.walk(solve.node) if isinstance(p, ast.Call) and "time_limit" in ast.unparse(p) and not ast.unparse(p).startswith("self.print_result")]
    u.ensure(all(c.startswith("Timer(") for c in tcalls), "solve_uses_time_limit_only_to_build_the_Timer", desc=str(tcalls))


# ----------------------------------------------------------------------------------------------------
# C09: observer code writes only observer state


@unit("C09.observer_frame", ["C09", "C07", "C06"], ["pygradflow.solver.Solver.solve", "pygradflow.display.StateData.__getitem__", "pygradflow.callbacks.Callbacks.__call__"])
def observer_frame(u):
    solve = u.func("pygradflow.solver.Solver.solve")
    loop = next(n for n in ast.walk(solve.node) if isinstance(n, ast.While))
    # (a) the displayed-row block stores only into the local `state`
    blocks = [n for n in ast.walk(loop) if isinstance(n, ast.If) and ast.unparse(n.test) == "display_iterate"]
    u.ensure(len(blocks) == 1, "one_display_block_in_the_loop")
    for b in blocks:
        for n in ast.walk(b):
            if isinstance(n, (ast.Name, ast.Attribute, ast.Subscript)) and isinstance(getattr(n, "ctx", None), ast.Store):
                tgt = ast.unparse(n)
                u.ensure(tgt == "state" or tgt.startswith("state["), f"display_block_store:{tgt}", desc=f"the display block of Solver.solve stores to {tgt}")
            if isinstance(n, ast.Call):
                src = ast.unparse(n.func)
                lazy = any(n in ast.walk(l) for l in ast.walk(b) if isinstance(l, ast.Lambda))
                ok = lazy or src in ("StateData", "logger.info", "display.row")
                u.ensure(ok, f"display_block_call:{src}", desc=f"the display block of Solver.solve eagerly calls {ast.unparse(n)[:70]} (a failure there would escape; only lazy entries are swallowed by StateData)")
    # (a') the inner-display set-up of compute_step / display_step writes only the controller's display fields
    for q in ("pygradflow.step.step_control.StepController.compute_step", "pygradflow.step.step_control.StepController.display_step"):
        f = u.func(q)
        blocks2 = [n for n in ast.walk(f.node) if isinstance(n, ast.If) and ast.unparse(n.test) == "display"] if q.endswith("compute_step") else [f.node]
        u.ensure(len(blocks2) >= 1, f"display_block_found:{q.split('.')[-1]}")
        for b in blocks2:
            for n in ast.walk(b):
                if isinstance(n, ast.Attribute) and isinstance(n.ctx, ast.Store):
                    tgt = ast.unparse(n)
                    u.ensure(tgt in ("self.res_func", "self.display"), f"inner_display_store:{q.split('.')[-1]}:{tgt}", desc=f"{q}: the display-only code stores to {tgt} (observer code may write only self.display / self.res_func)")
        # every store to controller state in compute_step outside the display block is display state as well
        if q.endswith("compute_step"):
            for n in ast.walk(f.node):
                if isinstance(n, ast.Attribute) and isinstance(n.ctx, ast.Store) and ast.unparse(n).startswith("self."):
                    u.ensure(ast.unparse(n) in ("self.res_func", "self.display"), f"compute_step_store:{ast.unparse(n)}", desc=f"compute_step stores to {ast.unparse(n)}: the controller's algorithmic state is written by step() only")
    # (b) StateData swallows every failure of a lazy entry
    gi = u.func("pygradflow.display.StateData.__getitem__")
    tries = [n for n in ast.walk(gi.node) if isinstance(n, ast.Try)]
    ok = len(tries) == 1 and any(h.type is None or ast.unparse(h.type) == "Exception" for h in tries[0].handlers) and all(isinstance(s, (ast.Try, ast.Expr)) for s in gi.node.body)
    u.ensure(ok, "StateData.__getitem__swallows_every_Exception", desc="a failing lazy display entry (e.g. EvalError at a rejected trial point) must not escape solve()")
    # (c) the collected path is append-only and read only when the result is built
    for nm in ("path", "path_times"):
        for n in ast.walk(loop):
            if isinstance(n, ast.Name) and n.id == nm and isinstance(n.ctx, ast.Load):
                par = [p for p in ast.walk(loop) if any(c is n for c in ast.iter_child_nodes(p))][0]
                src = ast.unparse(par)
                ok = src.startswith((f"{nm}.append", f"{nm} is not None", f"{nm}[-1]")) or src in (f"{nm}.append",)
                u.ensure(ok, f"path_use_in_loop:{src[:40]}", desc=f"loop uses {nm} in `{src[:80]}`")
    # (d) rcond flows only into the display state
    for f in in_scope_functions(u.repo):
        if f.qualname.startswith(("pygradflow.display", "pygradflow.step.cond_estimate")):
            continue
        for n in ast.walk(f.node):
            if isinstance(n, ast.Attribute) and n.attr == "rcond" and isinstance(n.ctx, ast.Load):
                par = [p for p in ast.walk(f.node) if any(c is n for c in ast.iter_child_nodes(p))][0]
                src = ast.unparse(par)
                ok = isinstance(par, (ast.Lambda, ast.Call, ast.Return, ast.Assign, ast.keyword)) and not isinstance(par, (ast.Compare, ast.BinOp, ast.If))
                u.ensure(ok, f"rcond_use:{f.qualname}", desc=f"{f.qualname} uses rcond in `{src[:80]}`")
        # ... also through local names: a name bound to a reported condition estimate (`rcond`, or any name assigned
        # from an expression that reads `.rcond`) may only be forwarded (constructor / call argument, return value,
        # plain re-binding), never compared, computed with or branched on: reporting must not steer the algorithm
        tainted = {"rcond"}
        for n in ast.walk(f.node):
            if isinstance(n, ast.Assign) and any(isinstance(c, ast.Attribute) and c.attr == "rcond" and isinstance(c.ctx, ast.Load) for c in ast.walk(n.value)):
                for t in n.targets:
                    for c in ([t] if isinstance(t, ast.Name) else (t.elts if isinstance(t, (ast.Tuple, ast.List)) else [])):
                        if isinstance(c, ast.Name):
                            tainted.add(c.id)
        parents = {}
        for pn in ast.walk(f.node):
            for c in ast.iter_child_nodes(pn):
                parents[id(c)] = pn
        for n in ast.walk(f.node):
            if isinstance(n, ast.Name) and n.id in tainted and isinstance(n.ctx, ast.Load):
                par = parents.get(id(n))
                while isinstance(par, (ast.Tuple, ast.List, ast.Starred)):
                    par = parents.get(id(par))
                ok = isinstance(par, (ast.Call, ast.Return, ast.Assign, ast.keyword, ast.Lambda))
                u.ensure(ok, f"rcond_value_only_forwarded:{f.qualname}", desc=f"{f.qualname} uses the reported condition estimate `{n.id}` in `{ast.unparse(par)[:80] if par is not None else '?'}` (line {n.lineno}): the algorithm must not depend on what is only computed for reporting")
    # (d') the verbosity of the logger is read by display code only: an algorithmic decision taken on the log level
    # (an extra check switched on at DEBUG, a different branch when INFO is enabled) makes the solve depend on it
    LEVEL_READERS = {"pygradflow.step.step_control.StepController.display_step"}
    for f in in_scope_functions(u.repo):
        if f.qualname.startswith("pygradflow.display"):
            continue
        for n in ast.walk(f.node):
            if isinstance(n, ast.Attribute) and n.attr in ("isEnabledFor", "getEffectiveLevel", "level", "getLevelName", "disabled", "handlers") and isinstance(n.ctx, ast.Load):
                base = ast.unparse(n.value)
                if "log" in base.lower():
                    u.ensure(f.qualname in LEVEL_READERS, f"log_level_read_outside_display_code:{f.qualname}", desc=f"{f.qualname}:{n.lineno} reads `{ast.unparse(n)}`: the logger's verbosity may steer display code only")
    # (e) callbacks receive the iterates and the verdict, nothing is read back
    cb = [n for n in ast.walk(loop) if isinstance(n, ast.Call) and ast.unparse(n.func) == "self.callbacks"]
    par = [p for p in ast.walk(loop) if any(c in cb for c in ast.iter_child_nodes(p))]
    u.ensure(len(cb) == 1 and all(isinstance(p, ast.Expr) for p in par), "callbacks_called_once_per_iteration_result_ignored")
    u.ensure(True, "scan_complete")


@unit("C08.prefix_lemma", ["C08"], ["pygradflow.solver.Solver.solve"])
def prefix_lemma(u):
    """Relational step of C08 (machine-checked induction step over the loop contract):
    let body : State -> State be the loop transition (it does not read the limits: unit C08.limits_read_set) and
    gate(s, i, limit) the ordered gate (unit C02._check_terminate): IterationLimit iff limit is set and i >= limit, else
    g(s) which does not depend on the limit.  Run A has limit k, run B has none.  Induction hypothesis at i < k:
    sA(i) = sB(i) and neither run has stopped.  Then both take the same decision at i, and if they continue,
    sA(i+1) = sB(i+1); at i = k run A stops with IterationLimit holding sB(k) (= the state of the unlimited run)."""
    import z3

    S = z3.DeclareSort("LoopState")
    body = z3.Function("body", S, S)
    g = z3.Function("g_other_tests", S, z3.IntSort())  # 0 = continue, >0 = some status decided from the state alone
    sA, sB = z3.Const("sA_i", S), z3.Const("sB_i", S)
    i, k = z3.Ints("i k")
    u.assume(z3.And(i >= 0, k >= 0, i <= k, sA == sB))
    gateA = z3.If(i >= k, z3.IntVal(-1), g(sA))  # -1 = IterationLimit
    gateB = g(sB)
    u.ensure(z3.Implies(i < k, gateA == gateB), "same_decision_below_the_limit")
    u.ensure(z3.Implies(z3.And(i < k, gateA == 0), body(sA) == body(sB)), "same_next_state_below_the_limit")
    u.ensure(z3.Implies(i == k, z3.And(gateA == -1, sA == sB)), "at_the_limit:IterationLimit_with_the_state_of_the_unlimited_run")
    u.canary(gateA == gateB, "same_decision_also_at_the_limit")
