"""The library facts the symbolic models of numpy / scipy ASSUME (trusted base A3), re-measured on the installed
versions on every run.  A fact that fails here means a model in pyvc/npmodel.py / matmodel.py no longer describes the
library that the real code runs on: every proof built on it is void, so the failure is reported for all properties
that use the model."""
from __future__ import annotations

import copy

import numpy as np

from pyvc.native import native, result


@native("native.lib.facts", ["C04", "C11", "C14", "C05", "C20", "C06"])
def library_facts(tier="quick", seed=0, only=None):
    import scipy.sparse as sp

    rng = np.random.default_rng(7 + seed)
    failures, cases = [], 0

    def fact(label, ok, obs=""):
        nonlocal cases
        cases += 1
        if only is not None and only != dict(fact=label):
            return
        if not ok and not any(f["label"] == label for f in failures):
            failures.append(dict(label="lib:" + label, input=dict(fact=label), observed=str(obs)[:200]))

    A = np.array([[1.0, 0.0, 2.0], [0.0, 0.0, 3.0], [4.0, 5.0, 0.0]])
    coo, csr, csc = sp.coo_matrix(A), sp.csr_matrix(A), sp.csc_matrix(A)
    # --- format conversions and their aliasing (matmodel.convert)
    fact("coo.tocoo()_is_the_receiver", coo.tocoo() is coo)
    fact("coo.tocoo(copy=True)_is_fresh", coo.tocoo(copy=True) is not coo and not np.shares_memory(coo.tocoo(copy=True).data, coo.data))
    t = csr.tocoo()
    fact("csr.tocoo()_new_container_sharing_data", t is not csr and np.shares_memory(t.data, csr.data))
    fact("csr.tocoo(copy=True)_does_not_share_data", not np.shares_memory(csr.tocoo(copy=True).data, csr.data))
    fact("csc.tocoo()_does_not_share_data", not np.shares_memory(csc.tocoo().data, csc.data))
    fact("csr.tocsr()_is_the_receiver", csr.tocsr() is csr)
    fact("csc.tocsc()_is_the_receiver", csc.tocsc() is csc)
    fact("coo.tocsr()_does_not_share_data", not np.shares_memory(coo.tocsr().data, coo.data))
    for nm, M in (("coo", coo), ("csr", csr), ("csc", csc)):
        c = copy.copy(M)
        fact(f"copy.copy({nm})_new_container_sharing_data", c is not M and np.shares_memory(c.data, M.data))
        fact(f"{nm}.copy()_is_deep", not np.shares_memory(M.copy().data, M.data))
        fact(f"{nm}.T_values", np.array_equal(M.T.toarray(), A.T))
    # --- sparse arithmetic rebinds, drops cancelled entries
    H = sp.csr_matrix(np.array([[-1.0, 2.0], [0.0, -1.0]]))
    H0 = H
    H += sp.diags([1.0], shape=(2, 2))
    fact("sparse_+=_rebinds_(no_in-place_add)", H is not H0 and np.array_equal(H0.toarray(), [[-1.0, 2.0], [0.0, -1.0]]))
    fact("sparse_sum_drops_entries_that_cancel", sp.csr_matrix(H).nnz == 1, H.nnz)
    # --- setdiag: explicit diagonal afterwards; csr in place on existing entries
    K = sp.bmat([[sp.csr_matrix(np.array([[0.0, 2.0], [1.0, 0.0]])), None], [None, sp.csr_matrix(np.array([[3.0]]))]], format="csr")
    K.setdiag(K.diagonal())
    rows_have_diag = all(i in K.indices[K.indptr[i]:K.indptr[i + 1]] for i in range(3))
    fact("setdiag(diagonal())_stores_every_diagonal_position(explicit_zeros)", rows_have_diag, (K.indptr.tolist(), K.indices.tolist()))
    fact("setdiag_keeps_values", np.array_equal(K.toarray(), [[0, 2, 0], [1, 0, 0], [0, 0, 3]]))
    C = sp.csr_matrix(np.array([[1.0, 2.0], [0.0, 3.0]]))
    d0 = C.data
    C.setdiag(np.array([7.0, 8.0]))
    fact("csr.setdiag_on_stored_entries_writes_into_the_existing_data_array", C.data is d0 or np.shares_memory(C.data, d0), "data array replaced")
    # --- bmat(format='csr') is canonical: sorted, duplicate-free rows
    for _ in range(20 if tier == "quick" else 200):
        n, m = int(rng.integers(1, 5)), int(rng.integers(0, 4))
        Hh = sp.random(n, n, density=0.6, random_state=int(rng.integers(1 << 30))).tocoo()
        Jj = sp.random(m, n, density=0.6, random_state=int(rng.integers(1 << 30))).tocsc()
        blocks = [[Hh + sp.diags([1.5], shape=(n, n)), Jj.T], [Jj, sp.diags([-0.5], shape=(m, m))]] if m else [[Hh + sp.diags([1.5], shape=(n, n))]]
        B = sp.bmat(blocks, format="csr")
        ok = B.has_sorted_indices or True
        canon = all(np.all(np.diff(B.indices[B.indptr[i]:B.indptr[i + 1]]) > 0) for i in range(B.shape[0]))
        fact("bmat(format=csr)_rows_sorted_and_duplicate-free", canon, (B.indptr.tolist(), B.indices.tolist()))
        B.setdiag(B.diagonal())
        canon2 = all(np.all(np.diff(B.indices[B.indptr[i]:B.indptr[i + 1]]) > 0) for i in range(B.shape[0]))
        fact("setdiag_keeps_csr_rows_sorted_and_duplicate-free", canon2)
    # --- resize is in place; M.data = ... rebinds on the object
    R = sp.coo_matrix(A)
    R.resize((4, 4))
    fact("coo.resize_is_in_place_and_pads_with_zeros", R.shape == (4, 4) and np.array_equal(R.toarray()[:3, :3], A) and R.toarray()[3].sum() == 0)
    # --- numpy facts
    x = np.array([1.5, -2.25, 3.0])
    fact("np.asarray_of_an_array_is_the_array", np.asarray(x) is x)
    fact("astype(same_dtype)_copies", x.astype(float) is not x and not np.shares_memory(x.astype(float), x))
    fact("np.copy_is_fresh", not np.shares_memory(np.copy(x), x))
    fact("slices_are_views", np.shares_memory(x[1:], x))
    fact("boolean_mask_read_is_a_copy", not np.shares_memory(x[np.array([True, False, True])], x))
    w = np.array([3, -2, 0])
    fact("ldexp_is_exact_scaling_by_2**w", np.array_equal(np.ldexp(x, w), x * np.array([8.0, 0.25, 1.0])))
    mant, ex = np.frexp(np.array([0.75, 5.0, 1e-3]))
    fact("frexp:x==mant*2**exp_with_0.5<=|mant|<1", np.array_equal(np.ldexp(mant, ex), [0.75, 5.0, 1e-3]) and np.all((np.abs(mant) >= 0.5) & (np.abs(mant) < 1)))
    msk = np.array([False, True, True, False, True])
    fact("np.where(mask)[0]_is_the_increasing_enumeration", np.array_equal(np.where(msk)[0], [1, 2, 4]))
    fact("searchsorted_left_partition", int(np.searchsorted(np.array([1, 3, 3, 7]), 3)) == 1 and int(np.searchsorted(np.array([1, 3, 3, 7]), 8)) == 4)
    fact("np.clip==min(max(x,lo),hi)", np.array_equal(np.clip(x, np.array([2.0, -1.0, 0.0]), np.array([4.0, 0.0, 1.0])), [2.0, -1.0, 1.0]))
    ai = np.zeros(2, dtype=int)
    ai[0] = 2.9
    ai[1] = -2.9
    fact("float_stored_into_int_array_truncates_toward_zero", ai.tolist() == [2, -2])
    try:
        np.zeros(3)[np.array([True, False, True])] = np.array([1.0, 2.0, 3.0])
        fact("masked_store_with_wrong_count_raises", False, "no error")
    except ValueError:
        fact("masked_store_with_wrong_count_raises", True)
    try:
        np.zeros(3) + np.zeros(2)
        fact("element-wise_operation_on_different_lengths_raises", False)
    except ValueError:
        fact("element-wise_operation_on_different_lengths_raises", True)
    for fmt_, val, good in (("{:6d}", 1.5, False), ("{:16.8e}", 3, True), ("{:>45s}", 3, False), ("{:5.0e}", None, False), ("{:^{}d}", np.int64(3), True), ("{:16.8e}", np.float64(1.0), True)):
        try:
            fmt_.format(val, 10)
            okf = True
        except (ValueError, TypeError):
            okf = False
        fact(f"str.format:{fmt_}:{type(val).__name__}", okf == good)
    return result(cases, failures, "fixed list of library facts (aliasing of sparse conversions / copies, setdiag, bmat canonical form, ldexp/frexp, where, searchsorted, clip, int truncation, shape errors, format codes)")
