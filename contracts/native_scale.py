"""Native bounded checks for C20 (also the stand-in for scale_symmetric, whose nested loops re-bind their
accumulator and are outside the symbolic subset)."""
from __future__ import annotations

import itertools

import numpy as np

from pyvc.native import native, result, use_repo


def _mags(rng, shape, lo=-12, hi=12, density=0.7):
    v = rng.uniform(0.5, 1.0, size=shape) * np.exp2(rng.integers(lo, hi + 1, size=shape)) * rng.choice([-1.0, 1.0], size=shape)
    v[rng.uniform(size=shape) > density] = 0.0
    return v


@native("native.c20.scalings", ["C20"])
def scalings(tier="quick", seed=0, only=None):
    """bounded: random sparse data spanning 2^-12..2^12 (incl. entries < 1) + small hand-made cases"""
    use_repo()
    import scipy.sparse as sp
    from pygradflow.scale import Scaling, scale_symmetric

    rng = np.random.default_rng(1234 + seed)
    failures, cases = [], 0
    N = 150 if tier == "quick" else 3000

    def fail(label, inp, obs):
        if not any(f["label"] == label for f in failures):
            failures.append(dict(label=label, input=inp, observed=obs))

    def in12(v):
        return np.all((np.abs(v) >= 1.0) & (np.abs(v) < 2.0))

    hand = [
        dict(g=[0.1, 3.0], J=[[0.1, 0.0], [0.0, 0.3]], H=[[0.01, 0.0], [0.0, 0.04]]),
        dict(g=[1e-6, 2e5], J=[[0.25, 0.5], [1e-4, 0.0]], H=[[0.02, 0.01], [0.01, 0.03]]),
        dict(g=[1.0, 1.0], J=[[1e-11, 0.0], [0.0, 1.0]], H=[[1e-12, 0.0], [0.0, 1.0]]),
    ]
    for idx in range(N + len(hand)):
        if idx < len(hand):
            h = hand[idx]
            g, J, H = np.array(h["g"], float), np.array(h["J"], float), np.array(h["H"], float)
        else:
            n, m = int(rng.integers(1, 5)), int(rng.integers(1, 4))
            g, J = _mags(rng, (n,)), _mags(rng, (m, n))
            H = _mags(rng, (n, n))
            H = H + H.T
        n, m = g.shape[0], J.shape[0]
        inp = dict(g=g.tolist(), J=J.tolist(), H=H.tolist())
        if only is not None and only != inp:
            continue
        cases += 1
        # Nominal
        sc = Scaling.from_nominal_values(g, J[:, 0].copy())
        nz = g != 0
        if not (np.issubdtype(sc.var_weights.dtype, np.integer) and in12(np.ldexp(g[nz], sc.var_weights[nz]))):
            fail("C20:Nominal:nonzero_values_in_[1,2)", inp, np.ldexp(g, sc.var_weights).tolist())
        # GradJac
        sc = Scaling.from_grad_jac(g, sp.coo_matrix(J))
        if not in12(np.ldexp(g[nz], -sc.var_weights[nz])):
            fail("C20:GradJac:nonzero_gradient_component_in_[1,2)", inp, np.ldexp(g, -sc.var_weights).tolist())
        Js = np.ldexp(np.ldexp(J, -sc.var_weights[None, :]), sc.cons_weights[:, None])
        rowmax = np.abs(Js).max(axis=1)
        rnz = np.abs(J).max(axis=1) > 0
        if not in12(rowmax[rnz]):
            fail("C20:GradJac:largest_entry_of_a_nonzero_row_in_[1,2)", inp, rowmax.tolist())
        # KKT equilibration
        K = np.block([[H, J.T], [J, np.zeros((m, m))]])
        try:
            D = scale_symmetric(sp.coo_matrix(K))
        except Exception as e:  # "whenever the equilibration returns"
            if str(e) != "Equilibration failed to converge":
                fail("C20:KKT:unexpected_exception", inp, f"{type(e).__name__}: {e}")
            continue
        if not np.issubdtype(np.asarray(D).dtype, np.integer):
            fail("C20:KKT:weights_are_integers", inp, str(np.asarray(D).dtype))
        Ks = np.ldexp(np.ldexp(np.abs(K), D[:, None]), D[None, :])
        cs = Ks.sum(axis=0)
        cnz = np.abs(K).sum(axis=0) > 0
        if not np.all((cs[cnz] >= 1.0) & (cs[cnz] < 4.0)):
            fail("C20:KKT:nonzero_column_sums_in_[1,4)", inp, cs.tolist())
    # the public entry point Scaling.from_equilibrated_kkt on matrices for which the power-of-two iteration does NOT
    # settle (arrow-head KKT matrices: one variable, three rows): it may fail with the equilibration's own error, but
    # whatever scaling it returns must equilibrate
    for hdiag, col in (([[2.0]], [[1.0], [3.0], [7.0]]), ([[2.0]], [[0.1], [3.0], [100.0]]), ([[1.0]], [[1.0], [1.0], [1.0]])):
        Hh, Jj = np.array(hdiag), np.array(col)
        inp = dict(kind="arrow-head", H=Hh.tolist(), J=Jj.tolist())
        cases += 1
        try:
            sc = Scaling.from_equilibrated_kkt(sp.coo_matrix(Hh), sp.coo_matrix(Jj))
        except Exception as e:  # noqa
            if str(e) != "Equilibration failed to converge":
                fail("C20:KKT:unexpected_exception", inp, f"{type(e).__name__}: {e}")
            continue
        n_, m_ = 1, Jj.shape[0]
        K = np.block([[Hh, Jj.T], [Jj, np.zeros((m_, m_))]])
        D = np.concatenate([-np.asarray(sc.var_weights), np.asarray(sc.cons_weights)])
        cs = np.ldexp(np.ldexp(np.abs(K), D[:, None]), D[None, :]).sum(axis=0)
        if not np.all((cs >= 1.0) & (cs < 4.0)):
            fail("C20:KKT:from_equilibrated_kkt_returns_a_scaling_that_does_not_equilibrate", inp, cs.tolist())
    return result(cases, failures, f"{len(hand)} hand-made + {N} random instances, n<=4, m<=3, magnitudes 2^-12..2^12")
