"""C20 - automatic scalings normalise magnitudes with exact powers of two.

  weights_from_nominal_values(v)[i] = 1 - e_i  with frexp(v_i) = (m_i, e_i):   v_i != 0  =>  1 <= |v_i| P(w_i) < 2
  from_grad_jac: var_weights = -w(|g|)  =>  g_j != 0 => 1 <= |g_j| P(-vw_j) < 2
                 row loop invariant  max_values[r] = max{prescaled[k] : k < i, rows[k] = r} (0 for an empty set),
                 with the numpy store conversion of the accumulator's dtype (C truncation for an int array)
                 post: every row r with a non-zero entry: 1 <= max_k |J[r, col k]| P(-vw) * P(cw_r) < 2
  scale_symmetric: bounded native stand-in (nested loops over a re-bound accumulator: outside the subset)
"""
from __future__ import annotations

import z3

from pyvc import npmodel, ops
from pyvc.core import QAll, QAny, UFact, Unsupported
from pyvc.harness import unit
from pyvc.npmodel import pow2_at
from pyvc.values import Arr, Vec

from .c04_transform import StoreLog, UserProblem
from .common import mk_params, mk_problem
from .models import _fresh_vec
from .spec import V

SC = "pygradflow.scale."


@unit("C20.weights_from_nominal_values", ["C20", "C11"], [SC + "Scaling.weights_from_nominal_values", SC + "Scaling.from_nominal_values"])
def nominal(u):
    n, m = u.int("n"), u.int("m")
    u.assume(n >= 0)
    u.assume(m >= 0)
    log = StoreLog(u)
    vals = u.vec("values", n, region="USER")
    cvals = u.vec("cvalues", m, region="USER")
    vv = V(vals)
    w = V(u.call(SC + "Scaling.weights_from_nominal_values", vals))
    P = lambda e: pow2_at(u.it, e)
    u.ensure(w.kind == "int", "weights_are_integers")
    u.ensure(QAll(n, lambda i: z3.Implies(vv.f(i) != 0, z3.And(1 <= ops.zabs(vv.f(i)) * P(w.f(i)), ops.zabs(vv.f(i)) * P(w.f(i)) < 2))), "nonzero_value_scaled_into_[1,2)")
    sc = u.call(SC + "Scaling.from_nominal_values", vals, cvals)
    vw, cw = V(sc.fields["var_weights"]), V(sc.fields["cons_weights"])
    u.ensure(QAll(n, lambda i: z3.Implies(vv.f(i) != 0, z3.And(1 <= ops.zabs(vv.f(i)) * P(vw.f(i)), ops.zabs(vv.f(i)) * P(vw.f(i)) < 2))), "Nominal:variable_values_in_[1,2)")
    cv = V(cvals)
    u.ensure(QAll(m, lambda i: z3.Implies(cv.f(i) != 0, z3.And(1 <= ops.zabs(cv.f(i)) * P(cw.f(i)), ops.zabs(cv.f(i)) * P(cw.f(i)) < 2))), "Nominal:constraint_values_in_[1,2)")
    u.ensure(QAll(n, lambda i: vals.vec().f(i) == vv.f(i)), "nominal_values_not_modified", props=["C11"])
    log.check()
    u.canary(QAll(n, lambda i: z3.Implies(vv.f(i) != 0, ops.zabs(vv.f(i)) * P(w.f(i)) < 1)), "scaled_below_1")


class RowMaxLoop:
    """for i, row in enumerate(rows): max_values[row] = max(max_values[row], prescaled_data[i])
    invariant(i): forall r.  max_values[r] >= 0
                             forall k < i with rows[k] = r: prescaled[k] <= max_values[r]
                             max_values[r] = 0  or  max_values[r] = prescaled[wit(r)], wit(r) < i, rows[wit(r)] = r"""

    def __init__(self, u, m):
        self.u, self.m = u, m

    def sequence(self, it, frame, iterable):
        self.arr = frame.locals["max_values"]
        self.rows = frame.locals["rows"].vec()
        self.pre = frame.locals["prescaled_data"].vec()
        self.nnz = self.rows.n
        return npmodel.seq_view(it, iterable)

    def _inv(self, mv, wit, i):
        rows, pre, nnz, m = self.rows, self.pre, self.nnz, self.m
        a = QAll(m, lambda r: z3.And(ops._real(mv.f(r)) >= 0, z3.Or(ops._real(mv.f(r)) == 0, z3.And(wit(r) >= 0, wit(r) < i, rows.f(wit(r)) == r, ops._real(mv.f(r)) == pre.f(wit(r))))))
        b = QAll(nnz, lambda k: z3.Implies(k < i, pre.f(k) <= ops._real(mv.f(self.u.path.index_term(rows.f(k), m)))))
        return a, b

    def establish(self, it, frame, site, n):
        self.wit = lambda r: z3.IntVal(-1)
        a, b = self._inv(self.arr.vec(), self.wit, 0)
        it.path.prove(a, f"{site}:invariant:establish:max_values_is_0_or_an_entry_of_its_row", kind="invariant")
        it.path.prove(b, f"{site}:invariant:establish:max_values_bounds_the_entries_seen", kind="invariant")

    def havoc(self, it, frame, site, k, n):
        p = it.path
        kind = self.arr.cell.val.kind
        sort = z3.IntSort() if kind == "int" else z3.RealSort()
        A = z3.Array(p.fresh_name("max_values_h"), z3.IntSort(), sort)
        h = Vec(self.m, lambda r: z3.Select(A, r if not isinstance(r, int) else z3.IntVal(r)), kind, arr=A)
        self.arr.cell.val = h
        W = p.func("rowmax_wit", z3.IntSort(), z3.IntSort())
        self.wit = lambda r: W(r)
        self.h = h
        a, b = self._inv(h, self.wit, k)
        p.assume(a)
        p.assume(b)
        # the row index of the current entry and the witness of its row are index terms
        if not isinstance(k, int) and k is not n:
            p.index_term(self.rows.f(k), self.m)

    def preserve(self, it, frame, site, k, n):
        rows, pre = self.rows, self.pre
        old, W0 = self.h, self.wit
        r_k = rows.f(k)
        new_wit = lambda r: z3.If(z3.And(r == r_k, pre.f(k) > ops._real(old.f(r))), k, W0(r))
        it.path.index_term(W0(r_k), self.nnz)
        a, b = self._inv(self.arr.vec(), new_wit, k + 1)
        it.path.prove(a, f"{site}:invariant:preserve:max_values_is_0_or_an_entry_of_its_row", kind="invariant")
        it.path.prove(b, f"{site}:invariant:preserve:max_values_bounds_the_entries_seen", kind="invariant")

    def at_break(self, *a):
        raise Unsupported("break in row-max loop")


@unit("C20.from_grad_jac", ["C20", "C11"], [SC + "Scaling.from_grad_jac", SC + "Scaling.weights_from_nominal_values", SC + "Scaling.__init__"], config={"max_paths": 50})
def grad_jac(u):
    from pyvc import matmodel

    n, m = u.int("n"), u.int("m")
    u.assume(n >= 0)
    u.assume(m >= 0)
    log = StoreLog(u)
    g = u.vec("obj_grad", n, region="USER")
    J = matmodel.user_matrix(u.it, m, n, "J", fmt="coo")
    nnz, row0, col0, data0 = J.coo[0], J.coo[1].vec(), J.coo[2].vec(), J.coo[3].vec()
    loop = RowMaxLoop(u, m)
    u.it.loop_specs[SC + "Scaling.from_grad_jac/loop#0"] = loop
    sc = u.call(SC + "Scaling.from_grad_jac", g, J)
    vw, cw = V(sc.fields["var_weights"]), V(sc.fields["cons_weights"])
    gv = V(g)
    P = lambda e: pow2_at(u.it, e)
    u.ensure(vw.kind == "int" and cw.kind == "int", "weights_are_integers")
    u.ensure(QAll(n, lambda j: z3.Implies(gv.f(j) != 0, z3.And(1 <= ops.zabs(gv.f(j)) * P(-vw.f(j)), ops.zabs(gv.f(j)) * P(-vw.f(j)) < 2))), "GradJac:nonzero_gradient_component_in_[1,2)")
    # lemma (proved, then used): a non-zero row maximum is scaled into [1,2) by its row weight
    mv = loop.arr.vec()
    L1 = QAll(m, lambda r: z3.Implies(ops._real(mv.f(r)) != 0, z3.And(1 <= ops._real(mv.f(r)) * P(cw.f(r)), ops._real(mv.f(r)) * P(cw.f(r)) < 2)))
    if u.ensure(L1, "lemma:nonzero_row_maximum_scaled_into_[1,2)"):
        u.assume(L1)
    pre = loop.pre
    L2 = QAll(nnz, lambda k: z3.Implies(data0.f(k) != 0, z3.And(pre.f(k) > 0, ops._real(mv.f(u.path.index_term(row0.f(k), m))) > 0)))
    if u.ensure(L2, "lemma:row_with_a_nonzero_entry_has_positive_maximum"):
        u.assume(L2)
    L3 = QAll(nnz, lambda k: pre.f(k) == ops.zabs(data0.f(k)) * P(-vw.f(u.path.index_term(col0.f(k), n))))
    if u.ensure(L3, "lemma:prescaled[k]==|data[k]|*P(-vw[col k])"):
        u.assume(L3)
    # every stored entry of row r, column-prescaled and row-scaled, is below 2 ...
    # scaled entry = (column-prescaled entry, lemma L3) * row factor
    scaled = lambda k: pre.f(k) * P(cw.f(u.path.index_term(row0.f(k), m)))
    u.ensure(QAll(nnz, lambda k: scaled(k) < 2), "GradJac:every_scaled_Jacobian_entry<2")
    # ... and a row with a non-zero entry has one of magnitude >= 1
    u.ensure(QAll(nnz, lambda k: z3.Implies(data0.f(k) != 0, QAnyWit(u, loop, scaled, row0, k))), "GradJac:largest_entry_of_a_nonzero_row>=1")
    u.ensure(QAll(nnz, lambda k: J.coo[3].vec().f(k) == data0.f(k)), "Jacobian_data_not_modified", props=["C11"])
    log.check()
    u.cover("end")


def QAnyWit(u, loop, scaled, row0, k, part=None):
    """exists k' in the same row with scaled(k') >= 1: the witness is the loop's ghost wit(row[k])"""
    u.path.index_term(row0.f(k), loop.m)
    w = loop.wit(row0.f(k))
    u.path.index_term(w, loop.nnz)
    parts = [w >= 0, w < loop.nnz, row0.f(w) == row0.f(k), scaled(w) >= 1]
    return z3.And(*parts) if part is None else parts[part]


# ----------------------------------------------------------------------------------------------------
# scale_symmetric: iterated square-root column-sum scaling


class ColSumLoop:
    """for k in range(len(a_data)): R[a_cols[k]] += a_data[k]
    invariant(k): forall j. R[j] == colsum(j, k) >= 0, with the recursive spec function
        colsum(j, 0) = 0 ;  colsum(j, k+1) = colsum(j, k) + (cols[k] == j ? a[k] : 0)"""

    def __init__(self, u, n):
        self.u, self.n = u, n

    def sequence(self, it, frame, iterable):
        p = it.path
        self.R = frame.locals["R"]
        self.cols = frame.locals["a_cols"].vec()
        self.a = frame.locals["a_data"].vec()
        self.nnz = self.a.n
        self.CS = p.func("colsum", z3.IntSort(), z3.IntSort(), z3.RealSort())
        CS, cols, a = self.CS, self.cols, self.a
        # defining equations of the spec function (definitional extension), instantiated on ground (j, k)
        p.add_ufact(UFact(1, lambda j: CS(j, 0) == 0, [(0, self.n)], "colsum(j,0)"))
        p.add_ufact(UFact(2, lambda j, k: z3.And(CS(j, k + 1) == CS(j, k) + z3.If(cols.f(k) == j, ops._real(a.f(k)), 0)), [(0, self.n), (0, self.nnz)], "colsum(j,k+1)"))
        self.u._colsum = (CS, self.nnz)
        return npmodel.seq_view(it, iterable)

    def _inv(self, R, k):
        CS = self.CS
        return QAll(self.n, lambda j: z3.And(ops._real(R.f(j)) == CS(j, k), ops._real(R.f(j)) >= 0))

    def establish(self, it, frame, site, n):
        it.path.prove(self._inv(self.R.vec(), 0), f"{site}:invariant:establish:R==colsum(.,0)", kind="invariant")

    def havoc(self, it, frame, site, k, n):
        p = it.path
        A = z3.Array(p.fresh_name("R_h"), z3.IntSort(), z3.RealSort())
        h = Vec(self.n, lambda j: z3.Select(A, p.auto_index(j, self.n)), "real", arr=A)
        self.R.cell.val = h
        p.assume(self._inv(h, k))
        if k is not n:
            p.index_term(self.cols.f(k), self.n)

    def preserve(self, it, frame, site, k, n):
        it.path.prove(self._inv(self.R.vec(), k + 1), f"{site}:invariant:preserve:R==colsum(.,k+1)", kind="invariant")

    def at_break(self, *a):
        raise Unsupported("break in column-sum loop")


class EquilibrationLoop:
    """for i in range(max_it): ...   invariant: a_data[q] == |A.data[q]| * P(D[rows q] + D[cols q]) >= 0"""

    def __init__(self, u, n):
        self.u, self.n = u, n

    def sequence(self, it, frame, iterable):
        self.a = frame.locals["a_data"]
        self.D = frame.locals["D"]
        self.rows, self.cols = frame.locals["a_rows"].vec(), frame.locals["a_cols"].vec()
        self.a0 = self.a.vec()
        self.nnz = self.a0.n
        return npmodel.seq_view(it, iterable)

    def _inv(self, a, D):
        a0, rows, cols, n = self.a0, self.rows, self.cols, self.n
        P = lambda e: pow2_at(self.u.it, e)
        path = self.u.path
        return QAll(self.nnz, lambda q: z3.And(a.f(q) == a0.f(q) * P(D.f(path.index_term(rows.f(q), n)) + D.f(path.index_term(cols.f(q), n))), a0.f(q) >= 0))

    def establish(self, it, frame, site, n):
        it.path.prove(self._inv(self.a.vec(), self.D.vec()), f"{site}:invariant:establish:a_data==|A|*P(D_r+D_c)", kind="invariant")

    def havoc(self, it, frame, site, k, n):
        p = it.path
        A = z3.Array(p.fresh_name("a_h"), z3.IntSort(), z3.RealSort())
        self.a.cell.val = Vec(self.nnz, lambda q: z3.Select(A, p.auto_index(q, self.nnz)), "real", arr=A)
        Dh = z3.Array(p.fresh_name("D_h"), z3.IntSort(), z3.IntSort())
        self.D.cell.val = Vec(self.n, lambda j: z3.Select(Dh, p.auto_index(j, self.n)), "int", arr=Dh)
        p.assume(self._inv(self.a.vec(), self.D.vec()))
        self.u._equil = self

    def preserve(self, it, frame, site, k, n):
        it.path.prove(self._inv(self.a.vec(), self.D.vec()), f"{site}:invariant:preserve:a_data==|A|*P(D_r+D_c)", kind="invariant")

    def at_break(self, it, frame, site, k, n):
        self.u._break_frame = dict(frame.locals)


@unit("C20.scale_symmetric", ["C20", "C11"], [SC + "scale_symmetric", SC + "Scaling.from_equilibrated_kkt"], config={"max_paths": 200})
def scale_symmetric(u):
    """whenever the equilibration returns D: the matrix |A| scaled by P(D_r + D_c) has every column sum that is not
    zero inside [1, 4); D is an integer vector; A is not modified.  (Column sums through the recursive spec function
    colsum of the accumulation loop.)"""
    from pyvc import matmodel

    n = u.int("n")
    u.assume(n >= 0)
    A = matmodel.user_matrix(u.it, n, n, "K", fmt=["coo", "csr", "csc"][u.path.choose_n(3, "format")])
    data0 = A.coo[3].vec()
    log = StoreLog(u)
    outer = EquilibrationLoop(u, n)
    inner1 = ColSumLoop(u, n)
    F = SC + "scale_symmetric"
    holder = {}

    def rescale_spec(q):
        fr = holder["frame"]
        Rs = fr["Rsca"].vec()
        a_before = holder["a_before"]
        return a_before.f(q) * pow2_at(u.it, Rs.f(u.path.index_term(outer.rows.f(q), n)) + Rs.f(u.path.index_term(outer.cols.f(q), n)))

    from .c04_transform import TripletLoop

    inner2 = TripletLoop(u, "a_data", rescale_spec)
    seq2 = inner2.sequence

    def seq(it, frame, iterable):
        holder["frame"] = frame.locals
        holder["a_before"] = frame.locals["a_data"].vec()
        return seq2(it, frame, iterable)

    inner2.sequence = seq
    inner2.check_body = lambda frame, site: None
    u.it.loop_specs[F + "/loop#0"] = outer
    u.it.loop_specs[F + "/loop#1"] = inner1
    u.it.loop_specs[F + "/loop#2"] = inner2
    kind, val = u.raised(lambda: u.call(F, A))
    if kind == "raise":
        msg = val.exc.args[0] if val.exc.args else ""
        u.ensure(val.exc.cls is Exception and msg == "Equilibration failed to converge", "raises_only{Equilibration failed to converge}", desc=f"escaping {val.exc!r}")
        return
    D = V(val)
    u.ensure(D.kind == "int", "weights_are_integers")
    CS, nnz = u._colsum
    P = lambda e: pow2_at(u.it, e)
    # the column sums at the moment of the break are those of |A| scaled by the returned D (outer invariant)
    a_fin = outer.a.vec()
    u.ensure(QAll(nnz, lambda q: a_fin.f(q) == ops.zabs(data0.f(q)) * P(D.f(u.path.index_term(outer.rows.f(q), n)) + D.f(u.path.index_term(outer.cols.f(q), n)))), "summed_entries==|A[q]|*P(D[row]+D[col])_for_the_returned_D")
    u.ensure(QAll(n, lambda j: z3.Implies(CS(j, nnz) != 0, z3.And(1 <= CS(j, nnz), CS(j, nnz) < 4))), "KKT:nonzero_column_sum_in_[1,4)")
    u.ensure(QAll(nnz, lambda q: A.coo[3].vec().f(q) == data0.f(q)), "matrix_not_modified", props=["C11"])
    u.canary(QAll(n, lambda j: z3.Implies(CS(j, nnz) != 0, CS(j, nnz) < 2)), "column_sum<2")
    u.cover("returned")


@unit("C20.from_equilibrated_kkt", ["C20"], [SC + "Scaling.from_equilibrated_kkt", SC + "create_scaling"], config={"max_paths": 50})
def equilibrated_kkt(u):
    """the KKT matrix handed to the equilibration is [[H, J^T], [J, 0]] entry by entry, and the weights are split as
    var_weights = -D[:n], cons_weights = D[n:]; create_scaling dispatches on the scaling type and evaluates the
    callbacks at the user-supplied scaling point"""
    from pyvc import matmodel
    from pyvc.values import Mat

    n, m = u.int("n"), u.int("m")
    u.assume(z3.And(n >= 0, m >= 0))
    H, J = Mat(n, n, None, name="H"), Mat(m, n, None, name="J")
    got = {}
    Dw = u.vec("D", n + m, kind="int")

    def ss(it, K):
        # contract of scale_symmetric (proved in C20.scale_symmetric): returns equilibrating weights, or raises the
        # deliberate Exception("Equilibration failed to converge") when the iteration does not settle
        got["K"] = K
        if it.path.choose("equilibration fails to converge"):
            got["failed"] = True
            from pyvc.values import ExcVal, PyRaise

            raise PyRaise(ExcVal(Exception, ("Equilibration failed to converge",)), origin="scale_symmetric")
        return Dw

    u.it.abstract[SC + "scale_symmetric"] = ss
    kind, sc = u.raised(lambda: u.call(SC + "Scaling.from_equilibrated_kkt", H, J))
    # C20 speaks about the scaling "whenever the KKT equilibration returns": a scaling object may come out ONLY of a
    # converged equilibration - a failed one must stay a failure, not turn into some other set of weights
    u.ensure((kind == "raise") == bool(got.get("failed")), "a_scaling_is_returned_iff_the_equilibration_converged(its_failure_propagates)", desc=f"equilibration failed: {bool(got.get('failed'))}, from_equilibrated_kkt: {kind}")
    if kind == "raise":
        u.ensure(sc.exc.cls is Exception and sc.exc.args == ("Equilibration failed to converge",), "raises_only_the_equilibration's_own_error")
        return
    if got.get("failed"):
        return
    K = got["K"]
    e, eH, eJ = matmodel.entry_fn(u.it, K), matmodel.entry_fn(u.it, H), matmodel.entry_fn(u.it, J)
    i, j = u.int("i"), u.int("j")
    u.assume(z3.And(i >= 0, j >= 0, i < n + m, j < n + m))
    u.ensure(e(i, j) == z3.If(z3.And(i < n, j < n), eH(i, j), z3.If(z3.And(i < n, j >= n), eJ(j - n, i), z3.If(z3.And(i >= n, j < n), eJ(i - n, j), 0))), "KKT_matrix==[[H,J^T],[J,0]]")
    vw, cw, D = V(sc.fields["var_weights"]), V(sc.fields["cons_weights"]), V(Dw)
    u.ensure(QAll(n, lambda q: vw.f(q) == -D.f(q)), "var_weights==-D[:n]")
    u.ensure(QAll(m, lambda q: cw.f(q) == D.f(q + n)), "cons_weights==D[n:]")
    u.ensure(vw.kind == "int" and cw.kind == "int", "weights_are_integers")


@unit("C20.create_scaling.dispatch", ["C20", "C04", "C06", "C05"], [SC + "create_scaling"], config={"max_paths": 200})
def create_scaling_dispatch(u):
    """which scaling is built for which ScalingType, from which data: Nominal from (x_ref, c(x_ref)), GradJac from
    (grad f(x_ref), J(x_ref)), KKT from (H(x_ref, y_ref), J(x_ref)); NoScaling gives None; an explicit scaling object
    is handed back as it is; Custom without an object and a missing reference point are deliberate ValueErrors.
    For C05 this is the exemption clause: while a scaling is set up the user's functions are evaluated at the
    user-supplied scaling point and NOWHERE else (no library-chosen stand-in point such as the origin)."""
    from pyvc.values import Mat, Opaque

    names = ["NoScaling", "Custom", "Nominal", "GradJac", "KKT"]
    k = u.path.choose_n(len(names), "scaling type")
    params = mk_params(u)
    params.fields["scaling_type"] = u.enum("pygradflow.params.ScalingType", names[k])
    given = u.path.choose("explicit scaling object given") if names[k] == "Custom" else False
    sc_obj = u.obj(SC + "Scaling", var_weights=Opaque("vw"), cons_weights=Opaque("cw"), obj_weight=0) if given else None
    params.fields["scaling"] = sc_obj
    empty = u.path.choose("no constraints")
    problem = mk_problem(u, m=0) if empty else mk_problem(u)
    if not empty:
        u.assume(problem.fields["num_cons"] > 0)
    n, m = problem.fields["__n__"], problem.fields["num_cons"]
    up = UserProblem(u, problem)
    problem.fields["num_vars"] = n
    made = []
    A = u.it.abstract
    built = {}

    def mk_ctor(c_):
        def ctor_contract(it, *a, **kw):
            # a Scaling object with arbitrary integer weights (what the constructor computes is proved elsewhere)
            obj = u.obj(SC + "Scaling", var_weights=u.vec(u.path.fresh_name("vw_" + c_), n, kind="int"), cons_weights=u.vec(u.path.fresh_name("cw_" + c_), m, kind="int"), obj_weight=0)
            built[c_] = obj
            made.append((c_, a))
            return obj

        return ctor_contract

    for ctor in ("from_nominal_values", "from_grad_jac", "from_equilibrated_kkt"):
        A[SC + "Scaling." + ctor] = mk_ctor(ctor)
    have_x = u.path.choose("primal reference point given")
    have_y = u.path.choose("dual reference point given")
    xr = u.vec("x_ref", n, region="USER") if have_x else None
    yr = u.vec("y_ref", m, region="USER") if have_y else None
    kind, val = u.raised(lambda: u.call(SC + "create_scaling", problem, params, xr, yr))
    nm = names[k]
    calls = {c[0]: c for c in up.calls}
    if kind == "raise":
        u.ensure(val.exc.name() == "ValueError", "raises_only{ValueError}", desc=f"escaping {val.exc!r} at {val.origin}")
        expected = (nm == "Custom" and not given) or (nm in ("Nominal", "GradJac", "KKT") and not have_x) or (nm == "KKT" and not have_y)
        u.ensure(expected, "ValueError_only_for(Custom_without_object,missing_reference_point)", desc=f"type {nm}, x given {have_x}, y given {have_y}")
        u.ensure(not made, "no_scaling_built_when_raising")
        return
    if nm == "NoScaling":
        u.ensure(val is None and not made and not up.calls, "NoScaling=>None,nothing_evaluated")
    elif nm == "Custom":
        u.ensure(given and val is sc_obj and not made and not up.calls, "Custom=>the_caller's_scaling_object_itself")
    else:
        want = {"Nominal": "from_nominal_values", "GradJac": "from_grad_jac", "KKT": "from_equilibrated_kkt"}[nm]
        ok = u.ensure(len(made) == 1 and made[0][0] == want, f"{nm}=>exactly_one_scaling_built_by_{want}", desc=f"built: {[c for c, _ in made]}")
        if ok:
            args = made[0][1]
            u.ensure(val is built.get(want), f"{nm}=>that_scaling_is_returned", desc="create_scaling returns the very object the scaling constructor built (its weights are not post-processed)")
            at_ref = all(c[1] is xr for c in up.calls)
            u.ensure(at_ref, f"{nm}=>callbacks_evaluated_at_the_reference_point_only")
            if nm == "Nominal":
                u.ensure(args[0] is xr, "Nominal:variable_magnitudes_are_the_reference_point")
                if empty:
                    u.ensure(isinstance(args[1], Arr) and (args[1].n == 0 if isinstance(args[1].n, int) else True) and "cons" not in calls, "Nominal:no_constraints=>empty_constraint_values,callback_not_called")
                else:
                    u.ensure(args[1] is up.ret.get("cons"), "Nominal:constraint_magnitudes_are_c(x_ref)")
            if nm == "GradJac":
                u.ensure(args[0] is up.ret.get("obj_grad"), "GradJac:gradient_is_grad_f(x_ref)")
                u.ensure(empty or args[1] is up.ret.get("cons_jac"), "GradJac:Jacobian_is_J(x_ref)")
            if nm == "KKT":
                u.ensure(args[0] is up.ret.get("lag_hess") and calls.get("lag_hess", (None, None, None))[2] is yr, "KKT:Hessian_is_H(x_ref,y_ref)")
                u.ensure(empty or args[1] is up.ret.get("cons_jac"), "KKT:Jacobian_is_J(x_ref)")
            if empty and nm in ("GradJac", "KKT"):
                J0 = args[1]
                u.ensure(isinstance(J0, Mat) and "cons_jac" not in calls, f"{nm}:no_constraints=>empty_Jacobian,callback_not_called")
    u.cover("end")
