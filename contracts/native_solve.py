"""Scenario library + recording drivers: real Solver.solve runs on small problems (DESIGN §2.8a).

Roles: (1) replay drivers that turn a failed obligation into a run of the REAL code, (2) cross-check of the
engine, (3) bounded stand-ins (labelled bounded, never counted as proved).  Bound: the fixed scenario list below
x the configurations enumerated per check.
"""
from __future__ import annotations

import itertools
import math

import numpy as np

from pyvc.native import native, result, use_repo

# ----------------------------------------------------------------------------------------------------
# problems


def _mk_problems():
    import scipy.sparse as sp
    from pygradflow.problem import Problem

    class QP(Problem):
        """min 1/2 x'Qx + q'x  s.t.  cl <= A x <= cu, lb <= x <= ub"""

        def __init__(self, Q, q, A, cl, cu, lb, ub, fmt="coo"):
            self.Q, self.q, self.A = np.array(Q, float), np.array(q, float), np.array(A, float).reshape(len(cl), len(q))
            self.fmt = fmt
            kw = dict(cons_lb=np.array(cl, float), cons_ub=np.array(cu, float)) if len(cl) else {}
            super().__init__(np.array(lb, float), np.array(ub, float), **kw)

        def _sp(self, M):
            return {"coo": sp.coo_matrix, "csr": sp.csr_matrix, "csc": sp.csc_matrix}[self.fmt](M)

        def obj(self, x):
            return 0.5 * x @ self.Q @ x + self.q @ x

        def obj_grad(self, x):
            return self.Q @ x + self.q

        def cons(self, x):
            return self.A @ x

        def cons_jac(self, x):
            return self._sp(self.A)

        def lag_hess(self, x, y):
            return self._sp(self.Q)

    class NLP(Problem):
        """min (x0-1)^2 + (x1-2)^2 + x2^2  s.t. x0*x1 - x2 in [cl0,cu0], x0^2 + x1 + x2 = 2 ; bounds"""

        def __init__(self, cl0=0.5, cu0=1.5, lb=(-2, -2, -2), ub=(2, 3, 2)):
            super().__init__(np.array(lb, float), np.array(ub, float), cons_lb=np.array([cl0, 2.0]), cons_ub=np.array([cu0, 2.0]))

        def obj(self, x):
            return (x[0] - 1) ** 2 + (x[1] - 2) ** 2 + x[2] ** 2

        def obj_grad(self, x):
            return np.array([2 * (x[0] - 1), 2 * (x[1] - 2), 2 * x[2]])

        def cons(self, x):
            return np.array([x[0] * x[1] - x[2], x[0] ** 2 + x[1] + x[2]])

        def cons_jac(self, x):
            return sp.coo_matrix(np.array([[x[1], x[0], -1.0], [2 * x[0], 1.0, 1.0]]))

        def lag_hess(self, x, y):
            H = np.diag([2.0, 2.0, 2.0])
            H[0, 1] += y[0]
            H[1, 0] += y[0]
            H[0, 0] += 2 * y[1]
            return sp.coo_matrix(H)

    class Infeasible(Problem):
        """x^2 + 1 = 0 has no solution: local infeasibility at x = 0"""

        def __init__(self):
            super().__init__(np.array([-5.0]), np.array([5.0]), cons_lb=np.array([0.0]), cons_ub=np.array([0.0]))

        def obj(self, x):
            return x[0]

        def obj_grad(self, x):
            return np.array([1.0])

        def cons(self, x):
            return np.array([x[0] ** 2 + 1.0])

        def cons_jac(self, x):
            return sp.coo_matrix(np.array([[2 * x[0]]]))

        def lag_hess(self, x, y):
            return sp.coo_matrix(np.array([[2 * y[0]]]))

    return QP, NLP, Infeasible


def scenarios():
    """name -> (problem factory, x0, y0)"""
    QP, NLP, Infeasible = _mk_problems()
    inf = np.inf
    S = {}
    S["qp_eq_box"] = (lambda fmt="coo": QP([[2, 0.5, 0], [0.5, 1, 0], [0, 0, 3]], [-1, -2, 0.5], [[1, 1, 1], [1, -1, 0]], [1.0, -inf], [1.0, 0.25], [0, -1, -inf], [2, inf, 0.1], fmt), np.array([0.5, 0.0, 0.0]), None)
    S["qp_ranged_fixed"] = (lambda fmt="csr": QP([[1, 0], [0, 2]], [1, -3], [[1, 2], [3, -1]], [0.5, -1.0], [1.5, inf], [0.25, -inf], [0.25, inf], fmt), np.array([0.25, 0.3]), np.array([0.1, -0.2]))
    S["qp_uncons_box"] = (lambda fmt="coo": QP([[4, 1], [1, 3]], [-1, -8], np.zeros((0, 2)), [], [], [-1, -1], [0.5, 1.0], fmt), None, None)
    S["nlp_mixed"] = (lambda fmt=None: NLP(), np.array([1.0, 1.0, 0.0]), None)
    S["infeasible"] = (lambda fmt=None: Infeasible(), np.array([0.5]), None)
    # multipliers of magnitude 1e5 at the solution (bound multiplier -1e5, row multiplier 1e4): a termination test
    # that is relative to the multiplier size would stop far from stationarity
    S["qp_big_multipliers"] = (lambda fmt="csc": QP([[1, 0, 0], [0, 0, 0], [0, 0, 1]], [-1, 1e5, 0], [[0, 0, 1]], [1e4], [inf], [-inf, 0, -inf], [inf, 2, inf], fmt), np.array([0.5, 1.0, 1e4]), None)
    return S


# ----------------------------------------------------------------------------------------------------
# recording


class Runaway(BaseException):
    """the solve performed more step computations than its iteration limit allows"""


class Record:
    def __init__(self):
        self.trials = []  # dict(start=Iterate, rho, dt, res=StepControlResult)
        self.callbacks = []  # (iterate, next_iterate, accept, solver_rho)
        self.evals = []  # (kind, x copy)
        self.result = None
        self.exc = None
        self.solver = None


def recording_problem(problem, rec, fault=None):
    """wrap the user's problem: log every evaluation point; optional fault: (kind, k) fails the k-th call of kind,
    ('region', pred) fails every call at points where pred(x)"""
    import copy

    class W(type(problem)):
        pass

    w = copy.copy(problem)
    w.__class__ = W
    counts = {}

    def wrap(kind, bad):
        orig = getattr(problem, kind)

        def f(x, *a):
            rec.evals.append((kind, np.array(x, copy=True)))
            counts[kind] = counts.get(kind, 0) + 1
            v = orig(x, *a)
            hit = False
            if fault is not None:
                if fault[0] == kind and counts[kind] == fault[1]:
                    hit = True
                if fault[0] == "region" and fault[1](x):
                    hit = True
            if hit:
                return bad(v)
            return v

        return f

    def bad_scalar(v):
        return float("nan")

    def bad_vec(v):
        v = np.array(v, dtype=float, copy=True)
        if v.size:
            v[0] = np.nan
        return v

    def bad_mat(v):
        v = v.copy().astype(float)
        if v.nnz:
            v.data[0] = np.inf
        return v

    W.obj = lambda self, x: wrap("obj", bad_scalar)(x)
    W.obj_grad = lambda self, x: wrap("obj_grad", bad_vec)(x)
    W.cons = lambda self, x: wrap("cons", bad_vec)(x)
    W.cons_jac = lambda self, x: wrap("cons_jac", bad_mat)(x)
    W.lag_hess = lambda self, x, y: wrap("lag_hess", bad_mat)(x, y)
    return w


def run(problem, params, x0=None, y0=None, rec=None, fault=None, lin_fault=None, clock=None, callbacks=True):
    """one real solve with recording; returns Record (exception stored, not raised)"""
    from pygradflow.callbacks import CallbackType
    from pygradflow.solver import Solver

    rec = rec or Record()
    wp = recording_problem(problem, rec, fault)

    cap = (params.iteration_limit if params.iteration_limit is not None else 1000) + 5

    class RecSolver(Solver):
        def _compute_step(self, controller, iterate, rho, dt, display, timer):
            if len(rec.trials) >= cap:
                raise Runaway(f"more than {cap} step computations with iteration_limit={params.iteration_limit}")
            res = super()._compute_step(controller, iterate, rho, dt, display, timer)
            rec.trials.append(dict(start=iterate, rho=rho, dt=dt, res=res, lamb=res.lamb, accepted=res.accepted))
            return res

    restore = []
    if lin_fault is not None:
        import pygradflow.linear_solver as ls

        orig = ls.linear_solver
        cnt = {"fact": 0, "solve": 0}

        def faulty(mat, solver_type, symmetric=False):
            cnt["fact"] += 1
            if lin_fault[0] == "fact" and cnt["fact"] == lin_fault[1]:
                raise ls.LinearSolverError("injected factorisation failure")
            s = orig(mat, solver_type, symmetric=symmetric)
            osolve = s.solve

            def solve(rhs, *a, **k):
                cnt["solve"] += 1
                if lin_fault[0] == "solve" and cnt["solve"] == lin_fault[1]:
                    raise ls.LinearSolverError("injected solve failure")
                return osolve(rhs, *a, **k)

            s.solve = solve
            return s

        ls.linear_solver = faulty
        restore.append(lambda: setattr(ls, "linear_solver", orig))
    if clock is not None:
        import pygradflow.timer as tm

        class FakeTime:
            def __init__(self):
                self.n = 0

            def time(self):
                self.n += 1
                return 0.0 if self.n <= clock else 1.0e9

        ft = FakeTime()
        orig_time = tm.time
        tm.time = ft
        restore.append(lambda: setattr(tm, "time", orig_time))
    try:
        solver = RecSolver(wp, params)
        rec.solver = solver
        if callbacks:
            solver.callbacks.register(CallbackType.ComputedStep, lambda it, nit, acc: rec.callbacks.append((it, nit, acc, solver.rho)))
        n_before = len(rec.evals)
        rec.evals_init = n_before
        try:
            rec.result = solver.solve(x0, y0)
        except Runaway as e:
            rec.exc = e
        except Exception as e:  # noqa
            rec.exc = e
    finally:
        for r in restore:
            r()
    return rec


def mk_params(**kw):
    from pygradflow.params import Params

    base = dict(iteration_limit=400, display_interval=1e9)
    base.update(kw)
    return Params(**base)


# ----------------------------------------------------------------------------------------------------
# oracles over a record (each returns a list of failure labels with data)


def kkt_failures(problem, res, params, scaling=None):
    """C01 oracle: independent dense KKT check of the user's problem at the returned point"""
    out = []
    x, y, d = res.x, res.y, res.d
    tol, atol = params.opt_tol, params.active_tol
    n, m = problem.num_vars, problem.num_cons
    vw = scaling.var_weights if scaling is not None else np.zeros(n, int)
    cw = scaling.cons_weights if scaling is not None else np.zeros(m, int)
    ow = scaling.obj_weight if scaling is not None else 0
    P2 = lambda e: np.ldexp(1.0, np.asarray(e))
    slack = 1 + 1e-9  # rounding slack for the oracle's own arithmetic
    if not (np.all(x >= problem.var_lb) and np.all(x <= problem.var_ub)):
        out.append(("bounds_exact", x.tolist()))
    g = problem.obj_grad(x)
    if m > 0:
        c = problem.cons(x)
        J = problem.cons_jac(x).toarray()
        ctol = tol * P2(-cw) * slack
        if not (np.all(c >= problem.cons_lb - ctol) and np.all(c <= problem.cons_ub + ctol)):
            out.append(("cons_feasible", c.tolist()))
        r = g + J.T @ y + d
        ytol = tol * P2(cw - ow) * slack
        for i in range(m):
            if problem.cons_lb[i] < problem.cons_ub[i]:
                act = (tol + atol) * P2(-cw[i]) * slack
                if y[i] > ytol[i] and abs(c[i] - problem.cons_ub[i]) > act:
                    out.append(("y_pos_only_at_upper", (i, y[i], c[i])))
                if y[i] < -ytol[i] and abs(c[i] - problem.cons_lb[i]) > act:
                    out.append(("y_neg_only_at_lower", (i, y[i], c[i])))
    else:
        r = g + d
    stol = tol * P2(vw - ow) * slack
    if not np.all(np.abs(r) <= stol):
        out.append(("stationarity", r.tolist()))
    for j in range(n):
        a = atol * P2(-vw[j]) * slack
        if d[j] > 0 and abs(problem.var_ub[j] - x[j]) > a:
            out.append(("d_pos_only_at_upper", (j, d[j])))
        if d[j] < 0 and abs(x[j] - problem.var_lb[j]) > a:
            out.append(("d_neg_only_at_lower", (j, d[j])))
    return out


def history_failures(rec, params, problem):
    """C12 / C15 / C16 oracles over the recorded history"""
    from pygradflow.params import PenaltyUpdate

    out = []
    T = rec.trials
    res = rec.result
    if res is not None:
        if res.iterations != len(T):
            out.append(("C12:iterations==#step_computations", (res.iterations, len(T))))
        if len(rec.callbacks) != len(T):
            out.append(("C12:#callbacks==#step_computations", (len(rec.callbacks), len(T))))
    # accepted = the start iterate of the next trial differs from this trial's start
    changes = 0
    for k, t in enumerate(T):
        nxt_start = T[k + 1]["start"] if k + 1 < len(T) else None
        if k < len(rec.callbacks):
            cb = rec.callbacks[k]
            if cb[0] is not t["start"]:
                out.append(("C12:announced_step_starts_from_current_iterate", k))
            if cb[1] is not t["res"].iterate:
                out.append(("C12:announced_trial_iterate", k))
        if not t["accepted"]:
            if nxt_start is not None and nxt_start is not t["start"]:
                out.append(("C15:rejected=>iterate_unchanged", k))
            if not (t["lamb"] > 1.0 / t["dt"]):
                out.append(("C15:rejected=>lamb_strictly_larger", (k, t["lamb"], 1.0 / t["dt"])))
        if nxt_start is not None:
            if nxt_start is not t["start"]:
                changes += 1
                if nxt_start is not t["res"].iterate:
                    out.append(("C12:new_iterate_is_the_accepted_trial", k))
            if T[k + 1]["dt"] != 1.0 / t["lamb"]:
                out.append(("C15:next_trial_uses_returned_lamb", (k, T[k + 1]["dt"], 1.0 / t["lamb"])))
            if T[k + 1]["rho"] < t["rho"]:
                out.append(("C16:rho_never_decreases", (k, t["rho"], T[k + 1]["rho"])))
            if nxt_start is t["start"] and T[k + 1]["rho"] != t["rho"]:
                out.append(("C16:rho_changes_only_on_accepted_step", (k, t["rho"], T[k + 1]["rho"])))
            if params.penalty_update == PenaltyUpdate.DualNorm and T[k + 1]["rho"] > 10 * t["rho"]:
                out.append(("C16:dualnorm_at_most_x10", (k, t["rho"], T[k + 1]["rho"])))
        if t["accepted"] and getattr(params.step_control_type, "name", "") == "Exact":
            # exact step control: an accepted iterate solves the implicit Euler equation of its step to newton_tol
            # (independent re-evaluation with the UNSCALED residual function of the definition)
            from pygradflow.implicit_func import ImplicitFunc

            try:
                Fv = ImplicitFunc(t["start"].problem, t["start"], t["dt"]).value_at(t["res"].iterate, t["rho"])
                r = float(np.linalg.norm(Fv))
                if not (r <= params.newton_tol * (1 + 1e-6)):
                    out.append(("C15:exact_control:accepted_iterate_solves_the_implicit_Euler_equation_to_newton_tol", (k, r, params.newton_tol)))
            except Exception:  # noqa
                pass
        if not (t["rho"] > 0):
            out.append(("C16:rho>0", (k, t["rho"])))
        if not (1.0 / t["dt"] < params.lamb_max):
            out.append(("C15:no_trial_at_or_beyond_lamb_max", (k, 1.0 / t["dt"])))
        if params.penalty_update == PenaltyUpdate.Constant and t["rho"] != params.rho:
            out.append(("C16:constant_policy_changes_rho", (k, t["rho"])))
    if T and T[0]["dt"] != 1.0 / params.lamb_init:
        out.append(("C15:first_trial_uses_lamb_init", T[0]["dt"]))
    if params.penalty_update == PenaltyUpdate.DualNorm:
        maxy = 0.0
        bound_ok = True
        for k, t in enumerate(T):
            if t["rho"] > max(params.rho, maxy) * (1 + 1e-12):
                out.append(("C16:dualnorm_rho<=max(initial,max|y|)", (k, t["rho"], maxy)))
                break
            nxt_start = T[k + 1]["start"] if k + 1 < len(T) else None
            if nxt_start is not None and nxt_start is not t["start"] and nxt_start.y.size:
                maxy = max(maxy, float(np.linalg.norm(nxt_start.y, np.inf)))
    if res is not None:
        last_changes = changes
        # the last trial may also have been accepted (then the final iterate is its result)
        if T:
            final_internal = rec.solver.transform.restore_sol(T[-1]["res"].iterate.x, T[-1]["res"].iterate.y, T[-1]["res"].iterate.bounds_dual)[0] if T[-1]["accepted"] else None
            if final_internal is not None and np.array_equal(final_internal, res.x) and not np.array_equal(final_internal, rec.solver.transform.restore_sol(T[-1]["start"].x, T[-1]["start"].y, T[-1]["start"].bounds_dual)[0]):
                last_changes += 1
        if res.num_accepted_steps not in (changes, changes + 1):
            out.append(("C12:num_accepted_steps==#iterate_changes", (res.num_accepted_steps, changes)))
        if not (res.dist_factor >= 1.0 - 1e-12):
            out.append(("C12:dist_factor>=1", res.dist_factor))
        if params.collect_path:
            path, times = res.path, res.model_times
            if path.shape[1] != res.num_accepted_steps + 1 or len(times) != path.shape[1]:
                out.append(("C12:path_has_one_column_per_accepted_step_plus_start", (path.shape, res.num_accepted_steps)))
            else:
                acc_dts = []
                for k, t in enumerate(T):
                    nxt_start = T[k + 1]["start"] if k + 1 < len(T) else None
                    if nxt_start is not None and nxt_start is not t["start"]:
                        acc_dts.append(t["dt"])
                diffs = np.diff(times)
                m = min(len(acc_dts), len(diffs))
                if m and not np.all(np.abs(diffs[:m] - np.array(acc_dts[:m])) <= 1e-12 * np.abs(times[1 : m + 1])):
                    out.append(("C12:model_time_increases_by_the_step_size_used", (diffs[:3].tolist(), acc_dts[:3])))
    return out


def box_failures(rec, problem):
    """C05: every evaluation of the user's functions is inside the user's variable bounds (exactly)"""
    bad = []
    for kind, x in rec.evals:
        if not (np.all(x >= problem.var_lb) and np.all(x <= problem.var_ub)):
            bad.append((kind, x.tolist()))
    return bad


CONTROLLERS = ["DistanceRatio", "Exact", "ResiduumRatio", "Fixed"]
POLICIES = ["DualNorm", "Constant", "ObjectiveFilter", "LagrangianFilter", "ParetoDecrease", "DualEquilibration"]
STEP_SOLVERS = ["Symmetric", "Standard", "Extended", "Asymmetric"]
NEWTON = ["Simplified", "Full", "ActiveSet", "Globalized"]


def enum(name, member):
    import pygradflow.params as pp

    return getattr(getattr(pp, name), member)


def configs(tier):
    """(controller, policy, step solver, newton type) combinations explored"""
    out = []
    for c in CONTROLLERS:
        for p in POLICIES:
            out.append((c, p, "Symmetric", "Simplified"))
    for s in STEP_SOLVERS:
        for nt in NEWTON[:3]:
            out.append(("DistanceRatio", "DualNorm", s, nt))
    if tier != "thorough":
        out = out[::2] + [("Exact", "ObjectiveFilter", "Standard", "Full")]
    return out


@native("native.solve.history", ["C12", "C15", "C16", "C02", "C05", "C01"])
def solve_history(tier="quick", seed=0, only=None):
    """bounded: scenario list x configs; history oracles C12/C15/C16, C05 evaluation points, C01 KKT at Optimal,
    C02 iteration-limit statements"""
    use_repo()
    from pygradflow.status import SolverStatus

    failures, cases = [], 0
    S = scenarios()
    for name, (mk, x0, y0) in S.items():
        for (c, p, s, nt) in configs(tier):
            # (a tiny initial penalty exercises the range where absolute float tolerances would swallow penalty updates)
            for collect, rho0 in (((True, 1e-2), (True, 1e-10)) if (p == "DualNorm" and c == "DistanceRatio") else ((True, 1e-2),)):
                inp = dict(scenario=name, controller=c, policy=p, step_solver=s, newton=nt, collect_path=collect)
                if rho0 != 1e-2:
                    inp["rho"] = rho0
                if only is not None and only != inp:
                    continue
                problem = mk()
                params = mk_params(step_control_type=enum("StepControlType", c), penalty_update=enum("PenaltyUpdate", p), step_solver_type=enum("StepSolverType", s), newton_type=enum("NewtonType", nt), collect_path=collect, rho=rho0, iteration_limit=150)
                rec = run(problem, params, x0, y0)
                cases += 1
                if rec.exc is not None:
                    msg = str(rec.exc)
                    if isinstance(rec.exc, Runaway):
                        failures.append(dict(label="C02:never_more_iterations_than_limit", input=inp, observed=msg))
                    elif not (type(rec.exc) is Exception and msg.startswith(("Inverse step size", "Line search failed"))):
                        failures.append(dict(label="C06:deliberate_errors_only", input=inp, observed=f"{type(rec.exc).__name__}: {msg[:200]}"))
                    continue
                for lab, data in history_failures(rec, params, problem):
                    failures.append(dict(label=lab, input=inp, observed=repr(data)[:300]))
                bad = box_failures(rec, problem)
                if bad:
                    failures.append(dict(label="C05:evaluation_outside_box", input=inp, observed=repr(bad[0])[:300]))
                res = rec.result
                if not (np.all(res.x >= problem.var_lb) and np.all(res.x <= problem.var_ub)):
                    failures.append(dict(label="C05:returned_x_in_box", input=inp, observed=res.x.tolist()))
                if res.status == SolverStatus.Optimal:
                    for lab, data in kkt_failures(problem, res, params):
                        failures.append(dict(label="C01:" + lab, input=inp, observed=repr(data)[:300]))
                if res.status == SolverStatus.IterationLimit and res.iterations != params.iteration_limit:
                    failures.append(dict(label="C02:IterationLimit=>iterations==limit", input=inp, observed=res.iterations))
                if res.iterations > params.iteration_limit:
                    failures.append(dict(label="C02:never_more_iterations_than_limit", input=inp, observed=res.iterations))
    # de-duplicate by label (first witness per label)
    seen, uniq = set(), []
    for f in failures:
        if f["label"] not in seen:
            seen.add(f["label"])
            uniq.append(f)
    return result(cases, uniq, f"{len(S)} scenarios x {len(configs(tier))} configurations, iteration_limit=150")


def _same_trajectory(a, b):
    """byte-wise comparison of two records (trial sequence + result)"""
    if (a.exc is None) != (b.exc is None):
        return f"one run raised: {a.exc!r} vs {b.exc!r}"
    if len(a.trials) != len(b.trials):
        return f"different number of trials: {len(a.trials)} vs {len(b.trials)}"
    for k, (s, t) in enumerate(zip(a.trials, b.trials)):
        if s["dt"] != t["dt"] or s["rho"] != t["rho"] or s["accepted"] != t["accepted"] or s["lamb"] != t["lamb"]:
            return f"trial {k} differs (dt/rho/accepted/lamb)"
        if s["res"].iterate.x.tobytes() != t["res"].iterate.x.tobytes() or s["res"].iterate.y.tobytes() != t["res"].iterate.y.tobytes():
            return f"trial {k}: trial iterate differs"
    if a.result is not None:
        ra, rb = a.result, b.result
        if ra.status != rb.status or ra.x.tobytes() != rb.x.tobytes() or ra.y.tobytes() != rb.y.tobytes() or ra.d.tobytes() != rb.d.tobytes():
            return "results differ"
    return None


@native("native.solve.faults", ["C07", "C06"])
def solve_faults(tier="quick", seed=0, only=None):
    """bounded: every position k <= K of each callback kind and of factorisations / solves, per scenario x step solver"""
    use_repo()
    from pygradflow.status import SolverStatus

    failures, cases = [], 0
    S = scenarios()
    K = 6 if tier == "quick" else 25
    kinds = ["obj", "obj_grad", "cons", "cons_jac", "lag_hess"]
    names = ["qp_eq_box", "nlp_mixed"] if tier == "quick" else list(S)
    for name in names:
        mk, x0, y0 = S[name]
        for ss in (["Symmetric", "Asymmetric"] if tier == "quick" else STEP_SOLVERS):
            for ctrl in (["DistanceRatio"] if tier == "quick" else ["DistanceRatio", "Exact"]):
                faults = [("cb", (kind, k)) for kind in kinds for k in range(1, K + 1)] + [("lin", (w, k)) for w in ("fact", "solve") for k in range(1, K + 1)]
                for ftype, f in faults:
                    inp = dict(scenario=name, step_solver=ss, controller=ctrl, fault=[ftype, list(f)])
                    if only is not None and only != inp:
                        continue
                    problem = mk()
                    if f[0] in ("cons", "cons_jac") and problem.num_cons == 0:
                        continue
                    params = mk_params(step_solver_type=enum("StepSolverType", ss), step_control_type=enum("StepControlType", ctrl), iteration_limit=60)
                    rec = run(problem, params, x0, y0, fault=f if ftype == "cb" else None, lin_fault=f if ftype == "lin" else None)
                    cases += 1
                    if rec.exc is not None:
                        msg = str(rec.exc)
                        ok = type(rec.exc) is Exception and msg.startswith(("Inverse step size", "Failed to evaluate initial iterate", "Line search failed"))
                        if not ok:
                            failures.append(dict(label=f"C07:fault_escapes_solve:{type(rec.exc).__name__}:{ftype}:{f[0]}", input=inp, observed=f"{type(rec.exc).__name__}: {msg[:200]}"))
                        elif msg.startswith("Failed to evaluate initial iterate") and rec.trials:
                            failures.append(dict(label="C07:initial-point_error_after_first_trial", input=inp, observed=msg))
                        continue
                    res = rec.result
                    if not (np.all(np.isfinite(res.x)) and np.all(np.isfinite(res.y)) and np.all(np.isfinite(res.d))):
                        failures.append(dict(label="C07:non-finite_result", input=inp, observed=str(res.status)))
                    if res.status == SolverStatus.Optimal:
                        for lab, data in kkt_failures(problem, res, params):
                            failures.append(dict(label="C07:optimal_despite_faults_violates_" + lab, input=inp, observed=repr(data)[:200]))
                    for lab, data in history_failures(rec, params, problem):
                        if lab.startswith("C15:rejected"):
                            failures.append(dict(label="C07:" + lab, input=inp, observed=repr(data)[:200]))
    seen, uniq = set(), []
    for f in failures:
        if f["label"] not in seen:
            seen.add(f["label"])
            uniq.append(f)
    return result(cases, uniq, f"fault positions k<=%d for each of 5 callbacks, factorisations and solves; scenarios {names}" % K)


@native("native.solve.observers", ["C09", "C06"])
def solve_observers(tier="quick", seed=0, only=None):
    """bounded: twin runs differing only in observer settings (log level, display interval, callbacks, collect_path,
    report_rcond) must have byte-identical trajectories and must not raise"""
    use_repo()
    import logging

    failures, cases = [], 0
    S = scenarios()
    lg = logging.getLogger("gradflow")
    names = ["qp_eq_box", "nlp_mixed"] if tier == "quick" else list(S)
    ctrls = ["DistanceRatio", "Exact"] if tier == "quick" else CONTROLLERS
    for name in names:
        mk, x0, y0 = S[name]
        for ctrl in ctrls:
            base = dict(step_control_type=enum("StepControlType", ctrl), iteration_limit=40)
            ref = run(mk(), mk_params(**base), x0, y0, callbacks=False)
            variants = {
                "debug_log_display_every_iteration": dict(level=logging.DEBUG, kw=dict(display_interval=0.0)),
                "info_log_display_every_iteration": dict(level=logging.INFO, kw=dict(display_interval=0.0)),
                "collect_path": dict(level=logging.CRITICAL, kw=dict(collect_path=True)),
                "report_rcond": dict(level=logging.INFO, kw=dict(report_rcond=True, display_interval=0.0)),
                "callbacks": dict(level=logging.CRITICAL, kw=dict(), callbacks=True),
            }
            for vn, v in variants.items():
                inp = dict(scenario=name, controller=ctrl, observer=vn)
                if only is not None and only != inp:
                    continue
                kw = dict(base)
                kw.update(v["kw"])
                old = lg.level
                h = logging.NullHandler()
                lg.addHandler(h)
                lg.setLevel(v["level"])
                try:
                    rec = run(mk(), mk_params(**kw), x0, y0, callbacks=v.get("callbacks", False))
                finally:
                    lg.setLevel(logging.CRITICAL)
                    lg.removeHandler(h)
                cases += 1
                if rec.exc is not None and ref.exc is None:
                    failures.append(dict(label=f"C09:observer_makes_solve_fail:{vn}:{type(rec.exc).__name__}", input=inp, observed=f"{type(rec.exc).__name__}: {str(rec.exc)[:200]}"))
                    continue
                diff = _same_trajectory(ref, rec)
                if diff:
                    failures.append(dict(label=f"C09:observer_changes_trajectory:{vn}", input=inp, observed=diff))
    # condition-estimate reporting with an ITERATIVE linear solver (its extra solves may fail where the Newton solve
    # succeeds): report_rcond must still not change or break the run
    from pygradflow.problem import Problem as _Problem
    import scipy.sparse as _sp

    class Rosenbrock(_Problem):
        def __init__(self):
            super().__init__(np.array([-np.inf, -np.inf]), np.array([np.inf, np.inf]))

        def obj(self, x):
            return (1 - x[0]) ** 2 + 100 * (x[1] - x[0] ** 2) ** 2

        def obj_grad(self, x):
            return np.array([-2 * (1 - x[0]) - 400 * x[0] * (x[1] - x[0] ** 2), 200 * (x[1] - x[0] ** 2)])

        def cons(self, x):
            return np.array([])

        def cons_jac(self, x):
            return _sp.coo_matrix((0, 2))

        def lag_hess(self, x, y):
            return _sp.coo_matrix(np.array([[2 - 400 * (x[1] - 3 * x[0] ** 2), -400 * x[0]], [-400 * x[0], 200.0]]))

    for prec in ("Single", "Double"):
        for ss in STEP_SOLVERS:
            for nt in (NEWTON[:1] if tier == "quick" else NEWTON[:3]):
                inp = dict(scenario="rosenbrock", precision=prec, step_solver=ss, newton=nt, linear_solver="GMRES", observer="report_rcond")
                if only is not None and only != inp:
                    continue
                base = dict(precision=enum("Precision", prec), step_solver_type=enum("StepSolverType", ss), newton_type=enum("NewtonType", nt), linear_solver_type=enum("LinearSolverType", "GMRES"), iteration_limit=80)
                ref = run(Rosenbrock(), mk_params(**base), np.array([0.0, 0.0]), None, callbacks=False)
                rec = run(Rosenbrock(), mk_params(report_rcond=True, **base), np.array([0.0, 0.0]), None, callbacks=False)
                cases += 1
                if rec.exc is not None and ref.exc is None:
                    failures.append(dict(label=f"C09:observer_makes_solve_fail:report_rcond:{type(rec.exc).__name__}", input=inp, observed=f"{type(rec.exc).__name__}: {str(rec.exc)[:200]}"))
                    continue
                diff = _same_trajectory(ref, rec)
                if diff:
                    failures.append(dict(label="C09:observer_changes_trajectory:report_rcond", input=inp, observed=diff))
    # a badly scaled QP whose Newton matrices have a reciprocal condition number below machine epsilon although every
    # factorisation succeeds: the reported estimate is then "alarming", and must still be reported only

    class BadlyScaledQP(_Problem):
        """min 1/2 s (x0 - 1e-9)^2 + 1/2 (x1 - 1)^2 + 1/2 (x2 - 2)^2  s.t.  x1 + x2 = 2, x2 <= 1.25,  s = 1e18"""

        def __init__(self):
            super().__init__(np.full(3, -np.inf), np.array([np.inf, np.inf, 1.25]), num_cons=1)
            self.diag = np.array([1e18, 1.0, 1.0])
            self.center = np.array([1e-9, 1.0, 2.0])

        def obj(self, x):
            r = x - self.center
            return 0.5 * float(np.dot(self.diag * r, r))

        def obj_grad(self, x):
            return self.diag * (x - self.center)

        def cons(self, x):
            return np.array([x[1] + x[2] - 2.0])

        def cons_jac(self, x):
            return _sp.coo_matrix(np.array([[0.0, 1.0, 1.0]]))

        def lag_hess(self, x, y):
            return _sp.diags([self.diag], [0], format="coo")

    for ss in (STEP_SOLVERS[:2] if tier == "quick" else STEP_SOLVERS):
        for ctrl in ctrls:
            inp = dict(scenario="badly_scaled_qp", step_solver=ss, controller=ctrl, observer="report_rcond")
            if only is not None and only != inp:
                continue
            base = dict(step_solver_type=enum("StepSolverType", ss), step_control_type=enum("StepControlType", ctrl), iteration_limit=30)
            x0b = np.array([0.0, 0.0, 0.0])
            ref = run(BadlyScaledQP(), mk_params(**base), x0b, np.array([0.0]), callbacks=False)
            rec = run(BadlyScaledQP(), mk_params(report_rcond=True, **base), x0b, np.array([0.0]), callbacks=False)
            cases += 1
            if rec.exc is not None and ref.exc is None:
                failures.append(dict(label=f"C09:observer_makes_solve_fail:report_rcond:{type(rec.exc).__name__}", input=inp, observed=f"{type(rec.exc).__name__}: {str(rec.exc)[:200]}"))
                continue
            diff = _same_trajectory(ref, rec)
            if diff:
                failures.append(dict(label="C09:observer_changes_trajectory:report_rcond", input=inp, observed=diff))
    seen, uniq = set(), []
    for f in failures:
        if f["label"] not in seen:
            seen.add(f["label"])
            uniq.append(f)
    return result(cases, uniq, f"scenarios {names} x controllers {ctrls} x 5 observer variants; Rosenbrock x GMRES x precisions x step solvers and a badly scaled QP (rcond < eps) with / without report_rcond")


@native("native.solve.box", ["C05"])
def solve_box(tier="quick", seed=0, only=None):
    """bounded: every Newton variant (incl. the Globalized line search) x controller on the boxed scenarios; all
    evaluation points, callback iterates and the returned x must satisfy the variable bounds exactly"""
    use_repo()
    failures, cases = [], 0
    S = scenarios()
    for name in (["qp_eq_box", "qp_uncons_box", "nlp_mixed"] if tier == "quick" else list(S)):
        mk, x0, y0 = S[name]
        for nt in NEWTON:
            for c in (["DistanceRatio", "Exact"] if tier == "quick" else CONTROLLERS):
                inp = dict(scenario=name, newton=nt, controller=c)
                if only is not None and only != inp:
                    continue
                problem = mk()
                params = mk_params(newton_type=enum("NewtonType", nt), step_control_type=enum("StepControlType", c), iteration_limit=60)
                rec = run(problem, params, x0, y0)
                cases += 1
                bad = box_failures(rec, problem)
                if bad:
                    failures.append(dict(label=f"C05:evaluation_outside_box:newton={nt}", input=inp, observed=f"{len(bad)} of {len(rec.evals)} evaluations outside the box; first: {bad[0]!r}"[:300]))
                tp = rec.solver.problem
                for (a, b, acc, _) in rec.callbacks:
                    for itx in (a, b):
                        if not (np.all(itx.x >= tp.var_lb) and np.all(itx.x <= tp.var_ub)):
                            failures.append(dict(label=f"C05:callback_iterate_outside_box:newton={nt}", input=inp, observed=itx.x.tolist()))
                            break
                if rec.result is not None and not (np.all(rec.result.x >= problem.var_lb) and np.all(rec.result.x <= problem.var_ub)):
                    failures.append(dict(label="C05:returned_x_in_box", input=inp, observed=rec.result.x.tolist()))
    seen, uniq = set(), []
    for f in failures:
        if f["label"] not in seen:
            seen.add(f["label"])
            uniq.append(f)
    return result(cases, uniq, "boxed scenarios x 4 Newton variants x controllers, iteration_limit=60")


def _caching(problem, fmt):
    """variant of `problem` whose callbacks return cached (memoised per point) objects in the given sparse format"""
    import copy

    import scipy.sparse as sp

    conv = {"coo": sp.coo_matrix, "csr": sp.csr_matrix, "csc": sp.csc_matrix}[fmt]

    class C(type(problem)):
        pass

    w = copy.copy(problem)
    w.__class__ = C
    cache = {}
    born = {}

    def memo(kind, f, mat=False):
        def g(self, x, *a):
            key = (kind, np.asarray(x).tobytes()) + tuple(np.asarray(v).tobytes() for v in a)
            if key not in cache:
                v = f(x, *a)
                cache[key] = conv(v) if mat else (np.array(v, dtype=float) if not np.isscalar(v) else v)
                born[key] = _snap(cache[key])  # the value the caller stored (to be found unchanged later)
            return cache[key]

        return g

    C.obj = memo("obj", problem.obj)
    C.obj_grad = memo("obj_grad", problem.obj_grad)
    C.cons = memo("cons", problem.cons)
    C.cons_jac = memo("cons_jac", problem.cons_jac, True)
    C.lag_hess = memo("lag_hess", problem.lag_hess, True)
    w._cache = cache
    w._born = born
    return w


def _snap(v):
    import scipy.sparse as sp

    if sp.issparse(v):
        c = v.tocoo(copy=True)
        return ("sp", c.shape, c.row.tobytes(), c.col.tobytes(), c.data.tobytes())
    if isinstance(v, np.ndarray):
        return ("nd", v.tobytes())
    return ("sc", repr(v))


@native("native.c11.caller_data", ["C11"])
def caller_data(tier="quick", seed=0, only=None):
    """bounded: (a) every problem-wrapper method called on cached user objects in COO/CSR/CSC: the objects keep their
    values; (b) twin solves: fresh-returning vs memoising problem variants give byte-identical results; x0, y0,
    bounds and scaling weights keep their values"""
    use_repo()
    from pygradflow.cons_problem import ConstrainedProblem
    from pygradflow.scale import ScaledProblem, Scaling

    failures, cases = [], 0
    S = scenarios()
    for name, (mk, x0, y0) in S.items():
        for fmt in FORMATS:
            base = mk()
            n, m = base.num_vars, base.num_cons
            for scaled in (False, True):
                inp = dict(scenario=name, format=fmt, scaled=scaled, level="wrapper-methods")
                if only is not None and only != inp:
                    continue
                cp_ = _caching(base, fmt)
                scaling = Scaling(np.arange(n) % 3 - 1, (np.arange(m) % 3) - 1, 2)
                inner = ScaledProblem(cp_, scaling) if scaled else cp_
                tp = ConstrainedProblem(inner)
                x = np.linspace(0.1, 0.7, tp.num_vars)
                y = np.linspace(-0.3, 0.4, m)
                for meth, args in (("obj", (x,)), ("obj_grad", (x,)), ("cons", (x,)), ("cons_jac", (x,)), ("lag_hess", (x, y))):
                    if m == 0 and meth in ("cons", "cons_jac"):
                        continue
                    getattr(tp, meth)(*args)  # fills the cache
                    before = {k: _snap(v) for k, v in cp_._cache.items()}
                    getattr(tp, meth)(*args)
                    after = {k: _snap(v) for k, v in cp_._cache.items()}
                    cases += 1
                    changed = [k[0] for k in before if before[k] != after[k]]
                    if changed:
                        failures.append(dict(label=f"C11:cached_{changed[0]}_object_modified_by_{'ScaledProblem' if scaled else 'ConstrainedProblem'}.{meth}:{fmt}", input=dict(inp, method=meth), observed=f"cached {changed} changed value"))
            # (b) twin solves
            for scal in ("none", "custom", "none/single"):
                inp = dict(scenario=name, format=fmt, scaling=scal, level="solve")
                if only is not None and only != inp:
                    continue
                kw = dict(iteration_limit=30)
                if scal.endswith("single"):
                    kw.update(precision=enum("Precision", "Single"))
                if scal == "custom":
                    from pygradflow.params import ScalingType

                    kw.update(scaling=Scaling(np.arange(n) % 3 - 1, (np.arange(m) % 3) - 1, 1), scaling_type=ScalingType.Custom)
                pa = mk_params(**kw)
                xa = None if x0 is None else np.array(x0, copy=True)
                ya = None if y0 is None else np.array(y0, copy=True)
                fresh = run(mk(), pa, xa, ya)
                cach_p = _caching(mk(), fmt)
                owned = dict(x0=xa, y0=ya, var_lb=cach_p.var_lb, var_ub=cach_p.var_ub, cons_lb=cach_p.cons_lb, cons_ub=cach_p.cons_ub)
                if scal == "custom":
                    owned.update(var_weights=pa.scaling.var_weights, cons_weights=pa.scaling.cons_weights)
                snaps = {k: _snap(v) for k, v in owned.items() if v is not None}
                cached = run(cach_p, pa, xa, ya)
                cases += 1
                for k, v in owned.items():
                    if v is not None and _snap(v) != snaps[k]:
                        failures.append(dict(label=f"C11:{k}_modified_by_solve", input=inp, observed=k))
                diff = _same_trajectory(fresh, cached)
                if diff:
                    failures.append(dict(label=f"C11:cached_callbacks_change_the_result:{fmt}:{scal}", input=inp, observed=diff))
                # every object the callbacks handed out still holds the value (and dtype) it was created with
                touched = [k[0] for k, v0 in cach_p._born.items() if _snap(cach_p._cache[k]) != v0]
                if touched:
                    failures.append(dict(label=f"C11:object_returned_by_{touched[0]}_callback_modified_by_solve:{fmt}:{scal}", input=inp, observed=f"{len(touched)} cached callback results changed ({sorted(set(touched))})"))
    # (c) the flow-integration solver on the same cached problems: whatever its run ends in (it has internal
    # assertions), every object the callbacks handed out keeps its value
    from pygradflow.integration.integration_solver import IntegrationSolver

    import warnings as _w

    for name, (mk, x0, y0) in S.items():
        if name == "qp_big_multipliers":
            continue
        for fmt in FORMATS[: (1 if tier == "quick" else 3)]:
            inp = dict(scenario=name, format=fmt, level="integration-solve")
            if only is not None and only != inp:
                continue
            cach_p = _caching(mk(), fmt)
            xa = None if x0 is None else np.array(x0, copy=True)
            ya = None if y0 is None else np.array(y0, copy=True)
            owned = dict(x0=xa, y0=ya, var_lb=cach_p.var_lb, var_ub=cach_p.var_ub, cons_lb=cach_p.cons_lb, cons_ub=cach_p.cons_ub)
            snaps = {k: _snap(v) for k, v in owned.items() if v is not None}
            cases += 1
            try:
                with _w.catch_warnings():
                    _w.simplefilter("ignore")
                    IntegrationSolver(cach_p, mk_params(iteration_limit=20, time_limit=20.0)).solve(xa, ya)
            except Exception:  # noqa  (no result: only the caller's data is judged here)
                pass
            for k, v in owned.items():
                if v is not None and _snap(v) != snaps[k]:
                    failures.append(dict(label=f"C11:{k}_modified_by_integration_solve", input=inp, observed=k))
            touched = [k[0] for k, v0 in cach_p._born.items() if _snap(cach_p._cache[k]) != v0]
            if touched:
                failures.append(dict(label=f"C11:object_returned_by_{touched[0]}_callback_modified_by_integration_solve:{fmt}", input=inp, observed=f"{len(touched)} cached callback results changed ({sorted(set(touched))})"))
    seen, uniq = set(), []
    for f in failures:
        if f["label"] not in seen:
            seen.add(f["label"])
            uniq.append(f)
    return result(cases, uniq, "scenario list x {COO,CSR,CSC} x {unscaled, custom scaling}; wrapper methods, 30-iteration solves and 20-iteration flow-integration solves")


FORMATS = ["coo", "csr", "csc"]


@native("native.solve.prefix", ["C08"])
def solve_prefix(tier="quick", seed=0, only=None):
    """bounded: for every iteration budget k <= K and every deadline position j <= Jmax in the sequence of clock reads
    (virtual clock), the limited run is a prefix of the unlimited one and returns its last accepted iterate"""
    use_repo()
    from pygradflow.status import SolverStatus

    failures, cases = [], 0
    S = scenarios()
    names = ["qp_eq_box", "nlp_mixed"] if tier == "quick" else list(S)
    K = 8 if tier == "quick" else 40
    J = 25 if tier == "quick" else 200
    for name in names:
        mk, x0, y0 = S[name]
        for ctrl in (["DistanceRatio", "Exact"] if tier == "quick" else CONTROLLERS):
            kw = dict(step_control_type=enum("StepControlType", ctrl))
            ref = run(mk(), mk_params(iteration_limit=K + 50, **kw), x0, y0)

            def state_before(rec, k):
                """internal (x, y) the reference run had before its k-th trial"""
                if k < len(rec.trials):
                    itx = rec.trials[k]["start"]
                else:
                    last = rec.trials[-1]
                    itx = last["res"].iterate if (last["accepted"] and rec.result is not None and np.array_equal(rec.solver.transform.restore_sol(last["res"].iterate.x, last["res"].iterate.y, last["res"].iterate.bounds_dual)[0], rec.result.x)) else last["start"]
                return itx

            for k in range(0, min(K, len(ref.trials)) + 1):
                inp = dict(scenario=name, controller=ctrl, iteration_limit=k)
                if only is not None and only != inp:
                    continue
                lim = run(mk(), mk_params(iteration_limit=k, **kw), x0, y0)
                cases += 1
                if lim.exc is not None or lim.result is None:
                    failures.append(dict(label="C08:limited_run_raises", input=inp, observed=repr(lim.exc)))
                    continue
                if len(lim.trials) != k or lim.result.iterations != k or lim.result.status != SolverStatus.IterationLimit:
                    if not (len(ref.trials) < k):
                        failures.append(dict(label="C08:limit_k=>exactly_k_trials_and_IterationLimit", input=inp, observed=(len(lim.trials), lim.result.iterations, str(lim.result.status))))
                        continue
                for q in range(min(k, len(lim.trials))):
                    a, b = ref.trials[q], lim.trials[q]
                    if a["dt"] != b["dt"] or a["rho"] != b["rho"] or a["accepted"] != b["accepted"] or a["res"].iterate.x.tobytes() != b["res"].iterate.x.tobytes():
                        failures.append(dict(label="C08:trial_steps_identical_up_to_the_limit", input=inp, observed=q))
                        break
                exp = state_before(ref, k) if k < len(ref.trials) else None
                if exp is not None:
                    ex = ref.solver.transform.restore_sol(exp.x, exp.y, exp.bounds_dual)
                    if ex[0].tobytes() != lim.result.x.tobytes() or ex[1].tobytes() != lim.result.y.tobytes():
                        failures.append(dict(label="C08:returns_the_last_iterate_accepted_before_the_stop", input=inp, observed=(ex[0].tolist(), lim.result.x.tolist())))
            # deadline positions
            base = run(mk(), mk_params(iteration_limit=K + 50, time_limit=1e6, **kw), x0, y0, clock=10**9)
            for j in range(1, J + 1):
                inp = dict(scenario=name, controller=ctrl, deadline_after_clock_read=j)
                if only is not None and only != inp:
                    continue
                lim = run(mk(), mk_params(iteration_limit=K + 50, time_limit=1e6, **kw), x0, y0, clock=j)
                cases += 1
                if lim.exc is not None or lim.result is None:
                    failures.append(dict(label="C08:deadline_run_raises", input=inp, observed=repr(lim.exc)))
                    continue
                if lim.result.status not in (SolverStatus.TimeLimit,) and len(lim.trials) < len(base.trials):
                    failures.append(dict(label="C08:early_stop_has_status_TimeLimit", input=inp, observed=str(lim.result.status)))
                nacc = 0
                for q in range(len(lim.trials)):
                    if q >= len(base.trials):
                        break
                    a, b = base.trials[q], lim.trials[q]
                    same = a["dt"] == b["dt"] and a["rho"] == b["rho"] and a["start"].x.tobytes() == b["start"].x.tobytes()
                    if not same:
                        failures.append(dict(label="C08:deadline:trial_steps_start_identically", input=inp, observed=q))
                        break
                if lim.result.status == SolverStatus.TimeLimit and lim.trials:
                    # the returned point is an iterate the unlimited run had (never a partial / rejected trial point)
                    cand = [t["start"] for t in base.trials] + [base.trials[-1]["res"].iterate]
                    xs = [base.solver.transform.restore_sol(c.x, c.y, c.bounds_dual)[0].tobytes() for c in cand]
                    if lim.result.x.tobytes() not in xs:
                        failures.append(dict(label="C08:deadline:returned_point_is_an_accepted_iterate_of_the_unlimited_run", input=inp, observed=lim.result.x.tolist()))
                if lim.result.iterations != len(lim.trials):
                    failures.append(dict(label="C08:deadline:counters_consistent", input=inp, observed=(lim.result.iterations, len(lim.trials))))
    seen, uniq = set(), []
    for f in failures:
        if f["label"] not in seen:
            seen.add(f["label"])
            uniq.append(f)
    return result(cases, uniq, f"scenarios {names}; budgets k<={K}; deadline at clock read j<={J}")


@native("native.solve.repeat", ["C10"])
def solve_repeat(tier="quick", seed=0, only=None):
    """bounded: the same Solver object solved repeatedly, and fresh solvers after other solves, give byte-identical
    trajectories (every penalty policy x controller on the scenario list)"""
    use_repo()
    failures, cases = [], 0
    S = scenarios()
    names = ["qp_eq_box", "nlp_mixed"] if tier == "quick" else list(S)
    for name in names:
        mk, x0, y0 = S[name]
        for pol in POLICIES:
            for ctrl in (["DistanceRatio"] if tier == "quick" else ["DistanceRatio", "Exact", "ResiduumRatio"]):
                inp = dict(scenario=name, policy=pol, controller=ctrl)
                if only is not None and only != inp:
                    continue
                params = mk_params(penalty_update=enum("PenaltyUpdate", pol), step_control_type=enum("StepControlType", ctrl), iteration_limit=40, rho=1e-2)
                first = run(mk(), params, x0, y0)
                # second solve on the SAME solver object
                rec2 = Record()
                solver = first.solver
                from pygradflow.callbacks import CallbackType

                orig_cs = solver._compute_step.__func__ if hasattr(solver._compute_step, "__func__") else None
                first_trials = list(first.trials)
                first.trials.clear()
                try:
                    res2 = solver.solve(x0, y0)
                    exc2 = None
                except Exception as e:  # noqa
                    res2, exc2 = None, e
                second_trials = list(first.trials)
                cases += 1
                if (exc2 is None) != (first.exc is None):
                    failures.append(dict(label=f"C10:second_solve_on_same_solver_differs(raise):{pol}", input=inp, observed=repr(exc2)))
                    continue
                if len(second_trials) != len(first_trials):
                    failures.append(dict(label=f"C10:second_solve_on_same_solver_differs:{pol}", input=inp, observed=f"{len(first_trials)} vs {len(second_trials)} trials"))
                    continue
                for q, (a, b) in enumerate(zip(first_trials, second_trials)):
                    if a["dt"] != b["dt"] or a["rho"] != b["rho"] or a["accepted"] != b["accepted"] or a["res"].iterate.x.tobytes() != b["res"].iterate.x.tobytes():
                        failures.append(dict(label=f"C10:second_solve_on_same_solver_differs:{pol}", input=inp, observed=f"trial {q}"))
                        break
                # same solver, DIFFERENT arguments afterwards: must equal a fresh solver with those arguments
                base_p = mk()
                m_ = base_p.num_cons
                if m_:
                    y_alt = np.full(m_, 0.75)
                    first.trials.clear()
                    try:
                        res3, exc3 = solver.solve(x0, y_alt), None
                    except Exception as e:  # noqa
                        res3, exc3 = None, e
                    third = list(first.trials)
                    ref3 = run(mk(), params, x0, y_alt)
                    same3 = len(third) == len(ref3.trials) and all(a["dt"] == b["dt"] and a["rho"] == b["rho"] and a["res"].iterate.x.tobytes() == b["res"].iterate.x.tobytes() and a["start"].y.tobytes() == b["start"].y.tobytes() for a, b in zip(third, ref3.trials))
                    if not same3:
                        failures.append(dict(label=f"C10:solve_with_new_arguments_on_a_used_solver_differs_from_a_fresh_solver:{pol}", input=inp, observed=f"{len(third)} vs {len(ref3.trials)} trials"))
                    # and with the default start (x0=None) after a solve with other multipliers
                    first.trials.clear()
                    try:
                        solver.solve(None, None)
                        solver_trials_a = list(first.trials)
                        first.trials.clear()
                        solver.solve(None, y_alt)
                        solver_trials_b = list(first.trials)
                        ref_b = run(mk(), params, None, y_alt)
                        if not (len(solver_trials_b) == len(ref_b.trials) and all(a["start"].y.tobytes() == b["start"].y.tobytes() and a["res"].iterate.x.tobytes() == b["res"].iterate.x.tobytes() for a, b in zip(solver_trials_b, ref_b.trials))):
                            failures.append(dict(label=f"C10:default_start_then_new_multipliers_differs_from_a_fresh_solver:{pol}", input=inp, observed="trajectories differ"))
                    except Exception as e:  # noqa
                        pass
                # a fresh solver after other solves
                fresh = run(mk(), params, x0, y0)
                first.trials[:] = first_trials
                d = _same_trajectory(first, fresh)
                if d:
                    failures.append(dict(label=f"C10:fresh_solver_after_other_solves_differs:{pol}", input=inp, observed=d))
                # the SAME Params object shared with a solve of a different (unconstrained) problem in between:
                # parameters are inputs, a solve must not rewrite them for whoever uses the object next
                import copy as _copy

                snapshot = _copy.deepcopy({k: getattr(params, k) for k in params.__dataclass_fields__ if k not in ("scaling",)})
                mk_u, x0_u, y0_u = S["qp_uncons_box"]
                run(mk_u(), params, x0_u, y0_u)
                changed = [k for k, v in snapshot.items() if repr(getattr(params, k)) != repr(v)]
                if changed:
                    failures.append(dict(label=f"C10:solve_rewrites_the_caller's_Params_object:{changed[0]}", input=inp, observed=f"fields changed by a solve: {changed}"))
                again = run(mk(), params, x0, y0)
                d2 = _same_trajectory(fresh, again)
                if d2:
                    failures.append(dict(label=f"C10:solve_after_an_unrelated_solve_sharing_the_Params_object_differs:{pol}", input=inp, observed=d2))
    # a parameter sweep on ONE Params object: after a solve the caller changes a field and solves again with a new
    # Solver - the result must be the one a fresh Params object with the same field values gives (nothing derived
    # from the parameters may be remembered on the object)
    import dataclasses as _dc

    sweeps = [("precision", enum("Precision", "Single")), ("opt_tol", 1e-3), ("rho", 1.0), ("lamb_init", 1e-2), ("newton_type", enum("NewtonType", "Full"))]
    for name in names[:1] if tier == "quick" else names:
        mk, x0, y0 = S[name]
        for field, value in sweeps:
            inp = dict(scenario=name, level="parameter-sweep", field=field)
            if only is not None and only != inp:
                continue
            params = mk_params(iteration_limit=25)
            run(mk(), params, x0, y0)
            setattr(params, field, value)
            swept = run(mk(), params, x0, y0)
            fresh_params = type(params)(**{f_.name: getattr(params, f_.name) for f_ in _dc.fields(params)})
            ref = run(mk(), fresh_params, x0, y0)
            cases += 1
            d3 = _same_trajectory(ref, swept)
            if d3 is None and ref.result is not None and swept.result is not None and ref.result.x.dtype != swept.result.x.dtype:
                d3 = f"result dtype {swept.result.x.dtype} vs {ref.result.x.dtype}"
            if d3:
                failures.append(dict(label=f"C10:solve_after_changing_a_field_of_a_used_Params_object_differs_from_a_fresh_Params:{field}", input=inp, observed=d3))
    seen, uniq = set(), []
    for f in failures:
        if f["label"] not in seen:
            seen.add(f["label"])
            uniq.append(f)
    return result(cases, uniq, f"scenarios {names} x 6 penalty policies x controllers; 40 iterations; parameter sweeps on one Params object")


@native("native.solve.kkt_scaled", ["C01", "C04", "C05"])
def solve_kkt_scaled(tier="quick", seed=0, only=None):
    """bounded: the C01 oracle (independent dense KKT check of the USER's problem with the scaled tolerances) on
    solves under custom power-of-two scalings (incl. non-zero objective weight) and the automatic scalings"""
    use_repo()
    from pygradflow.params import ScalingType
    from pygradflow.scale import Scaling
    from pygradflow.status import SolverStatus

    rng = np.random.default_rng(11 + seed)
    failures, cases = [], 0
    S = scenarios()
    names = ["qp_eq_box", "qp_ranged_fixed", "nlp_mixed", "qp_uncons_box"] if tier == "quick" else [n for n in S if n != "infeasible"]
    for name in names:
        mk, x0, y0 = S[name]
        base = mk()
        n, m = base.num_vars, base.num_cons
        variants = [("custom", dict(vw=rng.integers(-2, 3, n), cw=rng.integers(-2, 3, m), ow=int(o))) for o in (0, 2, -1)]
        if tier != "quick":
            variants += [("custom", dict(vw=rng.integers(-3, 4, n), cw=rng.integers(-3, 4, m), ow=int(rng.integers(-3, 4)))) for _ in range(4)]
        # weights handed over as SMALL integer types and of large magnitude (Scaling accepts any integer dtype):
        # the exact power-of-two mapping must not depend on the integer width
        variants += [("custom_int8", dict(vw=np.full(n, e, dtype=np.int8), cw=np.zeros(m, dtype=np.int8), ow=0)) for e in (-20, 30)]
        for kind, w in variants:
            for ss in (["Symmetric"] if tier == "quick" else ["Symmetric", "Standard"]):
                inp = dict(scenario=name, scaling=kind, var_weights=w["vw"].tolist(), cons_weights=w["cw"].tolist(), obj_weight=w["ow"], step_solver=ss)
                if only is not None and only != inp:
                    continue
                sc = Scaling(w["vw"], w["cw"], w["ow"])
                params = mk_params(scaling=sc, scaling_type=ScalingType.Custom, step_solver_type=enum("StepSolverType", ss), iteration_limit=300)
                problem = mk()
                rec = run(problem, params, x0, y0)
                cases += 1
                bad = box_failures(rec, problem)  # judged whatever the run ends in
                if bad and not any(f["label"] == "C05:scaled:evaluation_outside_box" for f in failures):
                    failures.append(dict(label="C05:scaled:evaluation_outside_box", input=inp, observed=repr(bad[0])[:200]))
                if rec.exc is not None or rec.result is None:
                    continue
                if rec.result.status == SolverStatus.Optimal:
                    for lab, data in kkt_failures(problem, rec.result, params, scaling=sc):
                        if not any(f["label"] == "C01:scaled:" + lab for f in failures):
                            failures.append(dict(label="C01:scaled:" + lab, input=inp, observed=repr(data)[:300]))
    return result(cases, failures, f"scenarios {names} x custom scalings (weights in [-2,2], obj_weight in {{0,2,-1}}; int8 weights -20 / +30)")


@native("native.solve.degenerate", ["C06"])
def solve_degenerate(tier="quick", seed=0, only=None):
    """bounded: degenerate problem classes of the C06 quantifier (all variables active and no constraints, fixed
    variables, empty reduced systems) x every step solver x reporting options: solve() ends with a status or one of
    its deliberate errors, and x, y, d are finite"""
    use_repo()
    QP, NLP, Infeasible = _mk_problems()
    inf = np.inf
    D = {
        "lp_all_active_no_cons": (lambda: QP(np.zeros((2, 2)), [1, 1], np.zeros((0, 2)), [], [], [0, 0], [1, 1]), np.array([0.3, 0.3])),
        "all_fixed_no_cons": (lambda: QP([[1, 0], [0, 1]], [1, -1], np.zeros((0, 2)), [], [], [0.5, -0.25], [0.5, -0.25]), np.array([0.5, -0.25])),
        "all_fixed_one_eq": (lambda: QP([[1, 0], [0, 1]], [1, -1], [[1, 1]], [0.25], [0.25], [0.5, -0.25], [0.5, -0.25]), np.array([0.5, -0.25])),
        "steep_lp_all_active": (lambda: QP(np.zeros((3, 3)), [1e6, -1e6, 1e6], np.zeros((0, 3)), [], [], [0, 0, 0], [1, 1, 1]), np.array([0.5, 0.5, 0.5])),
        "one_var_ranged_row_active": (lambda: QP([[0.0]], [1.0], [[1.0]], [0.25], [0.75], [0.0], [1.0]), np.array([0.5])),
        # H + lamb*I cancels exactly for the default lamb_init = 1 (stored zeros are dropped from sparse sums)
        "concave_qp_diagonal_cancels": (lambda: QP([[-1.0, 0.0], [0.0, -1.0]], [0.0, 0.0], np.zeros((0, 2)), [], [], [-1, -1], [1, 1]), np.array([0.5, -0.25])),
        "concave_qp_diagonal_cancels_eq_row": (lambda: QP([[-1.0, 0.0, 0.0], [0.0, -1.0, 0.0], [0.0, 0.0, 1.0]], [0.0, 0.0, 0.0], [[0, 0, 1.0]], [0.5], [0.5], [-1, -1, -1], [1, 1, 1]), np.array([0.5, -0.25, 0.0])),
    }
    failures, cases = [], 0
    names = list(D)
    reporting = [dict(), dict(report_rcond=True), dict(report_rcond=True, collect_path=True, display_interval=0.0), dict(deriv_check=enum("DerivCheck", "CheckAll"))]
    for name in names:
        mk, x0 = D[name]
        for ss in STEP_SOLVERS:
            for nt in (NEWTON[:1] if tier == "quick" else NEWTON[:3]):
                for ri, rep in enumerate(reporting):
                    inp = dict(problem=name, step_solver=ss, newton=nt, reporting=ri)
                    if only is not None and only != inp:
                        continue
                    problem = mk()
                    params = mk_params(step_solver_type=enum("StepSolverType", ss), newton_type=enum("NewtonType", nt), iteration_limit=60, **rep)
                    rec = run(problem, params, x0, None, callbacks=False)
                    cases += 1
                    if rec.exc is not None:
                        msg = str(rec.exc)
                        ok = (type(rec.exc) is Exception and msg.startswith(("Inverse step size", "Failed to evaluate initial iterate", "Line search failed", "Derivative check failed"))) or type(rec.exc).__name__ == "DerivError"  # (the checker's own, deliberate error)
                        if not ok:
                            failures.append(dict(label=f"C06:internal_error_escapes_solve:{type(rec.exc).__name__}", input=inp, observed=f"{type(rec.exc).__name__}: {msg[:200]}"))
                        continue
                    res = rec.result
                    if not (np.all(np.isfinite(res.x)) and np.all(np.isfinite(res.y)) and np.all(np.isfinite(res.d))):
                        failures.append(dict(label="C06:non-finite_result", input=inp, observed=str(res.status)))
    # a step controller that never changes the step (Fixed) with a penalty FILTER: the same trial is vetoed over and
    # over and the filter multiplies its penalty by ten each time, without bound (floating-point overflow to inf after
    # ~316 vetoes).  The run has to end with a status or a deliberate error all the same.
    import scipy.sparse as _sp
    from pygradflow.problem import Problem as _Problem

    class _Sqrt(_Problem):
        """min sqrt(1 + x0^2)  [s.t. x1 = 0]: from x0 = 2 with lamb = 0.01 the single Newton step overshoots"""

        def __init__(self, constrained):
            self.constrained = constrained
            kw = dict(cons_lb=np.array([0.0]), cons_ub=np.array([0.0])) if constrained else {}
            super().__init__(np.full(2, -np.inf), np.full(2, np.inf), **kw)

        def obj(self, x):
            return float(np.sqrt(1 + x[0] ** 2))

        def obj_grad(self, x):
            return np.array([x[0] / np.sqrt(1 + x[0] ** 2), 0.0])

        def cons(self, x):
            return np.array([x[1]]) if self.constrained else np.array([])

        def cons_jac(self, x):
            return _sp.coo_matrix(np.array([[0.0, 1.0]])) if self.constrained else _sp.coo_matrix((0, 2))

        def lag_hess(self, x, y):
            return _sp.coo_matrix(np.array([[(1 + x[0] ** 2) ** -1.5, 0.0], [0.0, 0.0]]))

    for constrained in (False, True):
        for pol in ("ObjectiveFilter", "LagrangianFilter"):
            variant = ("constrained" if constrained else "unconstrained") + "/" + pol
            inp = dict(problem="sqrt_fixed_step", variant=variant)
            if only is not None and only != inp:
                continue
            params = mk_params(step_control_type=enum("StepControlType", "Fixed"), penalty_update=enum("PenaltyUpdate", pol), lamb_init=0.01, iteration_limit=(600 if tier == "quick" else 2000))
            rec = run(_Sqrt(constrained), params, np.array([2.0, 0.0]), (np.array([0.0]) if constrained else None), callbacks=False)
            cases += 1
            if rec.exc is not None:
                msg = str(rec.exc)
                ok = type(rec.exc) is Exception and msg.startswith(("Inverse step size", "Failed to evaluate initial iterate", "Line search failed"))
                if not ok:
                    failures.append(dict(label=f"C06:fixed_step_with_filter_penalty:{variant}:internal_error_escapes_solve:{type(rec.exc).__name__}", input=inp, observed=f"{type(rec.exc).__name__}: {msg[:200]}"))
    seen, uniq = set(), []
    for f in failures:
        if f["label"] not in seen:
            seen.add(f["label"])
            uniq.append(f)
    return result(cases, uniq, f"degenerate problems {names} x step solvers {STEP_SOLVERS} x reporting options; Fixed step control x penalty filters on an overshooting instance")


@native("native.solve.precision", ["C06", "C05"])
def solve_precision(tier="quick", seed=0, only=None):
    """bounded: Precision.Single (outside the double-precision reading A4 of the symbolic units) on problems whose
    bounds float32 cannot represent: solve() must not die from an internal assertion, x, y are float32 and finite,
    and every evaluation point / the returned x stay inside the bounds rounded to the working precision"""
    use_repo()
    QP, NLP, Infeasible = _mk_problems()
    inf = np.inf
    D = {
        "box_0.7_0.3": (lambda: QP([[1, 0], [0, 1]], [1, -1], np.zeros((0, 2)), [], [], [0.7, -1.0], [1.0, 0.3]), np.array([0.9, 0.0])),
        "fixed_0.1_ranged_row": (lambda: QP([[2, 0], [0, 1]], [-1, 1], [[1, 1]], [0.1], [0.7], [0.1, -0.3], [0.1, 0.9]), np.array([0.1, 0.2])),
        "eq_row_box_thirds": (lambda: QP([[1, 0.2, 0], [0.2, 1, 0], [0, 0, 1]], [1, -2, 0.5], [[1, 1, 1]], [1 / 3], [1 / 3], [-1 / 3, -1 / 3, -1 / 3], [1 / 3, 2 / 3, 1 / 3]), np.array([0.1, 0.1, 0.1])),
    }
    failures, cases = [], 0
    starts = {"box_0.7_0.3": [np.array([0.9, 0.0]), np.array([0.7, 0.3]), np.array([0.7 + 1e-9, 0.3 - 1e-9])], "fixed_0.1_ranged_row": [np.array([0.1, 0.2])], "eq_row_box_thirds": [np.array([0.1, 0.1, 0.1]), np.array([1 / 3, 2 / 3, -1 / 3])]}
    for name, (mk, _x0) in D.items():
      for si, x0 in enumerate(starts[name]):
        for ss in (STEP_SOLVERS if si == 0 else STEP_SOLVERS[:1]):
            for nt in (NEWTON[:2] if tier == "quick" else NEWTON):
                inp = dict(problem=name, start=x0.tolist(), step_solver=ss, newton=nt)
                if only is not None and only != inp:
                    continue
                problem = mk()
                params = mk_params(step_solver_type=enum("StepSolverType", ss), newton_type=enum("NewtonType", nt), precision=enum("Precision", "Single"), iteration_limit=40)
                rec = run(problem, params, x0, None, callbacks=False)
                cases += 1
                if rec.exc is not None:
                    msg = str(rec.exc)
                    ok = type(rec.exc) is Exception and msg.startswith(("Inverse step size", "Failed to evaluate initial iterate", "Line search failed"))
                    if not ok:
                        failures.append(dict(label=f"C06:internal_error_escapes_solve:{type(rec.exc).__name__}", input=inp, observed=f"{type(rec.exc).__name__}: {msg[:200]}"))
                    continue
                res = rec.result
                if res.x.dtype != np.float32 or res.y.dtype != np.float32:
                    failures.append(dict(label="C06:result_not_in_working_precision", input=inp, observed=f"{res.x.dtype} {res.y.dtype}"))
                if not (np.all(np.isfinite(res.x)) and np.all(np.isfinite(res.y)) and np.all(np.isfinite(res.d))):
                    failures.append(dict(label="C06:non-finite_result", input=inp, observed=str(res.status)))
                # a point handed to the user's callbacks must lie in the user's box (double-precision points: the user's
                # own start) or in the box the solver itself works with (its bounds in working precision)
                n = problem.num_vars
                wl, wu = np.asarray(rec.solver.problem.var_lb[:n], float), np.asarray(rec.solver.problem.var_ub[:n], float)
                pts = [("returned_x", np.asarray(res.x))] + [(k, np.asarray(x)) for (k, x) in rec.evals]
                for k, x in pts:
                    xx = np.asarray(x[:n], float)
                    in_user = np.all(problem.var_lb <= xx) and np.all(xx <= problem.var_ub)
                    in_work = np.all(wl <= xx) and np.all(xx <= wu)
                    if not (in_user or in_work):
                        failures.append(dict(label=f"C05:single_precision:{'evaluation' if k != 'returned_x' else 'result'}_outside_both_the_user's_and_the_working-precision_bounds", input=inp, observed=f"{k} at {xx!r}, working bounds {wl!r}..{wu!r}"))
                        break
    seen, uniq = set(), []
    for f in failures:
        if f["label"] not in seen:
            seen.add(f["label"])
            uniq.append(f)
    return result(cases, uniq, f"single precision: problems {list(D)} x step solvers x Newton types")


@native("native.integration.kkt", ["C01"])
def integration_kkt(tier="quick", seed=0, only=None):
    """bounded: the flow-integration solver (not under contract: SciPy's BDF integrator and event root finding sit
    between its gate and the result) - whenever it returns Optimal, the independent dense KKT oracle of the user's
    problem must hold.  Runs that end in one of its internal assertions are counted, not judged (they return no
    Optimal result)."""
    use_repo()
    from pygradflow.integration.integration_solver import IntegrationSolver
    from pygradflow.status import SolverStatus

    S = dict(scenarios())
    S.pop("qp_big_multipliers", None)
    import scipy.sparse as _sp
    from pygradflow.problem import Problem as _Problem

    class PinnedWrongSign(_Problem):
        """x in [0,1] starts ON its lower bound; the objective wants to leave it (grad f = -1e-5), the nearly
        satisfied equality row 100 x + 5e-7 = 0 makes the PENALISED gradient point the other way for rho >= 1"""

        def __init__(self):
            super().__init__(np.array([0.0]), np.array([1.0]), cons_lb=np.array([0.0]), cons_ub=np.array([0.0]))

        def obj(self, x):
            return -1e-5 * x[0]

        def obj_grad(self, x):
            return np.array([-1e-5])

        def cons(self, x):
            return np.array([100 * x[0] + 5e-7])

        def cons_jac(self, x):
            return _sp.coo_matrix(np.array([[100.0]]))

        def lag_hess(self, x, y):
            return _sp.coo_matrix((1, 1))

    S["pinned_at_bound_wrong_sign"] = (lambda fmt=None: PinnedWrongSign(), np.array([0.0]), np.array([0.0]))
    failures, cases, optimal, crashed = [], 0, 0, 0
    variants = [dict(), dict(opt_tol=1e-4), dict(rho=1.0)] if tier == "quick" else [dict(), dict(opt_tol=1e-4), dict(rho=1.0), dict(opt_tol=1e-8), dict(rho=10.0)]
    for name, (mk, x0, y0) in S.items():
        for vi, kw in enumerate(variants):
            inp = dict(scenario=name, variant=vi)
            if only is not None and only != inp:
                continue
            problem = mk()
            params = mk_params(iteration_limit=200, **kw)
            cases += 1
            try:
                res = IntegrationSolver(problem, params).solve(x0, y0)
            except Exception:  # noqa  (internal assertion / root finder: no result, nothing to judge for C01)
                crashed += 1
                continue
            if res.status == SolverStatus.Optimal:
                optimal += 1
                for lab, data in kkt_failures(problem, res, params):
                    failures.append(dict(label=f"C01:integration_solver:{name}:optimal_violates_" + lab, input=inp, observed=repr(data)[:200]))
    seen, uniq = set(), []
    for f in failures:
        if f["label"] not in seen:
            seen.add(f["label"])
            uniq.append(f)
    return result(cases, uniq, f"IntegrationSolver on {list(S)} x {len(variants)} parameter variants: {optimal} Optimal results judged, {crashed} runs ended in an internal error (not judged)")
