"""Assumptions left unchecked, listed in every evidence file (DESIGN §3)."""
GLOBAL = [
    "A1 real arithmetic: Python float / np.float64 are reals; no rounding, overflow, underflow, NaN (numpy-scalar division by zero is modelled as +-inf/nan)",
    "A2 infinite bounds behave as order-limits of finite ones",
    "A3 library contracts (numpy, scipy.sparse, math, time) in /verif/pyvc/npmodel.py and matmodel.py are assumed; they are exercised natively, not proved",
    "A4 supported configuration: class invariant valid_params / valid_problem (contracts/common.py); precision Double",
    "A5 Python object model: no reflection on the verified paths; methods resolve by the static class hierarchy; user callbacks are functions of their arguments",
    "A6 scope: pygradflow/runners, box_control, opti_control, box_solver, cholesky/ma57/mumps/ssids solvers and FixedActiveSetNewtonMethod are outside every claim",
    "logger.* calls are no-ops (arguments are evaluated); type annotations and docstrings are dropped",
]
PER_PROP = {}
