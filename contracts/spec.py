"""Independent specification functions, written from the mathematics / the property statements
(never from the code): active sets, bound multipliers, residuals, the augmented Lagrangian."""
from __future__ import annotations

import z3

from pyvc import matmodel, ops
from pyvc.core import QAll
from pyvc.values import Arr, Vec, lift


def V(a):
    return a.vec() if isinstance(a, Arr) else a


def near_lower(x, lb, atol):
    return lambda j: ops.zabs(V(x).f(j) - V(lb).f(j)) <= atol


def near_upper(x, ub, atol):
    return lambda j: ops.zabs(V(ub).f(j) - V(x).f(j)) <= atol


def lagr_grad(u, it_obj):
    """j -> g[j] + (J^T y)[j]   with the iterate's own cached g, J, y"""
    g = V(it_obj.fields["obj_grad"])
    Jty = V(matmodel.mtv(u.it, it_obj.fields["cons_jac"], it_obj.fields["y"]))
    return lambda j: g.f(j) + Jty.f(j)


def bounds_dual_spec(u, it_obj, atol):
    """d[j] = r        if x_j is at both bounds (fixed variable)
              min(r,0) if only at the lower bound
              max(r,0) if only at the upper bound
              0        otherwise,                       r = -(g + J^T y)[j]"""
    x = it_obj.fields["x"]
    p = it_obj.fields["problem"]
    nl, nu = near_lower(x, p.fields["var_lb"], atol), near_upper(x, p.fields["var_ub"], atol)
    lg = lagr_grad(u, it_obj)

    def d(j):
        r = -lg(j)
        return z3.If(z3.And(nl(j), nu(j)), r, z3.If(nl(j), ops.zmin(r, 0), z3.If(nu(j), ops.zmax(r, 0), z3.RealVal(0))))

    return d
