"""C16 - the penalty parameter is positive and never decreases: post-conditions of every penalty policy.

Post-conditions are written from the property statement:
  next_rho >= old rho > 0, the policy's own rho equals what it reports,
  Constant never changes it, DualNorm: next_rho <= max(old, ||y_next||inf) and <= 10*old.
"""
from __future__ import annotations

import z3

from pyvc import npmodel, ops
from pyvc.harness import unit
from pyvc.values import PINF

from .common import mk_iterate, mk_params, mk_problem

PEN = "pygradflow.penalty."


def _setup(u, cls, with_rho=True):
    params = mk_params(u)
    problem = mk_problem(u)
    fields = dict(problem=problem, params=params)
    if with_rho:
        rho = u.real("self_rho")
        u.assume(rho > 0)
        fields["rho"] = rho
    s = u.obj(PEN + cls, **fields)
    prev = mk_iterate(u, problem, params, "prev")
    nxt = mk_iterate(u, problem, params, "next")
    return params, problem, s, prev, nxt


def _common_post(u, s, res, old, accept_expected=True):
    nr = u.get(res, "next_rho")
    u.ensure(nr >= old, "next_rho>=old_rho")
    u.ensure(nr > 0, "next_rho>0")
    if "rho" in s.fields:
        u.ensure(s.fields["rho"] == nr, "policy_rho==reported")
    return nr


@unit("C16.Constant.update", ["C16"], [PEN + "ConstantPenalty.update", PEN + "PenaltyStrategy.initial", PEN + "PenaltyResult.accept_with_penalty"])
def constant_update(u):
    params, problem, s, prev, nxt = _setup(u, "ConstantPenalty", with_rho=False)
    r0 = u.method(s, "initial", prev)
    u.ensure(r0 == params.fields["rho"], "initial==params.rho")
    res = u.method(s, "update", prev, nxt)
    nr = u.get(res, "next_rho")
    u.ensure(nr == params.fields["rho"], "constant:next_rho==params.rho")
    u.ensure(nr > 0, "next_rho>0")
    u.ensure(u.get(res, "accept") is True, "accept")
    u.canary(nr > params.fields["rho"], "strictly-greater")
    u.cover("end")


@unit("C16.DualNorm.initial", ["C16"], [PEN + "DualNormUpdate.initial"])
def dualnorm_initial(u):
    params, problem, s, prev, nxt = _setup(u, "DualNormUpdate", with_rho=False)
    r0 = u.method(s, "initial", prev)
    u.ensure(r0 == params.fields["rho"], "initial==params.rho")
    u.ensure(s.fields.get("rho") is not None and s.fields["rho"] == r0, "policy_rho==initial")
    u.ensure(r0 > 0, "initial>0")


@unit("C16.DualNorm.update", ["C16"], [PEN + "DualNormUpdate.update", PEN + "PenaltyResult.accept_with_penalty", PEN + "PenaltyResult.__init__"])
def dualnorm_update(u):
    params, problem, s, prev, nxt = _setup(u, "DualNormUpdate")
    old = s.fields["rho"]
    res = u.method(s, "update", prev, nxt)
    nr = _common_post(u, s, res, old)
    u.ensure(u.get(res, "accept") is True, "accept")
    u.ensure(nr <= 10 * old, "dualnorm:next_rho<=10*old")
    # bound by the multiplier norm of the accepted iterate (spec side evaluates the same norm)
    m = problem.fields["num_cons"]
    ynorm = npmodel.np_norm(u.it, nxt.fields["y"], ord=PINF)
    u.ensure(z3.Implies(m > 0, nr <= ops.zmax(old, ynorm)), "dualnorm:next_rho<=max(old,|y|inf)")
    u.ensure(z3.Implies(m == 0, nr == old), "dualnorm:no-constraints-unchanged")
    u.canary(nr == old, "never-changes")
    u.cover("end")


@unit("C16.DualEquilibration.update", ["C16"], [PEN + "DualEquilibration.update", PEN + "DualEquilibration.initial"])
def dualeq_update(u):
    params, problem, s, prev, nxt = _setup(u, "DualEquilibration")
    old = s.fields["rho"]
    res = u.method(s, "update", prev, nxt)
    _common_post(u, s, res, old)
    u.ensure(u.get(res, "accept") is True, "accept")
    u.cover("end")


@unit("C16.ParetoDecrease.update", ["C16"], [PEN + "ParetoDecrease.update", PEN + "ParetoDecrease.initial"])
def pareto_update(u):
    params, problem, s, prev, nxt = _setup(u, "ParetoDecrease")
    old = s.fields["rho"]
    res = u.method(s, "update", prev, nxt)
    nr = _common_post(u, s, res, old)
    u.ensure(nr <= 10 * old, "pareto:next_rho<=10*old")
    u.ensure(u.get(res, "accept") is True, "accept")
    u.cover("end")


def _filter_unit(u, cls):
    params, problem, s, prev, nxt = _setup(u, cls)
    from .c18_filter import sym_entries, nd_invariant

    sym_entries(u, s)
    old = s.fields["rho"]
    res = u.method(s, "update", prev, nxt)
    nr = _common_post(u, s, res, old)
    acc = u.get(res, "accept")
    if acc is True:
        u.ensure(nr == old, "filter:accepted=>rho_unchanged")
    else:
        u.ensure(acc is False, "filter:accept_is_bool")
        u.ensure(nr == 10 * old, "filter:vetoed=>rho*10")
    u.cover("end")


@unit("C16.ObjectiveFilter.update", ["C16", "C18"], [PEN + "PenaltyFilter.update", PEN + "ObjectivePenaltyFilter.iterate_entry", PEN + "PenaltyFilter.filter_insert"])
def objfilter_update(u):
    _filter_unit(u, "ObjectivePenaltyFilter")


@unit("C16.LagrangianFilter.update", ["C16", "C18"], [PEN + "PenaltyFilter.update", PEN + "LagrangianPenaltyFilter.iterate_entry", PEN + "PenaltyFilter.filter_insert"])
def lagfilter_update(u):
    _filter_unit(u, "LagrangianPenaltyFilter")


@unit("C16.filter.__init__", ["C16", "C18"], [PEN + "PenaltyFilter.__init__", PEN + "PenaltyStrategy.initial"])
def filter_init(u):
    params = mk_params(u)
    problem = mk_problem(u)
    s = u.construct(PEN + "ObjectivePenaltyFilter", problem, params)
    u.ensure(s.fields["rho"] == params.fields["rho"], "init:rho==params.rho")
    ent = s.fields["entries"]
    u.ensure(isinstance(ent.val, list) and len(ent.val) == 0, "init:entries_empty")
    it0 = mk_iterate(u, problem, params, "it0")
    r0 = u.method(s, "initial", it0)
    u.ensure(r0 == params.fields["rho"], "initial==params.rho")


@unit("C16.penalty_strategy.dispatch", ["C16", "C06"], [PEN + "penalty_strategy"])
def dispatch(u):
    """factory dispatch is total on the PenaltyUpdate enum and returns the matching policy class"""
    params = mk_params(u)
    problem = mk_problem(u)
    problem.fields["var_bounded"] = u.bool("var_bounded")
    members = u.enum_members("pygradflow.params.PenaltyUpdate")
    expect = {
        "Constant": "ConstantPenalty",
        "DualNorm": "DualNormUpdate",
        "DualEquilibration": "DualEquilibration",
        "ParetoDecrease": "ParetoDecrease",
        "ObjectiveFilter": "ObjectivePenaltyFilter",
        "LagrangianFilter": "LagrangianPenaltyFilter",
    }
    k = u.path.choose_n(len(members), "policy")
    params.fields["penalty_update"] = u.enum("pygradflow.params.PenaltyUpdate", members[k])
    kind, val = u.raised(lambda: u.call(PEN + "penalty_strategy", problem, params))
    u.ensure(kind == "ok", f"dispatch:{members[k]}:no-raise")
    if kind == "ok":
        u.ensure(val.cls.name == expect.get(members[k]), f"dispatch:{members[k]}:class")


def _fp_policy_unit(cls, label):
    @unit(f"C16.{label}.update.float64", ["C16"], [PEN + ("PenaltyFilter" if "Filter" in cls else cls) + ".update"], config={"max_paths": 50, "timeout_ms": 120000})
    def fp_unit(u):
        """the monotonicity post-condition re-posed in IEEE double arithmetic (finite positive rho, non-NaN norms)"""
        from pyvc import ops as _ops
        from pyvc.interp import PyFunc
        from pyvc.values import Opaque

        F = z3.Float64()
        rho = z3.FP(u.path.fresh_name("rho"), F)
        u.assume(z3.And(z3.Not(z3.fpIsNaN(rho)), z3.Not(z3.fpIsInf(rho)), z3.fpGT(rho, z3.FPVal(0.0, F))))
        params = mk_params(u)
        params.fields["rho"] = rho
        problem = mk_problem(u)
        u.assume(problem.fields["num_cons"] > 0)
        s = u.obj(PEN + cls, problem=problem, params=params, rho=rho)
        if "Filter" in cls:
            s.fields["entries"] = None
            inserted = u.path.choose("filter_insert result")
            u.it.abstract[PEN + "PenaltyFilter.filter_insert"] = lambda it, self_, a, b: inserted
            u.it.abstract[PEN + cls + ".iterate_entry"] = lambda it, self_, itx: (Opaque("a"), Opaque("b"))
        ynorm = z3.FP(u.path.fresh_name("ynorm"), F)
        u.assume(z3.And(z3.Not(z3.fpIsNaN(ynorm)), z3.fpGEQ(ynorm, z3.FPVal(0.0, F))))
        u.it.lib["numpy.linalg.norm"] = lambda it, v, ord=None: ynorm
        nxt = u.obj("pygradflow.iterate.Iterate", y=Opaque("y"))
        res = u.method(s, "update", Opaque("prev"), nxt)
        nr = u.get(res, "next_rho")
        u.ensure(z3.fpGEQ(nr, rho), "float64:next_rho>=old_rho")
        u.ensure(z3.fpGT(nr, z3.FPVal(0.0, F)), "float64:next_rho>0")
        u.ensure(z3.Not(z3.fpIsNaN(nr)), "float64:next_rho_is_not_NaN")
        u.ensure(z3.fpEQ(s.fields["rho"], nr), "float64:policy_rho==reported")

    return fp_unit


_fp_policy_unit("DualNormUpdate", "DualNorm")
_fp_policy_unit("ObjectivePenaltyFilter", "ObjectiveFilter")
