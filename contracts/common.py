"""Shared symbolic inputs and class invariants (DESIGN §3: A4 valid_params / valid_problem)."""
from __future__ import annotations

import z3

from pyvc import ops
from pyvc.core import QAll, UFact
from pyvc.harness import U
from pyvc.values import Arr, Mat, Obj, Opaque, Vec

PARAM_REALS = [
    "rho", "theta_max", "theta_ref", "lamb_init", "lamb_min", "lamb_max", "lamb_inc", "lamb_red", "K_P", "K_I",
    "opt_tol", "lamb_term", "active_tol", "local_infeas_tol", "newton_tol", "deriv_pert", "deriv_tol",
    "time_limit", "display_interval", "obj_lower_limit",
]


def mk_params(u: U, **over) -> Obj:
    """Symbolic Params satisfying the class invariant valid_params (A4). Enum-valued fields are given by
    the harness (case split); everything numeric is a fresh real."""
    p = u.path
    f = {}
    for n in PARAM_REALS:
        f[n] = p.real("params_" + n)
    a = u.assume
    a(f["rho"] > 0)
    a(z3.And(f["lamb_min"] > 0, f["lamb_min"] <= f["lamb_init"], f["lamb_init"] < f["lamb_max"]))
    a(f["lamb_inc"] > 1)
    a(z3.And(f["lamb_red"] > 0, f["lamb_red"] <= 1))
    a(f["opt_tol"] > 0)
    a(f["newton_tol"] > 0)
    a(f["active_tol"] >= 0)
    a(f["local_infeas_tol"] >= 0)
    a(f["theta_max"] > 0)
    a(f["theta_ref"] > 0)
    a(f["K_P"] >= 0)
    a(f["K_I"] >= 0)
    a(f["deriv_pert"] > 0)
    a(f["deriv_tol"] > 0)
    a(f["display_interval"] >= 0)
    f["iteration_limit"] = None
    f["report_rcond"] = False
    f["collect_path"] = False
    f["validate_input"] = True
    f["inertia_correction"] = False
    f["active_set_method"] = None
    f["active_set_tau"] = None
    f["step_solver"] = None
    f["scaling"] = None
    f["scaling_primal"] = None
    f["scaling_dual"] = None
    f["precision"] = u.enum("pygradflow.params.Precision", "Double")
    f["active_set_type"] = u.enum("pygradflow.params.ActiveSetType", "Standard")
    f["newton_type"] = u.enum("pygradflow.params.NewtonType", "Simplified")
    f["step_control_type"] = u.enum("pygradflow.params.StepControlType", "DistanceRatio")
    f["step_solver_type"] = u.enum("pygradflow.params.StepSolverType", "Symmetric")
    f["linear_solver_type"] = u.enum("pygradflow.params.LinearSolverType", "LU")
    f["penalty_update"] = u.enum("pygradflow.params.PenaltyUpdate", "DualNorm")
    f["deriv_check"] = u.enum("pygradflow.params.DerivCheck", "NoCheck")
    f["scaling_type"] = u.enum("pygradflow.params.ScalingType", "NoScaling")
    f.update(over)
    return u.obj("pygradflow.params.Params", **f)


def mk_problem(u: U, n=None, m=None, name="prob", bounds=True) -> Obj:
    """Abstract Problem: dimensions and bound vectors with valid_problem (lb <= ub); callbacks are
    supplied separately (uninterpreted)."""
    p = u.path
    n = p.int(name + "_n") if n is None else n
    m = p.int(name + "_m") if m is None else m
    if not isinstance(n, int):
        u.assume(n >= 0)
    if not isinstance(m, int):
        u.assume(m >= 0)
    lb = u.vec(name + "_var_lb", n, region="USER")
    ub = u.vec(name + "_var_ub", n, region="USER")
    lbv, ubv = lb.vec(), ub.vec()
    p.add_ufact(UFact(1, lambda i: lbv.f(i) <= ubv.f(i), [(0, n)], "valid_problem:lb<=ub"))
    cl = u.vec(name + "_cons_lb", m, region="USER")
    cu = u.vec(name + "_cons_ub", m, region="USER")
    clv, cuv = cl.vec(), cu.vec()
    p.add_ufact(UFact(1, lambda i: clv.f(i) <= cuv.f(i), [(0, m)], "valid_problem:cl<=cu"))
    prob = u.obj("pygradflow.problem.Problem", var_lb=lb, var_ub=ub, cons_lb=cl, cons_ub=cu, num_cons=m)
    prob.fields["__n__"] = n
    return prob


def mk_iterate(u: U, problem: Obj, params: Obj, name="it", evaluated=True, in_box=False) -> Obj:
    """Symbolic Iterate whose cached evaluations are already present (loop invariant 'evaluated')."""
    n = problem.fields["__n__"]
    m = problem.fields["num_cons"]
    x = u.vec(name + "_x", n)
    y = u.vec(name + "_y", m)
    x.cell.writeable = False
    y.cell.writeable = False
    f = dict(x=x, y=y, params=params, problem=problem, eval=Opaque("evaluator"))
    if evaluated:
        f["obj"] = u.real(name + "_obj")
        g = u.vec(name + "_grad", n)
        g.cell.writeable = False
        f["obj_grad"] = g
        c = u.vec(name + "_cons", m)
        c.cell.writeable = False
        f["cons"] = c
        f["cons_jac"] = Mat(m, n, None, name=name + "_J")
    it = u.obj("pygradflow.iterate.Iterate", **f)
    if in_box:
        lb, ub = problem.fields["var_lb"].vec(), problem.fields["var_ub"].vec()
        xv = x.vec()
        u.path.add_ufact(UFact(1, lambda i: z3.And(lb.f(i) <= xv.f(i), xv.f(i) <= ub.f(i)), [(0, n)], "in_box"))
    return it


def forall(n, fn, lo=0):
    return QAll(n, fn, lo)


def absz(t):
    return ops.zabs(t)
