"""C05 - user functions are only evaluated inside the variable bounds.

Class invariant Iterate.in_box:  forall j. lb[j] <= x[j] <= ub[j]  w.r.t. the iterate's own problem.
  * StepResult._compute_xn: xn is the projection of x - dx onto the box, dx is made consistent, the argument dx
    is not modified;  StepResult.iterate builds its Iterate from exactly that xn
  * every Iterate(...) construction site reachable from Solver.solve establishes in_box (call-site obligations,
    the list of sites is recomputed from the AST on every run: a new site is a new, unproved obligation)
  * Transformation.create_transformed_iterate / ConstrainedProblem.transform_sol start inside the box
"""
from __future__ import annotations

import ast

import z3

from pyvc import ops
from pyvc.core import QAll, UFact, Unsupported
from pyvc.harness import unit
from pyvc.repo import ClassInfo, FuncInfo
from pyvc.values import Arr, Obj, Opaque

from .common import mk_iterate, mk_params, mk_problem
from .spec import V

SS = "pygradflow.step.solver.step_solver."


def clip(t, lo, hi):
    return ops.zmin(ops.zmax(t, lo), hi)


@unit("C05._compute_xn", ["C05", "C01", "C15", "C11"], [SS + "StepResult._compute_xn", SS + "StepResult.__init__", SS + "StepResult.iterate", "pygradflow.iterate.Iterate.__init__", "pygradflow.iterate._read_only"])
def compute_xn(u):
    params = mk_params(u)
    problem = mk_problem(u)
    cur = mk_iterate(u, problem, params, "cur")
    n, m = problem.fields["__n__"], problem.fields["num_cons"]
    dx = u.vec("dx", n, region="USER")
    dy = u.vec("dy", m, region="USER")
    dx0 = dx.vec()
    stores = []
    u.it.hooks["store"] = lambda it, cell, frame, node, what: stores.append(cell)
    act_kind = u.path.choose_n(2, "active set given / None")
    active = u.vec("active_set", n, kind="bool") if act_kind == 0 else None
    sr = u.construct(SS + "StepResult", cur, dx, dy, active)
    x, lb, ub = V(cur.fields["x"]), V(problem.fields["var_lb"]), V(problem.fields["var_ub"])
    xn, dxn = V(sr.fields["xn"]), V(sr.fields["dx"])
    u.ensure(QAll(n, lambda j: z3.And(lb.f(j) <= xn.f(j), xn.f(j) <= ub.f(j))), "xn_in_box")
    u.ensure(QAll(n, lambda j: xn.f(j) == clip(x.f(j) - dx0.f(j), lb.f(j), ub.f(j))), "xn_is_projection_of_x-dx")
    u.ensure(QAll(n, lambda j: dxn.f(j) == x.f(j) - xn.f(j)), "dx_consistent_with_xn")
    u.ensure(dx.cell not in stores and cur.fields["x"].cell not in stores and problem.fields["var_lb"].cell not in stores and problem.fields["var_ub"].cell not in stores, "modifies_only_fresh_arrays(dx_argument,x,bounds_untouched)", props=["C11", "C05"])
    u.ensure(QAll(n, lambda j: dx.vec().f(j) == dx0.f(j)), "dx_argument_value_unchanged", props=["C11"])
    # the iterate built from the step result
    it2 = u.get(sr, "iterate")
    x2, y2 = V(it2.fields["x"]), V(it2.fields["y"])
    y = V(cur.fields["y"])
    u.ensure(QAll(n, lambda j: x2.f(j) == xn.f(j)), "iterate.x==xn")
    u.ensure(QAll(n, lambda j: z3.And(lb.f(j) <= x2.f(j), x2.f(j) <= ub.f(j))), "iterate_in_box")
    u.ensure(QAll(m, lambda i: y2.f(i) == y.f(i) - V(dy).f(i)), "iterate.y==y-dy")
    u.ensure(it2.fields["problem"] is problem and it2.fields["eval"] is cur.fields["eval"] and it2.fields["params"] is params, "iterate_shares_problem_params_evaluator")
    u.ensure(it2.fields["x"].cell is not sr.fields["xn"].cell and it2.fields["x"].cell.writeable is False, "iterate_owns_a_read-only_copy_of_x", props=["C11", "C05"])
    u.canary(QAll(n, lambda j: lb.f(j) < xn.f(j)), "xn_strictly_above_lb")
    u.cover("end")


# ----------------------------------------------------------------------------------------------------
# call-site obligations: every Iterate(...) construction reachable from Solver.solve

ROOTS = ["pygradflow.solver.Solver.solve", "pygradflow.solver.Solver.__init__"]
OUT_OF_SCOPE = ("pygradflow.runners", "pygradflow.step.box_control", "pygradflow.step.opti_control", "pygradflow.step.box_solver", "pygradflow.integration")
# construction sites and the contract that establishes in_box for each (function qualname -> reason)
AUDITED_SITES = {
    "pygradflow.step.solver.step_solver.StepResult.iterate": "xn is clipped by _compute_xn (unit C05._compute_xn: iterate_in_box)",
    "pygradflow.transform.Transformation.create_transformed_iterate": "start point: requires in_box(x0) / clip(0) ; slack start is a clip (unit C05.create_transformed_iterate)",
    "pygradflow.iterate.Iterate.copy": "copies self.x (in box by the class invariant)",
    "pygradflow.iterate.Iterate.clipped": "np.clip(x, lb, ub)",
}
KNOWN_UNCLIPPED = {}
AUDITED_SITES["pygradflow.newton.GlobalizedNewtonMethod.step"] = "line-search trial points: in_box is a call-site obligation of unit C05.Globalized.step"


def iterate_sites(repo):
    sites = {}
    for mod in repo.all_modules():
        if mod.name.startswith(OUT_OF_SCOPE):
            continue
        funcs = list(mod.functions.values()) + [f for c in mod.classes.values() for f in c.methods.values()]
        for f in funcs:
            for n in ast.walk(f.node):
                if isinstance(n, ast.Call) and isinstance(n.func, ast.Name) and n.func.id == "Iterate":
                    r = mod.resolve("Iterate")
                    if isinstance(r, ClassInfo) and r.qualname == "pygradflow.iterate.Iterate":
                        sites.setdefault(f.qualname, []).append(n.lineno)
    return sites


@unit("C05.iterate_sites", ["C05"], ["pygradflow.iterate.Iterate.__init__"])
def iterate_construction_sites(u):
    """frame obligation: the set of Iterate construction sites is exactly the audited one"""
    sites = iterate_sites(u.repo)
    for q in sorted(sites):
        if q in KNOWN_UNCLIPPED:
            u.ensure(False, f"construction_site_establishes_in_box:{q}", desc=f"{q}: {KNOWN_UNCLIPPED[q]}")
        else:
            u.ensure(q in AUDITED_SITES, f"construction_site_establishes_in_box:{q}", desc=f"unaudited Iterate(...) construction in {q} (lines {sites[q]})")
    for q in AUDITED_SITES:
        u.ensure(True, f"audited:{q}")


# direct evaluator / problem evaluation call sites outside Iterate
EVAL_ATTRS = {"obj", "obj_grad", "cons", "cons_jac", "lag_hess"}
ALLOWED_EVAL_CALLERS = {
    "pygradflow.iterate.Iterate.obj", "pygradflow.iterate.Iterate.obj_grad", "pygradflow.iterate.Iterate.cons", "pygradflow.iterate.Iterate.cons_jac", "pygradflow.iterate.Iterate.lag_hess",
    "pygradflow.solver.Solver._deriv_check",  # exempt by the statement
    "pygradflow.scale.create_scaling",  # exempt by the statement (user-supplied scaling point)
    "pygradflow.cons_problem.ConstrainedProblem.transform_sol",  # at the scaled x0 (in box: requires in_box(x0))
    # problem wrappers forward the (transformed) point of their caller
    "pygradflow.cons_problem.ConstrainedProblem.obj", "pygradflow.cons_problem.ConstrainedProblem.obj_grad", "pygradflow.cons_problem.ConstrainedProblem.cons",
    "pygradflow.cons_problem.ConstrainedProblem.cons_jac", "pygradflow.cons_problem.ConstrainedProblem.lag_hess",
    "pygradflow.scale.ScaledProblem.obj", "pygradflow.scale.ScaledProblem.obj_grad", "pygradflow.scale.ScaledProblem.cons", "pygradflow.scale.ScaledProblem.cons_jac", "pygradflow.scale.ScaledProblem.lag_hess",
    "pygradflow.eval.Evaluator.obj", "pygradflow.eval.Evaluator.obj_grad", "pygradflow.eval.Evaluator.cons", "pygradflow.eval.Evaluator.cons_jac", "pygradflow.eval.Evaluator.lag_hess",
    "pygradflow.eval.SimpleEvaluator._eval_obj", "pygradflow.eval.SimpleEvaluator._eval_obj_grad", "pygradflow.eval.SimpleEvaluator._eval_cons", "pygradflow.eval.SimpleEvaluator._eval_cons_jac", "pygradflow.eval.SimpleEvaluator._eval_lag_hess",
    "pygradflow.eval.ValidatingEvaluator._eval_obj", "pygradflow.eval.ValidatingEvaluator._eval_obj_grad", "pygradflow.eval.ValidatingEvaluator._eval_cons", "pygradflow.eval.ValidatingEvaluator._eval_cons_jac", "pygradflow.eval.ValidatingEvaluator._eval_lag_hess",
}
EVAL_RECEIVERS = ("eval", "evaluator", "problem", "self.eval", "self.problem", "self.evaluator", "orig_problem", "self.orig_problem")


def eval_call_sites(repo):
    out = {}
    for mod in repo.all_modules():
        if mod.name.startswith(OUT_OF_SCOPE):
            continue
        funcs = list(mod.functions.values()) + [f for c in mod.classes.values() for f in c.methods.values()]
        for f in funcs:
            for n in ast.walk(f.node):
                if isinstance(n, ast.Call) and isinstance(n.func, ast.Attribute) and n.func.attr in EVAL_ATTRS:
                    recv = ast.unparse(n.func.value)
                    if recv in EVAL_RECEIVERS or recv.endswith(".problem") or recv.endswith(".eval"):
                        out.setdefault(f.qualname, []).append((n.lineno, ast.unparse(n.func)))
    return out


@unit("C05.eval_call_sites", ["C05"], ["pygradflow.iterate.Iterate.obj"])
def evaluation_call_sites(u):
    """frame obligation: callbacks are evaluated only through an Iterate's cached properties (x = self.x, in box) or
    at one of the audited / exempt direct sites"""
    sites = eval_call_sites(u.repo)
    for q in sorted(sites):
        u.ensure(q in ALLOWED_EVAL_CALLERS, f"evaluation_only_through_Iterate_or_audited_site:{q}", desc=f"direct evaluation {sites[q]} in {q}")
    # the cached properties evaluate at self.x
    itc = u.cls("pygradflow.iterate.Iterate")
    for name in ("obj", "obj_grad", "cons", "cons_jac"):
        f = itc.methods[name]
        calls = [n for n in ast.walk(f.node) if isinstance(n, ast.Call) and isinstance(n.func, ast.Attribute) and n.func.attr == name]
        ok = len(calls) == 1 and len(calls[0].args) == 1 and ast.unparse(calls[0].args[0]) == "self.x" and ast.unparse(calls[0].func.value) == "self.eval"
        u.ensure(ok, f"Iterate.{name}_evaluates_at_self.x")
    f = itc.methods["lag_hess"]
    calls = [n for n in ast.walk(f.node) if isinstance(n, ast.Call) and isinstance(n.func, ast.Attribute) and n.func.attr == "lag_hess"]
    u.ensure(len(calls) == 1 and ast.unparse(calls[0].args[0]) == "self.x", "Iterate.lag_hess_evaluates_at_self.x")


def in_box_hook(u, problem, log):
    """call hook: every Iterate(...) construction must establish in_box for its x argument"""
    itc = u.cls("pygradflow.iterate.Iterate")

    def hook(it, fn, args, kwargs, node, frame):
        if fn is itc:
            x = args[2] if len(args) > 2 else kwargs.get("x")
            prob = args[0] if args else kwargs.get("problem")
            lb, ub = V(prob.fields["var_lb"]), V(prob.fields["var_ub"])
            xv = V(x)
            site = frame.site("call", node)
            ok = it.path.prove(QAll(xv.n, lambda j: z3.And(lb.f(j) <= xv.f(j), xv.f(j) <= ub.f(j))), f"{site}:Iterate(...)#in_box", kind="requires", desc=f"x argument of Iterate(...) at {site} inside [var_lb, var_ub]", props=["C05"])
            log.append((site, ok))

    return hook


@unit("C05.Globalized.step", ["C05"], ["pygradflow.newton.GlobalizedNewtonMethod.step", "pygradflow.newton.GlobalizedNewtonMethod._set_iterate"], config={"max_paths": 600})
def globalized_step(u):
    """every trial iterate of the Armijo line search is built from a point inside the box"""
    from pyvc.values import Mat
    from .models import _fresh_vec

    params = mk_params(u, newton_type=u.enum("pygradflow.params.NewtonType", "Globalized"))
    problem = mk_problem(u)
    n, m = problem.fields["__n__"], problem.fields["num_cons"]
    orig = mk_iterate(u, problem, params, "orig", in_box=True)
    cur = orig if u.path.choose("first step (iterate is orig_iterate)") else mk_iterate(u, problem, params, "cur", in_box=True)
    func = u.obj("pygradflow.implicit_func.ImplicitFunc", problem=problem, orig_iterate=orig, dt=u.real("dt"), n=n, m=m)
    ss = u.obj("pygradflow.step.solver.standard_step_solver.StandardStepSolver", problem=problem, params=params, _func=func, func=func)
    A = u.it.abstract
    A["pygradflow.step.solver.standard_step_solver.StandardStepSolver.update_derivs"] = lambda it, s, i: None
    A["pygradflow.step.solver.standard_step_solver.StandardStepSolver.update_active_set"] = lambda it, s, a: None
    A["pygradflow.implicit_func.StepFunc.compute_active_set"] = lambda it, s, i, rho, tau=None: Opaque("active_set")
    A["pygradflow.implicit_func.ImplicitFunc.value_at"] = lambda it, s, i, rho, active_set=None: _fresh_vec(it, "F", ops.scalar_bin("+", n, m))
    A["pygradflow.implicit_func.ImplicitFunc.deriv_at"] = lambda it, s, i, rho, active_set=None: Mat(ops.scalar_bin("+", n, m), ops.scalar_bin("+", n, m), None, name=it.path.fresh_name("DF"))

    def solve(it, s, iterate_):
        dx, dy = _fresh_vec(it, "sdx", n), _fresh_vec(it, "sdy", m)
        return u.construct(SS + "StepResult", iterate_, dx, dy, Opaque("active_set"))

    A["pygradflow.step.solver.standard_step_solver.StandardStepSolver.solve"] = solve
    rho = u.real("rho")
    u.assume(rho > 0)
    meth = u.obj("pygradflow.newton.GlobalizedNewtonMethod", problem=problem, orig_iterate=orig, dt=func.fields["dt"], rho=rho, tau=None, func=func, step_solver=ss)
    log = []
    u.it.hooks["call"] = in_box_hook(u, problem, log)
    kind, val = u.raised(lambda: u.method(meth, "step", cur))
    u.ensure(True, "ran")


@unit("C05._compute_xn.float64", ["C05"], [SS + "StepResult._compute_xn"], config={"timeout_ms": 120000})
def compute_xn_fp(u):
    """the clip re-posed in IEEE double arithmetic (round-to-nearest-even): 'exactly inside the bounds' must not
    depend on real-number identities such as x - (x - lb) = lb.  Inputs: no NaN; x and dx finite; lb <= ub
    (bounds may be infinite)."""
    import z3 as _z3

    params = mk_params(u)
    n = u.int("n")
    u.assume(n >= 0)
    lb, ub, x, dx = u.fpvec("lb", n, "USER"), u.fpvec("ub", n, "USER"), u.fpvec("x", n), u.fpvec("dx", n, "USER")
    for a in (lb, ub, x, dx):
        av = a.vec()
        u.path.add_ufact(UFact(1, lambda j, av=av: _z3.Not(_z3.fpIsNaN(av.f(j))), [(0, n)], "no NaN"))
    xv, dv, lv, uv = x.vec(), dx.vec(), lb.vec(), ub.vec()
    u.path.add_ufact(UFact(1, lambda j: _z3.And(_z3.Not(_z3.fpIsInf(xv.f(j))), _z3.Not(_z3.fpIsInf(dv.f(j))), _z3.fpLEQ(lv.f(j), uv.f(j)), _z3.fpLEQ(lv.f(j), xv.f(j)), _z3.fpLEQ(xv.f(j), uv.f(j))), [(0, n)], "finite x, dx; lb <= x <= ub"))
    problem = u.obj("pygradflow.problem.Problem", var_lb=lb, var_ub=ub, num_cons=0)
    problem.fields["__n__"] = n
    x.cell.writeable = False
    cur = u.obj("pygradflow.iterate.Iterate", x=x, y=u.fpvec("y", 0), params=params, problem=problem, eval=Opaque("evaluator"))
    sr = u.obj(SS + "StepResult", orig_iterate=cur)
    u.method(sr, "_compute_xn", dx)
    xn = sr.fields["xn"].vec()
    u.ensure(QAll(n, lambda j: _z3.And(_z3.fpLEQ(lv.f(j), xn.f(j)), _z3.fpLEQ(xn.f(j), uv.f(j)))), "float64:xn_inside_the_bounds_exactly")
    u.canary(QAll(n, lambda j: _z3.fpLT(lv.f(j), xn.f(j))), "float64:xn_strictly_above_lb")


@unit("C05.SimpleEvaluator.passthrough", ["C05", "C11"], ["pygradflow.eval.SimpleEvaluator._eval_obj", "pygradflow.eval.SimpleEvaluator._eval_obj_grad", "pygradflow.eval.SimpleEvaluator._eval_cons", "pygradflow.eval.SimpleEvaluator._eval_cons_jac", "pygradflow.eval.SimpleEvaluator._eval_lag_hess", "pygradflow.eval.create_evaluator", "pygradflow.eval.Evaluator.obj", "pygradflow.eval.Evaluator.cons"], config={"max_paths": 50})
def simple_evaluator(u):
    """validate_input=False selects SimpleEvaluator: every callback is evaluated at exactly the point handed in
    (so the in-box argument of the call sites carries over), and create_evaluator dispatches on validate_input only"""
    from .c04_transform import UserProblem

    params = mk_params(u)
    validate = u.path.choose("validate_input")
    params.fields["validate_input"] = validate
    problem = mk_problem(u)
    n, m = problem.fields["__n__"], problem.fields["num_cons"]
    up = UserProblem(u, problem)
    ev = u.call("pygradflow.eval.create_evaluator", problem, params)
    u.ensure(ev.cls.name == ("ValidatingEvaluator" if validate else "SimpleEvaluator"), "create_evaluator_dispatches_on_validate_input")
    if validate:
        return
    x = u.vec("x", n, region="USER")
    y = u.vec("y", m, region="USER")
    u.method(ev, "obj", x)
    u.method(ev, "obj_grad", x)
    u.method(ev, "cons", x)
    u.method(ev, "cons_jac", x)
    u.method(ev, "lag_hess", x, y)
    kinds = [c[0] for c in up.calls]
    full = ["obj", "obj_grad", "cons", "cons_jac", "lag_hess"]
    u.ensure(kinds == full or (u.it.truth(m == 0) and kinds == ["obj", "obj_grad", "lag_hess"]), "one_user_call_per_evaluation(constraint_callbacks_only_when_m>0)", desc=str(kinds))
    u.ensure(all(c[1] is x for c in up.calls), "every_callback_evaluated_at_the_very_point_handed_in")
    u.cover("end")
