"""Abstract contracts used at call sites (modular verification: callers see only these).

Fault model for C07 (DESIGN §4/C07): every evaluator call may raise EvalError (the validating evaluator's
reaction to a non-finite callback value) at ANY call; every linear-solver construction / solve may raise
LinearSolverError at ANY call.  Returned values are otherwise unconstrained fresh symbols = "for all problems".
"""
from __future__ import annotations

import z3

from pyvc import ops
from pyvc.core import UFact
from pyvc.values import Arr, ExcVal, Mat, Obj, Opaque, PyRaise, Vec

EVAL = "pygradflow.eval."


def eval_error(it, x=None):
    cls = it.repo.lookup(EVAL + "EvalError")
    e = ExcVal(cls, ("non-finite value", x))
    e.fields["x"] = x
    return e


def _fresh_vec(it, name, n, region="FRESH"):
    A = z3.Array(it.path.fresh_name(name), z3.IntSort(), z3.RealSort())
    path = it.path
    return Arr.new(Vec(n, lambda i: z3.Select(A, path.auto_index(i, n)), "real", arr=A, name=name), region=region)


def install_evaluator_contracts(it, faults=True, log=None):
    """ValidatingEvaluator._eval_*: raises only EvalError; returns a fresh finite value."""

    def mk(kind):
        def contract(it_, self_, x, *rest):
            if log is not None:
                log.append((kind, x))
            it_.path.ghost.setdefault("__evals__", []).append((kind, x))
            m0 = it_.getattr(self_, "num_cons") if "num_cons" in self_.fields else self_.fields["problem"].fields["num_cons"]
            if kind in ("cons", "cons_jac") and it_.truth(m0 == 0):
                # no constraints: the evaluator returns an empty value without calling the problem (cannot fault)
                n0 = it_.getattr(self_, "num_vars") if "num_vars" in self_.fields else self_.fields["problem"].fields["__n__"]
                return _fresh_vec(it_, "c", 0) if kind == "cons" else Mat(0, n0, None, name=it_.path.fresh_name("J"))
            if faults and it_.path.choose(f"{kind} raises EvalError"):
                raise PyRaise(eval_error(it_, x), origin=f"evaluator.{kind}")
            n = it_.getattr(self_, "num_vars") if "num_vars" in self_.fields else self_.fields["problem"].fields["__n__"]
            m = it_.getattr(self_, "num_cons") if "num_cons" in self_.fields else self_.fields["problem"].fields["num_cons"]
            if kind == "obj":
                return it_.path.real("f")
            if kind == "obj_grad":
                return _fresh_vec(it_, "g", n, region="USER")
            if kind == "cons":
                return _fresh_vec(it_, "c", m, region="USER")
            if kind == "cons_jac":
                return Mat(m, n, None, name=it_.path.fresh_name("J"), region="USER")
            if kind == "lag_hess":
                return Mat(n, n, None, name=it_.path.fresh_name("H"), region="USER")

        return contract

    for k in ("obj", "obj_grad", "cons", "cons_jac", "lag_hess"):
        it.abstract[EVAL + f"ValidatingEvaluator._eval_{k}"] = mk(k)
        it.abstract[EVAL + f"SimpleEvaluator._eval_{k}"] = mk(k)


def mk_evaluator(u, problem, validating=True):
    comp = u.cls(EVAL + "Component")
    from pyvc.values import EnumVal

    ev = u.obj(EVAL + ("ValidatingEvaluator" if validating else "SimpleEvaluator"), problem=problem, dtype=Opaque("dtype:float64"),
               num_vars=problem.fields["__n__"], num_cons=problem.fields["num_cons"],
               num_evals={EnumVal(comp, n): 0 for n in comp.class_attrs})
    return ev
