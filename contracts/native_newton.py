"""Native bounded oracle for C14: every step solver x linear solver returns the semismooth Newton step of the
implicit-Euler equation computed by a dense reference (numpy.linalg.solve on the dense generalised Jacobian)."""
from __future__ import annotations

import itertools

import numpy as np

from pyvc.native import native, result, use_repo

from .native_solve import enum, mk_params, scenarios


def dense_reference(problem, params, iterate, dt, rho, active_set):
    """F'(z) s = F(z) with F the implicit-Euler residual; F' its generalised Jacobian for the given active set"""
    x0, y0 = iterate.x, iterate.y
    n, m = problem.num_vars, problem.num_cons
    c = problem.cons(x0) if m else np.zeros(0)
    J = problem.cons_jac(x0).toarray() if m else np.zeros((0, n))
    g = problem.obj_grad(x0)
    H = problem.lag_hess(x0, y0 + rho * c).toarray() + rho * J.T @ J
    dL = g + J.T @ (rho * c + y0)
    p = x0 - dt * dL
    lb, ub = problem.var_lb, problem.var_ub
    proj = np.where(active_set, np.clip(p, lb, ub), p)
    F = np.concatenate([x0 - proj, y0 - (y0 + dt * c)])
    Dn = np.diag((~active_set).astype(float))
    top = np.hstack([np.eye(n) + dt * Dn @ H, dt * Dn @ J.T])
    bot = np.hstack([-dt * J, np.eye(m)])
    Fp = np.vstack([top, bot])
    s = np.linalg.solve(Fp, F)
    return s[:n], s[n:]


@native("native.c14.newton_step", ["C14"])
def newton_step(tier="quick", seed=0, only=None):
    use_repo()
    from pygradflow.implicit_func import ImplicitFunc
    from pygradflow.iterate import Iterate
    from pygradflow.newton import newton_method
    from pygradflow.step.solver import step_solver
    from pygradflow.transform import Transformation

    rng = np.random.default_rng(7 + seed)
    failures, cases = [], 0
    S = scenarios()
    names = ["qp_eq_box", "nlp_mixed", "qp_ranged_fixed"] if tier == "quick" else list(S)
    step_solvers = ["Standard", "Extended", "Symmetric", "Asymmetric"]
    lin = {"Standard": ["LU", "GMRES"], "Extended": ["LU", "GMRES"], "Symmetric": ["LU", "MINRES", "GMRES"], "Asymmetric": ["LU", "GMRES"]}
    for name in names:
        mk, x0, y0 = S[name]
        user = mk()
        tr = Transformation(user, mk_params())
        problem = tr.trans_problem
        n, m = problem.num_vars, problem.num_cons
        for trial in range(2 if tier == "quick" else 8):
            x = np.clip(rng.uniform(-1, 1, n), problem.var_lb, problem.var_ub)
            y = rng.uniform(-1, 1, m)
            for dt, rho in ((0.5, 1.0), (2.0, 1e-2)) if tier == "quick" else ((0.5, 1.0), (2.0, 1e-2), (0.1, 10.0)):
                for ss in step_solvers:
                    for ls in lin[ss]:
                        inp = dict(scenario=name, step_solver=ss, linear_solver=ls, dt=dt, rho=rho, x=x.tolist(), y=y.tolist())
                        if only is not None and only != inp:
                            continue
                        if name == "qp_big_multipliers" and ls != "LU":
                            # "up to the linear solver's tolerance": for this badly scaled system (entries 1 .. 1e5) the
                            # iterative solvers' residual tolerance says nothing about the step error - LU only
                            continue
                        params = mk_params(step_solver_type=enum("StepSolverType", ss), linear_solver_type=enum("LinearSolverType", ls))
                        it = Iterate(problem, params, x, y)
                        try:
                            solver = step_solver(problem, params, it, dt, rho)
                            func = ImplicitFunc(problem, it, dt)
                            act = func.compute_active_set(it, rho)
                            solver.update_active_set(act)
                            solver.update_derivs(it)
                            res = solver.solve(it)
                            # the system is re-assembled from the SAME stored derivatives (as the ActiveSet Newton
                            # variant does whenever the active set changes): the step must not change
                            solver.update_active_set(act)
                            res2 = solver.solve(it)
                            solver.update_active_set(act)
                            res3 = solver.solve(it)
                            if not (np.allclose(res3.dx, res.dx, rtol=1e-7, atol=1e-10) and np.allclose(res3.dy, res.dy, rtol=1e-7, atol=1e-10)):
                                failures.append(dict(label=f"C14:re-assembled_system_gives_a_different_step:{ss}", input=inp, observed=f"{res.dx.tolist()} vs {res3.dx.tolist()}"))
                        except Exception as e:  # noqa
                            failures.append(dict(label=f"C14:step_solver_raises:{ss}:{type(e).__name__}", input=inp, observed=str(e)[:200]))
                            continue
                        cases += 1
                        rdx, rdy = dense_reference(problem, params, it, dt, rho, act)
                        # compare before the box clip of StepResult: res.dx is clipped, so compare on unclipped entries
                        xn_ref = np.clip(x - rdx, problem.var_lb, problem.var_ub)
                        scale = 1.0 + np.linalg.norm(rdx) + np.linalg.norm(rdy)
                        err = max(np.linalg.norm((x - res.dx) - xn_ref, np.inf), np.linalg.norm(res.dy - rdy, np.inf)) / scale
                        tol = 1e-8 if ls == "LU" else 1e-5
                        if not err <= tol:
                            failures.append(dict(label=f"C14:newton_step_differs_from_dense_reference:{ss}", input=inp, observed=f"relative error {err:.3e}"))
        # Newton variants: same first step from the same start
        for ss in step_solvers:
            steps = {}
            x = np.clip(np.asarray(x0 if x0 is not None else np.zeros(user.num_vars), float), user.var_lb, user.var_ub)
            itx = tr.create_transformed_iterate(x, y0)
            for nt in ("Simplified", "Full", "ActiveSet"):
                params = mk_params(step_solver_type=enum("StepSolverType", ss), newton_type=enum("NewtonType", nt))
                it0 = Iterate(problem, params, itx.x, itx.y)
                meth = newton_method(problem, params, it0, 0.7, 0.5)
                r = meth.step(it0)
                steps[nt] = (r.dx, r.dy)
                cases += 1
            for nt in ("Full", "ActiveSet"):
                if not (np.allclose(steps[nt][0], steps["Simplified"][0], rtol=1e-9, atol=1e-12) and np.allclose(steps[nt][1], steps["Simplified"][1], rtol=1e-9, atol=1e-12)):
                    failures.append(dict(label=f"C14:newton_variants_first_step_differs:{nt}:{ss}", input=dict(scenario=name, step_solver=ss), observed="first steps differ"))
    seen, uniq = set(), []
    for f in failures:
        if f["label"] not in seen:
            seen.add(f["label"])
            uniq.append(f)
    return result(cases, uniq, f"scenarios {names} x random in-box points x (dt, rho) pairs x 4 step solvers x applicable linear solvers")


@native("native.c13.deriv_formats", ["C13", "C11"])
def deriv_formats(tier="quick", seed=0, only=None):
    """bounded: the generalised Jacobians ImplicitFunc.deriv_at / ScaledImplicitFunc.deriv_at at points with a
    non-empty active set, for callbacks returning COO / CSR / CSC matrices: (a) the same entries whatever the format,
    (b) evaluating twice gives the same matrix, (c) the iterate's cached Jacobian / the callback's matrices keep
    their values (an in-place row filter on an aliased transposed view would change them)"""
    use_repo()
    from pygradflow.implicit_func import ImplicitFunc, ScaledImplicitFunc
    from pygradflow.iterate import Iterate

    from .native_solve import _caching

    rng = np.random.default_rng(13 + seed)
    failures, cases = [], 0
    S = scenarios()
    names = ["qp_eq_box", "nlp_mixed", "qp_ranged_fixed"] if tier == "quick" else [n_ for n_ in S if n_ != "qp_big_multipliers"]
    for name in names:
        mk, x0, y0 = S[name]
        base = mk()
        n, m = base.num_vars, base.num_cons
        if m == 0:
            continue
        for trial in range(2 if tier == "quick" else 6):
            # a point with some variables pushed far outside their bounds after the explicit step => active set non-empty
            x = np.clip(rng.uniform(-1, 1, n), base.var_lb, base.var_ub)
            y = rng.uniform(-2, 2, m)
            dt, rho = (50.0, 1.0) if trial % 2 == 0 else (0.5, 10.0)
            ref = {}
            for cls in (ImplicitFunc, ScaledImplicitFunc):
                for fmt in ("coo", "csr", "csc"):
                    inp = dict(scenario=name, trial=trial, func=cls.__name__, format=fmt)
                    if only is not None and only != inp:
                        continue
                    prob = _caching(mk(fmt), fmt)
                    params = mk_params()
                    it = Iterate(prob, params, x, y)
                    func = cls(prob, it, dt)
                    J0 = it.cons_jac.toarray().copy()
                    cases += 1
                    try:
                        D1 = func.deriv_at(it, rho).toarray()
                        J1 = it.cons_jac.toarray()
                        D2 = func.deriv_at(it, rho).toarray()
                    except Exception as e:  # noqa
                        failures.append(dict(label=f"C13:deriv_at_raises_or_corrupts_its_inputs:{type(e).__name__}:{fmt}", input=inp, observed=str(e)[:200]))
                        continue
                    if not np.array_equal(J0, J1):
                        failures.append(dict(label=f"C13:deriv_at_changes_the_iterate's_constraint_Jacobian:{fmt}", input=inp, observed=f"max change {np.abs(J0 - J1).max():.3g}"))
                    if not np.array_equal(D1, D2):
                        failures.append(dict(label=f"C13:deriv_at_not_repeatable:{fmt}", input=inp, observed=f"max difference {np.abs(D1 - D2).max():.3g}"))
                    key = cls.__name__
                    if key not in ref:
                        ref[key] = (fmt, D1)
                    elif not np.allclose(ref[key][1], D1, rtol=1e-12, atol=1e-12):
                        failures.append(dict(label=f"C13:deriv_at_depends_on_the_sparse_format_of_the_callbacks:{ref[key][0]}_vs_{fmt}", input=inp, observed=f"max difference {np.abs(ref[key][1] - D1).max():.3g}"))
                    try:
                        touched = [k[0] for k, v0 in prob._born.items() if _snap_(prob._cache[k]) != v0]
                    except Exception as e:  # noqa  (a matrix whose arrays no longer describe a valid sparse matrix)
                        failures.append(dict(label=f"C13:deriv_at_leaves_a_callback's_matrix_in_an_invalid_state:{fmt}", input=inp, observed=f"{type(e).__name__}: {str(e)[:120]}"))
                        touched = []
                    if touched:
                        failures.append(dict(label=f"C13:deriv_at_modifies_a_matrix_returned_by_the_{touched[0]}_callback:{fmt}", input=inp, observed=str(sorted(set(touched)))))
    seen, uniq = set(), []
    for f in failures:
        if f["label"] not in seen:
            seen.add(f["label"])
            uniq.append(f)
    return result(cases, uniq, f"scenarios {names} x 2 points x {{ImplicitFunc, ScaledImplicitFunc}} x {{COO, CSR, CSC}}")


def _snap_(v):
    from .native_solve import _snap

    return _snap(v)
